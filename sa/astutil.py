"""Small helpers over `ast` used by every rule."""
import ast


def text(node):
    """Normalised source text of a node (independent of layout/comments)."""
    if node is None:
        return "None"
    if isinstance(node, str):
        return node
    try:
        return ast.unparse(node)
    except Exception:  # pragma: no cover
        return ast.dump(node)


def access_path(node):
    """Text of a Name / Attribute / constant-Subscript chain, else None."""
    if isinstance(node, ast.Name):
        return node.id
    if isinstance(node, ast.Attribute):
        b = access_path(node.value)
        return None if b is None else b + "." + node.attr
    if isinstance(node, ast.Subscript):
        b = access_path(node.value)
        if b is None:
            return None
        return b + "[" + text(node.slice) + "]"
    return None


def root_name(node):
    while isinstance(node, (ast.Attribute, ast.Subscript, ast.Call)):
        node = node.value if not isinstance(node, ast.Call) else node.func
    if isinstance(node, ast.Name):
        return node.id
    return None


def walk_no_nested(node):
    """ast.walk that does not descend into nested function/class/lambda bodies."""
    todo = [node]
    while todo:
        n = todo.pop()
        yield n
        for c in ast.iter_child_nodes(n):
            if isinstance(c, (ast.FunctionDef, ast.AsyncFunctionDef, ast.ClassDef, ast.Lambda)):
                continue
            todo.append(c)


def calls_in(node, nested=True):
    it = ast.walk(node) if nested else walk_no_nested(node)
    return [n for n in it if isinstance(n, ast.Call)]


def call_name(call):
    """'f' for f(..), 'a.b.f' for a.b.f(..); None otherwise."""
    return access_path(call.func) if isinstance(call, ast.Call) else None


def method_call(node):
    """(receiver_node, method_name, call) if node is a call `recv.m(...)`."""
    if isinstance(node, ast.Call) and isinstance(node.func, ast.Attribute):
        return node.func.value, node.func.attr, node
    return None


def is_method_call(node, name):
    mc = method_call(node)
    return mc is not None and mc[1] == name


def store_targets(stmt):
    """lvalue nodes written by a simple statement (Assign/AugAssign/AnnAssign/For/With/Delete)."""
    out = []

    def flat(t):
        if isinstance(t, (ast.Tuple, ast.List)):
            for e in t.elts:
                flat(e)
        elif isinstance(t, ast.Starred):
            flat(t.value)
        else:
            out.append(t)
    if isinstance(stmt, ast.Assign):
        for t in stmt.targets:
            flat(t)
    elif isinstance(stmt, (ast.AugAssign, ast.AnnAssign)):
        flat(stmt.target)
    elif isinstance(stmt, (ast.For, ast.AsyncFor)):
        flat(stmt.target)
    elif isinstance(stmt, (ast.With, ast.AsyncWith)):
        for it in stmt.items:
            if it.optional_vars is not None:
                flat(it.optional_vars)
    elif isinstance(stmt, ast.Delete):
        for t in stmt.targets:
            flat(t)
    return out


def mutated_paths(stmt):
    """Access paths a statement may change: store targets, receivers and
    arguments of calls (a callee may mutate what it is handed)."""
    out = set()
    for t in store_targets(stmt):
        p = access_path(t)
        if p is None:
            r = root_name(t)
            if r:
                out.add(r)
        else:
            out.add(p)
            # writing x[i] or x.a changes x as a value
            if isinstance(t, (ast.Subscript, ast.Attribute)):
                bp = access_path(t.value)
                if bp:
                    out.add(bp)
    nodes = [stmt] if not isinstance(stmt, (ast.For, ast.While, ast.If, ast.With, ast.Try)) else []
    for n in nodes:
        for c in calls_in(n, nested=False):
            if isinstance(c.func, ast.Attribute):
                p = access_path(c.func.value)
                if p:
                    out.add(p)
                else:
                    r = root_name(c.func.value)
                    if r:
                        out.add(r)
            for a in list(c.args) + [k.value for k in c.keywords]:
                p = access_path(a)
                if p and not isinstance(a, ast.Constant):
                    out.add(p)
    return out


def paths_overlap(p, q):
    """True if access path p is q, a prefix of q, or an extension of q."""
    if p == q:
        return True
    for a, b in ((p, q), (q, p)):
        if b.startswith(a) and b[len(a)] in ".[":
            return True
    return False


def names_in(node):
    return {n.id for n in ast.walk(node) if isinstance(n, ast.Name)}


def access_paths_in(node):
    """Maximal access paths read inside an expression."""
    out = set()

    def rec(n):
        p = access_path(n)
        if p is not None and isinstance(n, (ast.Name, ast.Attribute, ast.Subscript)):
            out.add(p)
            # index expressions inside subscripts are also read
            m = n
            while isinstance(m, (ast.Attribute, ast.Subscript)):
                if isinstance(m, ast.Subscript):
                    rec(m.slice)
                m = m.value
            return
        for c in ast.iter_child_nodes(n):
            rec(c)
    rec(node)
    return out


def const_value(node):
    """Python value of a literal (incl. negative numbers), else raises ValueError."""
    if isinstance(node, ast.Constant):
        return node.value
    if isinstance(node, ast.UnaryOp) and isinstance(node.op, ast.USub):
        v = const_value(node.operand)
        if isinstance(v, (int, float)):
            return -v
    if isinstance(node, ast.UnaryOp) and isinstance(node.op, ast.UAdd):
        return const_value(node.operand)
    raise ValueError("not a literal")


def is_const(node):
    try:
        const_value(node)
        return True
    except ValueError:
        return False


def fold(node, env=None):
    """Constant-fold a closed arithmetic expression (literals, + - * / // % **,
    names bound in env).  Raises ValueError when not closed."""
    env = env or {}
    if isinstance(node, ast.Constant):
        if isinstance(node.value, (int, float, bool)):
            return node.value
        raise ValueError("non numeric literal")
    if isinstance(node, ast.Name):
        if node.id in env:
            return env[node.id]
        raise ValueError("free name " + node.id)
    if isinstance(node, ast.UnaryOp):
        v = fold(node.operand, env)
        if isinstance(node.op, ast.USub):
            return -v
        if isinstance(node.op, ast.UAdd):
            return +v
        raise ValueError("unary")
    if isinstance(node, ast.BinOp):
        a, b = fold(node.left, env), fold(node.right, env)
        op = node.op
        if isinstance(op, ast.Add):
            return a + b
        if isinstance(op, ast.Sub):
            return a - b
        if isinstance(op, ast.Mult):
            return a * b
        if isinstance(op, ast.Div):
            return a / b
        if isinstance(op, ast.FloorDiv):
            return a // b
        if isinstance(op, ast.Mod):
            return a % b
        if isinstance(op, ast.Pow):
            return a ** b
    raise ValueError("not foldable: " + text(node))


def func_params(fn):
    a = fn.args
    return [x.arg for x in a.posonlyargs + a.args]


def stmt_key(node):
    """Normalised construct key for a statement/expression: its unparsed text,
    whitespace collapsed, cut to the first line for compound statements."""
    t = text(node).strip().split("\n")[0]
    return " ".join(t.split())


def single_defs(fn):
    """{name: value node} for locals bound exactly once by `name = expr`
    (never augmented, never a loop/with target, not a parameter)."""
    import collections
    cnt = collections.Counter()
    val = {}
    params = set(func_params(fn)) | {a.arg for a in fn.args.kwonlyargs}
    if fn.args.vararg:
        params.add(fn.args.vararg.arg)
    if fn.args.kwarg:
        params.add(fn.args.kwarg.arg)
    for n in walk_no_nested(fn):
        if isinstance(n, ast.Assign):
            for t in n.targets:
                if isinstance(t, ast.Name):
                    cnt[t.id] += 1
                    val[t.id] = n.value
                else:
                    for e in ast.walk(t):
                        if isinstance(e, ast.Name) and isinstance(e.ctx, ast.Store):
                            cnt[e.id] += 2
        elif isinstance(n, (ast.AugAssign, ast.AnnAssign)):
            if isinstance(n.target, ast.Name):
                cnt[n.target.id] += 2
        elif isinstance(n, (ast.For, ast.AsyncFor, ast.comprehension)):
            for e in ast.walk(n.target):
                if isinstance(e, ast.Name):
                    cnt[e.id] += 2
        elif isinstance(n, (ast.With, ast.AsyncWith)):
            for it in n.items:
                if it.optional_vars is not None:
                    for e in ast.walk(it.optional_vars):
                        if isinstance(e, ast.Name):
                            cnt[e.id] += 2
        elif isinstance(n, ast.ExceptHandler) and n.name:
            cnt[n.name] += 2
        elif isinstance(n, ast.NamedExpr) and isinstance(n.target, ast.Name):
            cnt[n.target.id] += 2
    return {k: v for k, v in val.items() if cnt[k] == 1 and k not in params}


def canon(node, defs, depth=6):
    """copy of node with single-definition locals replaced by their definitions"""
    import copy

    class T(ast.NodeTransformer):
        def __init__(self, d):
            self.d = d

        def visit_Name(self, n):
            if isinstance(n.ctx, ast.Load) and n.id in defs and self.d > 0:
                return T(self.d - 1).visit(copy.deepcopy(defs[n.id]))
            return n
    return T(depth).visit(copy.deepcopy(node))


def canon_text(node, defs, depth=6):
    return text(canon(node, defs, depth))


def enclosing_loops(fn):
    """{id(stmt): [enclosing For/While nodes outermost first]} for every statement in fn"""
    out = {}

    def rec(stmts, stack):
        for s in stmts:
            out[id(s)] = list(stack)
            if isinstance(s, (ast.For, ast.While, ast.AsyncFor)):
                rec(s.body, stack + [s])
                rec(s.orelse, stack)
            elif isinstance(s, ast.If):
                rec(s.body, stack)
                rec(s.orelse, stack)
            elif isinstance(s, (ast.With, ast.AsyncWith)):
                rec(s.body, stack)
            elif isinstance(s, ast.Try):
                rec(s.body, stack)
                for h in s.handlers:
                    rec(h.body, stack)
                rec(s.orelse, stack)
                rec(s.finalbody, stack)
    rec(fn.body, [])
    return out


def stmts_of(fn):
    """all statements of a function (not nested defs), in source order"""
    out = []

    def rec(stmts):
        for s in stmts:
            out.append(s)
            for f in ("body", "orelse", "finalbody"):
                if hasattr(s, f) and not isinstance(s, (ast.FunctionDef, ast.AsyncFunctionDef, ast.ClassDef)):
                    rec(getattr(s, f))
            if isinstance(s, ast.Try):
                for h in s.handlers:
                    rec(h.body)
    rec(fn.body)
    return out


def range_bounds(call):
    """(start, stop, step) nodes of a range(...) call (None where absent) or None"""
    if isinstance(call, ast.Call) and isinstance(call.func, ast.Name) and call.func.id == "range" and not call.keywords:
        a = call.args
        if len(a) == 1:
            return None, a[0], None
        if len(a) == 2:
            return a[0], a[1], None
        if len(a) == 3:
            return a[0], a[1], a[2]
    return None


def is_len_of(node, path_text):
    return isinstance(node, ast.Call) and isinstance(node.func, ast.Name) and node.func.id == "len" \
        and len(node.args) == 1 and access_path(node.args[0]) == path_text


def is_fresh_copy_of(node, path_text):
    """x.copy() / list(x) / x[:] / copy(x) / deepcopy(x) / [e for e in x]"""
    if isinstance(node, ast.Call):
        if isinstance(node.func, ast.Attribute) and node.func.attr == "copy" and not node.args \
                and access_path(node.func.value) == path_text:
            return True
        nm = access_path(node.func)
        if nm in ("list", "copy", "deepcopy", "copy.copy", "copy.deepcopy") and len(node.args) == 1 \
                and access_path(node.args[0]) == path_text:
            return True
    if isinstance(node, ast.Subscript) and access_path(node.value) == path_text and isinstance(node.slice, ast.Slice) \
            and node.slice.lower is None and node.slice.upper is None and node.slice.step is None:
        return True
    if isinstance(node, ast.ListComp) and len(node.generators) == 1 and not node.generators[0].ifs \
            and access_path(node.generators[0].iter) == path_text and isinstance(node.elt, ast.Name) \
            and isinstance(node.generators[0].target, ast.Name) and node.elt.id == node.generators[0].target.id:
        return True
    return False


_MIRROR = {ast.Lt: ast.Gt, ast.Gt: ast.Lt, ast.LtE: ast.GtE, ast.GtE: ast.LtE, ast.Eq: ast.Eq, ast.NotEq: ast.NotEq, ast.Is: ast.Is, ast.IsNot: ast.IsNot}


def oriented(cmp, pred):
    """(subject, operator type, other) of a two-operand comparison, written so that `subject` is the
    operand for which pred(node) holds (the comparison is mirrored when that is the right operand);
    None when the node is not such a comparison"""
    if not (isinstance(cmp, ast.Compare) and len(cmp.ops) == 1):
        return None
    a, b, op = cmp.left, cmp.comparators[0], type(cmp.ops[0])
    if pred(a):
        return a, op, b
    if pred(b) and op in _MIRROR:
        return b, _MIRROR[op], a
    return None


class NotEvaluable(Exception):
    pass


def ceval(node, env):
    """value of a closed, side-effect free expression over literal values (numbers, strings, None, dicts, lists,
    tuples) bound in env - used to evaluate guards for each representative of a finite case split.
    Supports constants, names, subscripts, d.get(k[, default]), comparisons, and/or/not, conditional
    expressions, unary minus, + - * on numbers, len(), tuples/lists.  Raises NotEvaluable otherwise; a KeyError /
    IndexError of the evaluated expression is reported as NotEvaluable("raises")."""
    try:
        return _ceval(node, env)
    except (KeyError, IndexError, TypeError) as e:
        raise NotEvaluable("raises %s" % type(e).__name__)


def _ceval(n, env):
    if isinstance(n, ast.Constant):
        return n.value
    if isinstance(n, ast.Name):
        if n.id in env:
            return env[n.id]
        raise NotEvaluable("free name %s" % n.id)
    if isinstance(n, (ast.Tuple, ast.List)):
        v = [_ceval(e, env) for e in n.elts]
        return tuple(v) if isinstance(n, ast.Tuple) else v
    if isinstance(n, ast.Subscript) and not isinstance(n.slice, ast.Slice):
        return _ceval(n.value, env)[_ceval(n.slice, env)]
    if isinstance(n, ast.UnaryOp):
        v = _ceval(n.operand, env)
        if isinstance(n.op, ast.Not):
            return not v
        if isinstance(n.op, ast.USub):
            return -v
        if isinstance(n.op, ast.UAdd):
            return +v
    if isinstance(n, ast.BoolOp):
        if isinstance(n.op, ast.And):
            v = True
            for e in n.values:
                v = _ceval(e, env)
                if not v:
                    return v
            return v
        v = False
        for e in n.values:
            v = _ceval(e, env)
            if v:
                return v
        return v
    if isinstance(n, ast.IfExp):
        return _ceval(n.body, env) if _ceval(n.test, env) else _ceval(n.orelse, env)
    if isinstance(n, ast.Compare):
        left = _ceval(n.left, env)
        for op, c in zip(n.ops, n.comparators):
            right = _ceval(c, env)
            r = {ast.Eq: lambda a, b: a == b, ast.NotEq: lambda a, b: a != b, ast.Lt: lambda a, b: a < b, ast.LtE: lambda a, b: a <= b,
                 ast.Gt: lambda a, b: a > b, ast.GtE: lambda a, b: a >= b, ast.Is: lambda a, b: a is b, ast.IsNot: lambda a, b: a is not b,
                 ast.In: lambda a, b: a in b, ast.NotIn: lambda a, b: a not in b}[type(op)](left, right)
            if not r:
                return False
            left = right
        return True
    if isinstance(n, ast.BinOp) and isinstance(n.op, (ast.Add, ast.Sub, ast.Mult)):
        a, b = _ceval(n.left, env), _ceval(n.right, env)
        if isinstance(a, (int, float)) and isinstance(b, (int, float)):
            return a + b if isinstance(n.op, ast.Add) else (a - b if isinstance(n.op, ast.Sub) else a * b)
    if isinstance(n, ast.Call):
        if isinstance(n.func, ast.Attribute) and n.func.attr == "get" and 1 <= len(n.args) <= 2 and not n.keywords:
            d = _ceval(n.func.value, env)
            if isinstance(d, dict):
                return d.get(_ceval(n.args[0], env), _ceval(n.args[1], env) if len(n.args) == 2 else None)
        if isinstance(n.func, ast.Name) and n.func.id == "len" and len(n.args) == 1:
            return len(_ceval(n.args[0], env))
    raise NotEvaluable(text(n)[:60])


def flag_values(events, var, domain, since=0):
    """the values of `domain` the variable can hold given every guard on the event list that compares it with
    literals (==, !=, <, <=, >, >=, in, not in; either orientation), from event index `since` on"""
    ok = set(domain)
    for e in events[since:]:
        if e.kind != "guard":
            continue
        g = e.node
        o = oriented(g, lambda n_: access_path(n_) == var)
        sat = None
        if o is not None and is_const(o[2]) and o[1] in (ast.Eq, ast.NotEq, ast.Lt, ast.LtE, ast.Gt, ast.GtE):
            c = const_value(o[2])
            try:
                sat = {v for v in domain if {ast.Eq: v == c, ast.NotEq: v != c, ast.Lt: v < c, ast.LtE: v <= c, ast.Gt: v > c, ast.GtE: v >= c}[o[1]]}
            except TypeError:
                sat = None
        elif isinstance(g, ast.Compare) and len(g.ops) == 1 and isinstance(g.ops[0], (ast.In, ast.NotIn)) and access_path(g.left) == var \
                and isinstance(g.comparators[0], (ast.Tuple, ast.List, ast.Set)) and all(is_const(x) for x in g.comparators[0].elts):
            vals = [const_value(x) for x in g.comparators[0].elts]
            sat = {v for v in domain if v in vals}
            if isinstance(g.ops[0], ast.NotIn):
                sat = set(domain) - sat
        if sat is not None:
            ok &= sat if e.val else (set(domain) - sat)
    return ok


def call_arg(call, pos, name):
    """the argument of a call that binds parameter `name` (position `pos`, 0-based, not counting self), given by position or by keyword"""
    for k in call.keywords:
        if k.arg == name:
            return k.value
    if pos is not None and len(call.args) > pos and not any(isinstance(a, ast.Starred) for a in call.args[:pos + 1]):
        return call.args[pos]
    return None



def loose_isclose(fn):
    """(call, relative, absolute) for isclose / allclose calls whose tolerances are wider than rounding error"""
    out = []
    for c in ast.walk(fn):
        if isinstance(c, ast.Call) and (access_path(c.func) or "").split(".")[-1] in ("isclose", "allclose") and len(c.args) >= 2:
            kw = {k.arg: k.value for k in c.keywords}
            np_ = (access_path(c.func) or "").startswith(("np.", "numpy."))
            rel = kw.get("rel_tol", kw.get("rtol"))
            ab = kw.get("abs_tol", kw.get("atol"))
            try:
                relv = fold(rel) if rel is not None else (1e-5 if np_ else 1e-9)
                absv = fold(ab) if ab is not None else (1e-8 if np_ else 0.0)
            except ValueError:
                continue
            if relv > 1e-14 or absv > 0:
                out.append((c, relv, absv))
    return out
