"""Inlining of small private helpers that did not exist when the rules were written.

Extracting a piece of a function into a private helper (`self._accept(...)`, `_three_way(a, b)`)
is among the most common behaviour-preserving edits.  The rules are anchored on the functions named
in the property file; a helper that is *new* (not in `known_functions.json`, the list of function
names of the tree the rules were written against) and private (leading underscore) is substituted
back into its callers before normalisation, so that the anchored function is analysed as a whole
again.  Known functions are never inlined (they are anchors or are analysed through their own rules).

(Originally only underscore-private helpers were considered; a seeded change that put its logic into a new
public-looking method `box_sizes()` showed that the name says nothing - "new" is what matters.)

A call is inlined when
  * it resolves to exactly one definition: `self.h(..)` / `cls.h(..)` / `Class.h(..)` to the only class of the
    module that defines the private name `h`, `h(..)` to a module-level function of the same module;
  * the helper has plain parameters (no *args/**kwargs, defaults literal), no nested def, no
    yield/await/global/nonlocal, is not recursive, and is at most 40 statements long;
  * the arguments bind to the parameters positionally or by keyword;
  * the call is a whole statement, the whole right-hand side of an assignment / augmented assignment
    / return, or (expression position) the helper is a single `return <expr>` and every argument is
    free of calls.
Returns inside the helper: a call in `return h(..)` position keeps them as returns of the caller; otherwise
the body must be tree-shaped (every `return` ends an if-branch or the body) and each `return E` becomes
an assignment to the call's target, with the code after a returning `if` moved into its `else`.
Parameters are bound to fresh locals (or substituted when the argument is a plain name / literal / call-free
path and the parameter is never assigned), the helper's locals are renamed apart.

Exactness: the inlined statements perform the helper's operations in the same order on the same
objects; only the binding of locals differs.  (Name-mangled `self.__h` is matched by its spelled name.)
"""
import ast
import copy
import json
import os

HERE = os.path.dirname(os.path.abspath(__file__))
KNOWN_FILE = os.path.join(HERE, "known_functions.json")
MAX_STMTS = 40
STATS = {"inlined_calls": 0, "helpers": set()}
_counter = [0]


def load_known():
    try:
        return {k: set(v) for k, v in json.load(open(KNOWN_FILE)).items()}
    except (OSError, ValueError):
        return None


def is_private(name):
    # "helper" = any function that is not a special method; whether it is new is decided against the table of known names
    return not (name.startswith("__") and name.endswith("__"))


def _all_stmts(body):
    for s in body:
        yield s
        for f in ("body", "orelse", "finalbody"):
            b = getattr(s, f, None)
            if isinstance(b, list) and b and isinstance(b[0], ast.stmt):
                yield from _all_stmts(b)
        if isinstance(s, ast.Try):
            for h in s.handlers:
                yield from _all_stmts(h.body)


def _eligible(fn):
    a = fn.args
    if a.kwarg or a.kwonlyargs or a.posonlyargs:
        return False
    if a.vararg and not _vararg_forwarded_only(fn):
        return False
    if any(not isinstance(d, ast.Constant) and not (isinstance(d, ast.UnaryOp) and isinstance(d.operand, ast.Constant)) for d in a.defaults):
        return False
    n = 0
    for s in _all_stmts(fn.body):
        n += 1
        if isinstance(s, (ast.FunctionDef, ast.AsyncFunctionDef, ast.ClassDef, ast.Global, ast.Nonlocal)):
            return False
    if n > MAX_STMTS:
        return False
    for x in ast.walk(fn):
        if isinstance(x, (ast.Yield, ast.YieldFrom, ast.Await, ast.Lambda)) and not isinstance(x, ast.Lambda):
            return False
        if isinstance(x, ast.Call) and ((isinstance(x.func, ast.Name) and x.func.id in (fn.name, "locals", "vars", "eval", "exec", "super"))
                                        or (isinstance(x.func, ast.Attribute) and x.func.attr == fn.name)):
            return False
    return True


def _vararg_forwarded_only(fn):
    """the *args parameter is only ever passed on as `*args` in calls of the body (a template method handing extra
    arguments through to its callback)"""
    v = fn.args.vararg.arg
    starred = {id(x.value) for c in ast.walk(fn) if isinstance(c, ast.Call) for x in c.args if isinstance(x, ast.Starred) and isinstance(x.value, ast.Name) and x.value.id == v}
    return all(id(n) in starred for n in ast.walk(fn) if isinstance(n, ast.Name) and n.id == v) and bool(starred)


def _kind(fn):
    for d in fn.decorator_list:
        if isinstance(d, ast.Name) and d.id == "staticmethod":
            return "static"
        if isinstance(d, ast.Name) and d.id == "classmethod":
            return "class"
        return None if not (isinstance(d, ast.Name) and d.id in ("staticmethod", "classmethod")) else None
    return "instance"


def _tree_shaped(body):
    """every return is the last statement of the body or of an if-branch that is itself in tail position
    after moving the trailing statements into the else"""
    for i, s in enumerate(body):
        last = i == len(body) - 1
        if isinstance(s, ast.Return):
            return last
        if isinstance(s, ast.If):
            has_ret = any(isinstance(x, ast.Return) for x in _all_stmts([s]))
            if has_ret:
                rest = body[i + 1:]
                b_ok = _tree_shaped(s.body + ([] if _ends(s.body) else rest))
                o_ok = _tree_shaped((s.orelse or []) + ([] if (s.orelse and _ends(s.orelse)) else rest))
                return b_ok and o_ok
        elif any(isinstance(x, ast.Return) for x in _all_stmts([s])):
            # a loop whose returns sit directly in its body (under ifs only) and that has no break of its
            # own: `return e` becomes `r = e; break`, what follows the loop becomes its else-branch
            if isinstance(s, (ast.For, ast.While)) and not s.orelse and _loop_returns_ok(s.body):
                return _tree_shaped(body[i + 1:])
            return False      # return inside a nested loop / try / with
    return True


def _loop_returns_ok(stmts):
    for s in stmts:
        if isinstance(s, ast.Break):
            return False
        if isinstance(s, ast.If):
            if not _loop_returns_ok(s.body) or not _loop_returns_ok(s.orelse or []):
                return False
        elif not isinstance(s, ast.Return) and any(isinstance(x, (ast.Return,)) for x in _all_stmts([s])):
            return False
        elif isinstance(s, (ast.Try, ast.With)) and any(isinstance(x, ast.Break) for x in _all_stmts([s])):
            return False
    return True


def _loop_returns(stmts, make):
    out = []
    for s in stmts:
        if isinstance(s, ast.Return):
            out.extend(make(s.value))
            out.append(ast.copy_location(ast.Break(), s))
            return out
        if isinstance(s, ast.If) and any(isinstance(x, ast.Return) for x in _all_stmts([s])):
            s = ast.copy_location(ast.If(test=s.test, body=_loop_returns(s.body, make) or [ast.Pass()],
                                         orelse=_loop_returns(s.orelse or [], make)), s)
        out.append(s)
    return out


def _ends(stmts):
    return bool(stmts) and isinstance(stmts[-1], (ast.Return, ast.Raise))


def _assign_returns(body, make):
    """tree-shaped body -> statements without return; `make(expr)` builds the statement replacing `return expr`"""
    out = []
    for i, s in enumerate(body):
        if isinstance(s, ast.Return):
            out.extend(make(s.value))
            return out
        if isinstance(s, ast.If) and any(isinstance(x, ast.Return) for x in _all_stmts([s])):
            rest = body[i + 1:]
            nb = _assign_returns(s.body + ([] if _ends(s.body) else copy.deepcopy(rest)), make)
            no = _assign_returns((s.orelse or []) + ([] if (s.orelse and _ends(s.orelse)) else copy.deepcopy(rest)), make)
            new_if = ast.If(test=s.test, body=nb or [ast.Pass()], orelse=no)
            out.append(ast.copy_location(new_if, s))
            return out
        if isinstance(s, (ast.For, ast.While)) and any(isinstance(x, ast.Return) for x in _all_stmts([s])):
            loop = copy.copy(s)
            loop.body = _loop_returns(s.body, make)
            endless = isinstance(s, ast.While) and isinstance(s.test, ast.Constant) and bool(s.test.value)
            loop.orelse = [] if endless else _assign_returns(body[i + 1:], make)
            out.append(loop)
            return out
        out.append(s)
    out.extend(make(None))
    return out


class _Rename(ast.NodeTransformer):
    def __init__(self, mapping, subst, lams=None):
        self.mapping, self.subst, self.lams = mapping, subst, lams or {}

    def visit_Call(self, n):
        # a parameter bound to functools.partial(F, a.., k=v..) and only ever called: p(x, y) is F(a.., x, y, k=v..)
        if isinstance(n.func, ast.Name) and n.func.id in self.lams and isinstance(self.lams[n.func.id], ast.Call):
            part = self.lams[n.func.id]
            args = [self.visit(a) for a in n.args]
            return ast.copy_location(ast.Call(func=copy.deepcopy(part.args[0]), args=[copy.deepcopy(a) for a in part.args[1:]] + args,
                                              keywords=[copy.deepcopy(k) for k in part.keywords]), n)
        # a parameter bound to a lambda of the caller and only ever called: the call is the lambda's body
        if isinstance(n.func, ast.Name) and n.func.id in self.lams:
            lam = self.lams[n.func.id]
            args = [self.visit(a) for a in n.args]
            m = dict(zip([a.arg for a in lam.args.args], args))

            class B(ast.NodeTransformer):
                def visit_Name(self, x):
                    if x.id in m and isinstance(x.ctx, ast.Load):
                        return ast.copy_location(copy.deepcopy(m[x.id]), x)
                    return x

                def visit_Lambda(self, x):
                    return x
            return ast.copy_location(B().visit(copy.deepcopy(lam.body)), n)
        if any(isinstance(a, ast.Starred) and isinstance(a.value, ast.Name) and "*" + a.value.id in self.subst for a in n.args):
            # *args of a template method: the extra arguments of this call, passed on
            na = []
            for a in n.args:
                if isinstance(a, ast.Starred) and isinstance(a.value, ast.Name) and "*" + a.value.id in self.subst:
                    na.extend(copy.deepcopy(x) for x in self.subst["*" + a.value.id])
                else:
                    na.append(a)
            n.args = na
        return self.generic_visit(n)

    def visit_Name(self, n):
        if n.id in self.subst and isinstance(n.ctx, ast.Load):
            return ast.copy_location(copy.deepcopy(self.subst[n.id]), n)
        if n.id in self.mapping:
            return ast.copy_location(ast.Name(id=self.mapping[n.id], ctx=n.ctx), n)
        return n


def _simple_arg(e):
    if isinstance(e, (ast.Name, ast.Constant)):
        return True
    if isinstance(e, ast.UnaryOp) and isinstance(e.operand, ast.Constant):
        return True
    if isinstance(e, (ast.Attribute, ast.Subscript)) and not any(isinstance(x, (ast.Call, ast.Slice)) for x in ast.walk(e)):
        return True
    return False


def _bind(fn, kind, call, recv):
    """(prelude statements, rename map, substitution map) or None"""
    params = [a.arg for a in fn.args.args]
    args = list(call.args)
    if any(isinstance(a, ast.Starred) for a in args) or any(k.arg is None for k in call.keywords):
        return None
    bound = {}
    if kind in ("instance", "class"):
        if not params:
            return None
        bound[params[0]] = recv
        params_rest = params[1:]
    else:
        params_rest = params
    extra = []
    if len(args) > len(params_rest):
        if not fn.args.vararg:
            return None
        extra = args[len(params_rest):]
        args = args[:len(params_rest)]
    for p, a in zip(params_rest, args):
        bound[p] = a
    for k in call.keywords:
        if k.arg not in params_rest or k.arg in bound:
            return None
        bound[k.arg] = k.value
    defaults = dict(zip(params[len(params) - len(fn.args.defaults):], fn.args.defaults))
    for p in params_rest:
        if p not in bound:
            if p not in defaults:
                return None
            bound[p] = defaults[p]
    _counter[0] += 1
    tag = "__h%d_" % _counter[0]
    stored = {n.id for n in ast.walk(fn) if isinstance(n, ast.Name) and isinstance(n.ctx, (ast.Store, ast.Del))}
    for s in _all_stmts(fn.body):
        if isinstance(s, ast.ExceptHandler) and s.name:
            stored.add(s.name)
    mapping, subst, prelude = {}, {}, []
    lams = {}
    for p, a in bound.items():
        if p not in stored and isinstance(a, ast.Lambda) and _beta_ok(fn, p, a):
            lams[p] = a
            continue
        if p not in stored and _partial_ok(fn, p, a):
            lams[p] = a
            continue
        if p not in stored and _simple_arg(a):
            subst[p] = a
        else:
            mapping[p] = tag + p
            prelude.append(ast.Assign(targets=[ast.Name(id=tag + p, ctx=ast.Store())], value=copy.deepcopy(a)))
    for v in stored:
        if v not in mapping and v not in bound:
            mapping[v] = tag + v
    if fn.args.vararg:
        stars = []
        for k_, a in enumerate(extra):
            if _simple_arg(a):
                stars.append(a)
            else:
                nm = "%sva%d" % (tag, k_)
                prelude.append(ast.Assign(targets=[ast.Name(id=nm, ctx=ast.Store())], value=copy.deepcopy(a)))
                stars.append(ast.Name(id=nm, ctx=ast.Load()))
        subst["*" + fn.args.vararg.arg] = stars
    return prelude, mapping, subst, lams


def _partial_ok(fn, p, a):
    """a is functools.partial(F, simple args.., k=simple..) and parameter p is only ever called positionally"""
    if not (isinstance(a, ast.Call) and (isinstance(a.func, ast.Name) and a.func.id == "partial"
                                         or isinstance(a.func, ast.Attribute) and a.func.attr == "partial" and isinstance(a.func.value, ast.Name) and a.func.value.id == "functools")):
        return False
    if not a.args or any(isinstance(x, ast.Starred) for x in a.args) or any(k.arg is None for k in a.keywords):
        return False
    if not all(_simple_arg(x) for x in list(a.args) + [k.value for k in a.keywords]):
        return False
    callee_ids = set()
    for c in ast.walk(fn):
        if isinstance(c, ast.Call) and isinstance(c.func, ast.Name) and c.func.id == p:
            if c.keywords or any(isinstance(x, ast.Starred) for x in c.args):
                return False
            callee_ids.add(id(c.func))
    for x in ast.walk(fn):
        if isinstance(x, ast.Name) and x.id == p and id(x) not in callee_ids:
            return False
    return bool(callee_ids)


def _beta_ok(fn, p, lam):
    """parameter p (bound to the caller's lambda) is only ever called, positionally, with as many arguments as
    the lambda takes; each lambda parameter is read at most once in its body or the argument is a plain path"""
    la = lam.args
    if la.vararg or la.kwarg or la.kwonlyargs or la.posonlyargs or la.defaults:
        return False
    names = [a.arg for a in la.args]
    if any(isinstance(x, (ast.Lambda, ast.NamedExpr, ast.ListComp, ast.SetComp, ast.DictComp, ast.GeneratorExp)) for x in ast.walk(lam.body)):
        return False
    uses = {nm: sum(1 for x in ast.walk(lam.body) if isinstance(x, ast.Name) and x.id == nm) for nm in names}
    callee_ids = set()
    for c in ast.walk(fn):
        if isinstance(c, ast.Call) and isinstance(c.func, ast.Name) and c.func.id == p:
            if c.keywords or len(c.args) != len(names) or any(isinstance(a, ast.Starred) for a in c.args):
                return False
            for nm, a in zip(names, c.args):
                if uses[nm] > 1 and not _simple_arg(a):
                    return False
                if uses[nm] == 0 and any(isinstance(x, ast.Call) for x in ast.walk(a)):
                    return False
            callee_ids.add(id(c.func))
    for x in ast.walk(fn):
        if isinstance(x, ast.Name) and x.id == p and id(x) not in callee_ids:
            return False
    return bool(callee_ids)


def _never_none(e):
    """syntactically certain: a literal that is not None, a lambda, or Class.method of a class of the package"""
    if isinstance(e, ast.Constant):
        return e.value is not None
    if isinstance(e, (ast.Lambda, ast.List, ast.Tuple, ast.Dict, ast.Set, ast.ListComp, ast.JoinedStr)):
        return True
    if isinstance(e, ast.Attribute) and isinstance(e.value, ast.Name):
        for tree in PKG.values():
            for st in tree.body:
                if isinstance(st, ast.ClassDef) and st.name == e.value.id:
                    if any(isinstance(m, ast.FunctionDef) and m.name == e.attr for m in st.body):
                        return True
    return False


def _fold_none_tests(body):
    """after a parameter was replaced by its argument: `None is None`, `<lambda> is None`, `Class.method is not None` ...
    are decided, and the conditional expressions / statements testing them reduced to the taken branch"""
    def decide(t):
        if isinstance(t, ast.Compare) and len(t.ops) == 1 and isinstance(t.ops[0], (ast.Is, ast.IsNot)):
            a, b = t.left, t.comparators[0]
            for x, y in ((a, b), (b, a)):
                if isinstance(y, ast.Constant) and y.value is None:
                    if isinstance(x, ast.Constant) and x.value is None:
                        return isinstance(t.ops[0], ast.Is)
                    if _never_none(x):
                        return isinstance(t.ops[0], ast.IsNot)
        if isinstance(t, ast.UnaryOp) and isinstance(t.op, ast.Not):
            d = decide(t.operand)
            return None if d is None else not d
        return None

    class F(ast.NodeTransformer):
        def visit_IfExp(self, n):
            self.generic_visit(n)
            d = decide(n.test)
            if d is None:
                return n
            return n.body if d else n.orelse

        def visit_If(self, n):
            self.generic_visit(n)
            d = decide(n.test)
            if d is None:
                return n
            return (n.body if d else n.orelse) or [ast.copy_location(ast.Pass(), n)]
    out = []
    for s_ in body:
        r = F().visit(s_)
        out.extend(r if isinstance(r, list) else [r])
    return out


_PURE_CALLS = {"range", "len", "abs", "min", "max", "int", "float", "list", "tuple", "sum", "sorted", "enumerate", "zip", "round", "bool", "str"}


def _pure_value_term(fn, kind):
    """the value of a helper that only computes (locals, loops, appends to its own lists, pure builtins) as one closed
    term over its parameters, or None: such a call can be replaced by the term wherever it stands"""
    params = [a.arg for a in fn.args.args]
    if kind == "instance":
        # must not touch self at all
        if params and any(isinstance(x, ast.Name) and x.id == params[0] for s_ in fn.body for x in ast.walk(s_)):
            return None
    local = {x.id for x in ast.walk(fn) if isinstance(x, ast.Name) and isinstance(x.ctx, ast.Store)}
    for x in ast.walk(fn):
        if isinstance(x, (ast.Attribute, ast.Subscript)) and not isinstance(x.ctx, ast.Load):
            r = x
            while isinstance(r, (ast.Attribute, ast.Subscript)):
                r = r.value
            if not (isinstance(r, ast.Name) and r.id in local and r.id not in params):
                return None
        if isinstance(x, ast.Call):
            if isinstance(x.func, ast.Name) and x.func.id in _PURE_CALLS:
                continue
            if isinstance(x.func, ast.Attribute) and isinstance(x.func.value, ast.Name) and x.func.value.id in local and x.func.value.id not in params \
                    and x.func.attr in ("append", "extend"):
                continue
            return None
        if isinstance(x, (ast.Global, ast.Nonlocal, ast.Yield, ast.YieldFrom, ast.Await, ast.Raise, ast.Try, ast.With, ast.While, ast.Lambda)):
            return None
    try:
        from .terms import value_term
        t = value_term(fn)
    except Exception:
        return None
    if t is None:
        return None
    bound = set()
    for x in ast.walk(t):
        if isinstance(x, (ast.ListComp, ast.SetComp, ast.DictComp, ast.GeneratorExp)):
            for g in x.generators:
                bound |= {m.id for m in ast.walk(g.target) if isinstance(m, ast.Name)}
    free = {x.id for x in ast.walk(t) if isinstance(x, ast.Name)} - bound - set(params) - _PURE_CALLS
    if free:
        return None
    return t


PKG = {}        # module name -> raw tree of every module of the package (set by the loader): helpers defined in a sibling module


class Inliner:
    def __init__(self, tree, modname, known):
        self.tree = tree
        self.all_known = known
        self.known = known.get(modname, set()) if known is not None else None
        self.mod_funcs = {}
        self.cls_funcs = {}       # private name -> [(class name, fn)]
        # names imported from sibling modules: local name -> (module, original name)
        self.imported = {}
        for st in tree.body:
            if isinstance(st, ast.ImportFrom) and st.level >= 1 and st.module:
                for a in st.names:
                    self.imported[a.asname or a.name] = (st.module.split(".")[-1], a.name)
        for st in tree.body:
            if isinstance(st, ast.FunctionDef):
                self.mod_funcs[st.name] = st
            elif isinstance(st, ast.ClassDef):
                for m in st.body:
                    if isinstance(m, ast.FunctionDef):
                        self.cls_funcs.setdefault(m.name, []).append((st.name, m))

    def helper_for(self, call, cls_name, self_names):
        """(fn, kind, receiver expr) for an inlinable call"""
        if self.known is None:
            return None
        f = call.func
        # a function defined inside the function being processed (a closure): its free names are read at the time of the call
        # either way, so the call can be replaced by the body
        if isinstance(f, ast.Name) and f.id in getattr(self, "local_defs", {}):
            fn = self.local_defs[f.id]
            return (copy.deepcopy(fn), "static", None) if _eligible(fn) else None
        if isinstance(f, ast.Name) and is_private(f.id) and f.id in self.mod_funcs and f.id not in self.known:
            fn = self.mod_funcs[f.id]
            return (fn, "static", None) if _eligible(fn) else None
        # a new helper that lives in a sibling module: `from .utils import VectorAndNumbers` ... VectorAndNumbers.gen_levels(..)
        if isinstance(f, ast.Attribute) and isinstance(f.value, ast.Name) and f.value.id in self.imported and is_private(f.attr):
            omod, oname = self.imported[f.value.id]
            otree = PKG.get(omod)
            okn = (self.all_known or {}).get(omod, set())
            if otree is not None and "%s.%s" % (oname, f.attr) not in okn:
                for st in otree.body:
                    if isinstance(st, ast.ClassDef) and st.name == oname:
                        for m in st.body:
                            if isinstance(m, ast.FunctionDef) and m.name == f.attr and _eligible(m) and _kind(m) in ("static", "class") \
                                    and not self._uses_module_names(m, otree):
                                return copy.deepcopy(m), _kind(m), f.value
            return None
        if isinstance(f, ast.Name) and f.id in self.imported and is_private(f.id):
            omod, oname = self.imported[f.id]
            otree = PKG.get(omod)
            okn = (self.all_known or {}).get(omod, set())
            if otree is not None and oname not in okn:
                for st in otree.body:
                    if isinstance(st, ast.FunctionDef) and st.name == oname and _eligible(st) and not self._uses_module_names(st, otree):
                        return copy.deepcopy(st), "static", None
            return None
        if isinstance(f, ast.Attribute) and is_private(f.attr) and isinstance(f.value, ast.Name):
            cands = self.cls_funcs.get(f.attr, [])
            if len(cands) != 1:
                return None
            cname, fn = cands[0]
            if "%s.%s" % (cname, f.attr) in self.known or not _eligible(fn):
                return None
            kind = _kind(fn)
            if kind is None:
                return None
            recv = f.value
            if kind == "instance" and recv.id not in self_names:
                return None
            if kind in ("static", "class") and recv.id not in self_names and recv.id not in [c for c, _ in cands] and recv.id not in self.class_names:
                return None
            return fn, kind, recv
        return None

    def _uses_module_names(self, fn, otree):
        """a helper from another module may be moved here only if it refers to nothing but its parameters, its locals,
        builtins and names that mean the same in this module (same import)"""
        import builtins
        params = {a.arg for a in ast.walk(fn.args) if isinstance(a, ast.arg)}
        stored = {n.id for n in ast.walk(fn) if isinstance(n, ast.Name) and isinstance(n.ctx, (ast.Store, ast.Del))}
        here = set()
        for st in self.tree.body:
            if isinstance(st, (ast.Import, ast.ImportFrom)):
                for a in st.names:
                    here.add((a.asname or a.name).split(".")[0])
        there = {}
        for st in otree.body:
            if isinstance(st, (ast.Import, ast.ImportFrom)):
                for a in st.names:
                    there[(a.asname or a.name).split(".")[0]] = ast.dump(st)
        for n in ast.walk(fn):
            if isinstance(n, ast.Name) and isinstance(n.ctx, ast.Load) and n.id not in params and n.id not in stored and not hasattr(builtins, n.id):
                if n.id in there and n.id in here:
                    continue
                return True
        return False

    @property
    def class_names(self):
        return [st.name for st in self.tree.body if isinstance(st, ast.ClassDef)]

    # ------------------------------------------------------------------
    def expand_stmt(self, st, cls_name, self_names, depth):
        """list of statements replacing st, or None"""
        if depth > 3:
            return None
        call = ctxkind = None
        if isinstance(st, ast.Expr) and isinstance(st.value, ast.Call):
            call, ctxkind = st.value, "expr"
        elif isinstance(st, ast.Assign) and isinstance(st.value, ast.Call):
            call, ctxkind = st.value, "assign"
        elif isinstance(st, ast.AugAssign) and isinstance(st.value, ast.Call):
            call, ctxkind = st.value, "aug"
        elif isinstance(st, ast.Return) and isinstance(st.value, ast.Call):
            call, ctxkind = st.value, "return"
        h = None
        if call is None:
            # x = self.<new property> / return self.<new property>: the getter is a helper without arguments
            v = getattr(st, "value", None)
            if isinstance(st, (ast.Assign, ast.Return, ast.AugAssign)) and isinstance(v, ast.Attribute) and isinstance(v.value, ast.Name) \
                    and v.value.id in self_names and cls_name is not None:
                cands = [fn for cn, fn in self.cls_funcs.get(v.attr, []) if cn == cls_name]
                if len(cands) == 1 and "%s.%s" % (cls_name, v.attr) not in self.known and len(cands[0].args.args) == 1 \
                        and any(isinstance(d, ast.Name) and d.id == "property" for d in cands[0].decorator_list) and _eligible(cands[0]):
                    call = ast.copy_location(ast.Call(func=v, args=[], keywords=[]), v)
                    ctxkind = {ast.Assign: "assign", ast.Return: "return", ast.AugAssign: "aug"}[type(st)]
                    h = (cands[0], "instance", v.value)
            if call is None:
                return None
        if h is None:
            h = self.helper_for(call, cls_name, self_names)
        if h is None:
            return None
        fn, kind, recv = h
        b = _bind(fn, kind, call, recv)
        if b is None:
            return None
        prelude, mapping, subst, lams = b
        body = [_Rename(mapping, subst, lams).visit(copy.deepcopy(s)) for s in fn.body
                if not (isinstance(s, ast.Expr) and isinstance(s.value, ast.Constant))]
        body = _fold_none_tests(body)
        has_ret = any(isinstance(x, ast.Return) for x in _all_stmts(body))
        if ctxkind == "return":
            if not _ends_all(body):
                body = body + [ast.Return(value=None)]
            out = prelude + body
        else:
            if has_ret and not _tree_shaped(body):
                return None
            _counter[0] += 1
            res = "__r%d" % _counter[0]

            def make(expr, res=res):
                if ctxkind == "expr":
                    return [ast.Expr(value=expr)] if (expr is not None and any(isinstance(x, ast.Call) for x in ast.walk(expr))) else []
                v = expr if expr is not None else ast.Constant(value=None)
                if ctxkind == "assign":
                    return [ast.Assign(targets=copy.deepcopy(st.targets), value=v)]
                return [ast.AugAssign(target=copy.deepcopy(st.target), op=st.op, value=v)]
            out = prelude + _assign_returns(body, make)
        for s in out:
            ast.copy_location(s, st)
            for x in ast.walk(s):
                if isinstance(x, (ast.expr, ast.stmt)) and not hasattr(x, "lineno"):
                    ast.copy_location(x, st)
            ast.fix_missing_locations(s)
        STATS["inlined_calls"] += 1
        STATS["helpers"].add(fn.name)
        return out

    def expand_exprs(self, st, cls_name, self_names):
        """single-return helpers in expression position"""
        me = self

        class T(ast.NodeTransformer):
            def visit_Call(self, n):
                self.generic_visit(n)
                h = me.helper_for(n, cls_name, self_names)
                if h is None:
                    return n
                fn, kind, recv = h
                body = [s for s in fn.body if not (isinstance(s, ast.Expr) and isinstance(s.value, ast.Constant))]
                value = None
                if len(body) == 1 and isinstance(body[0], ast.Return) and body[0].value is not None:
                    value = body[0].value
                else:
                    value = _pure_value_term(fn, kind)
                if value is None:
                    return n
                if not all(_simple_arg(a) for a in list(n.args) + [k.value for k in n.keywords]):
                    return n
                b = _bind(fn, kind, n, recv)
                if b is None or b[0]:
                    return n
                if value is not (body[0].value if len(body) == 1 and isinstance(body[0], ast.Return) else None):
                    # a term over the parameters only: nothing but the parameters is to be renamed
                    out = _Rename({}, {k_: v_ for k_, v_ in b[2].items()}, b[3]).visit(copy.deepcopy(value))
                    if b[1] and any(isinstance(x, ast.Name) and x.id in b[1] and x.id in [a.arg for a in fn.args.args] for x in ast.walk(value)):
                        return n
                else:
                    out = _Rename(b[1], b[2], b[3]).visit(copy.deepcopy(value))
                ast.copy_location(out, n)
                for x in ast.walk(out):
                    if isinstance(x, ast.expr) and not hasattr(x, "lineno"):
                        ast.copy_location(x, n)
                STATS["inlined_calls"] += 1
                STATS["helpers"].add(fn.name)
                return out

            def visit_Attribute(self, n):
                self.generic_visit(n)
                # self.<new property> with a single-return body: the returned expression
                if isinstance(n.ctx, ast.Load) and isinstance(n.value, ast.Name) and n.value.id in self_names and cls_name is not None:
                    cands = [fn for cn, fn in me.cls_funcs.get(n.attr, []) if cn == cls_name]
                    if len(cands) == 1 and "%s.%s" % (cls_name, n.attr) not in me.known \
                            and any(isinstance(d, ast.Name) and d.id == "property" for d in cands[0].decorator_list) and len(cands[0].args.args) == 1:
                        fn = cands[0]
                        body = [s for s in fn.body if not (isinstance(s, ast.Expr) and isinstance(s.value, ast.Constant))]
                        if len(body) == 1 and isinstance(body[0], ast.Return) and body[0].value is not None and _eligible(fn):
                            out = _Rename({}, {fn.args.args[0].arg: n.value}).visit(copy.deepcopy(body[0].value))
                            ast.copy_location(out, n)
                            for x in ast.walk(out):
                                if isinstance(x, ast.expr) and not hasattr(x, "lineno"):
                                    ast.copy_location(x, n)
                            STATS["inlined_calls"] += 1
                            STATS["helpers"].add(fn.name)
                            return out
                return n

            def visit_Lambda(self, n):
                return n
        for f, v in ast.iter_fields(st):
            if isinstance(v, ast.expr):
                setattr(st, f, T().visit(v))
            elif isinstance(v, list) and v and isinstance(v[0], ast.expr):
                setattr(st, f, [T().visit(x) for x in v])

    def _new_property(self, n, cls_name, self_names):
        if isinstance(n.value, ast.Name) and n.value.id in self_names and cls_name is not None:
            cands = [fn for cn, fn in self.cls_funcs.get(n.attr, []) if cn == cls_name]
            if len(cands) == 1 and "%s.%s" % (cls_name, n.attr) not in self.known and len(cands[0].args.args) == 1 \
                    and any(isinstance(d, ast.Name) and d.id == "property" for d in cands[0].decorator_list) and _eligible(cands[0]):
                body = [s for s in cands[0].body if not (isinstance(s, ast.Expr) and isinstance(s.value, ast.Constant))]
                if not (len(body) == 1 and isinstance(body[0], ast.Return)):
                    return cands[0]          # single-return getters are substituted in place by expand_exprs
        return None

    def hoist(self, st, cls_name, self_names):
        """`x.append(h(a))`, `y = f(h(a)) + 1`: the one inlinable call of a simple statement is bound to a fresh local
        first, provided every other call of the statement encloses it (so nothing is evaluated out of order)"""
        if not isinstance(st, (ast.Expr, ast.Assign, ast.AugAssign, ast.Return)) or st.value is None:
            return None
        root = st.value
        lazy = (ast.Lambda, ast.ListComp, ast.SetComp, ast.DictComp, ast.GeneratorExp, ast.IfExp, ast.BoolOp)
        found = []

        def rec(n, ancestors):
            if isinstance(n, lazy) or (isinstance(n, ast.Compare) and len(n.ops) > 1):
                return
            if isinstance(n, ast.Call) and n is not root and self.helper_for(n, cls_name, self_names) is not None:
                found.append((n, list(ancestors)))
            elif isinstance(n, ast.Attribute) and n is not root and isinstance(n.ctx, ast.Load) and self._new_property(n, cls_name, self_names) is not None:
                found.append((n, list(ancestors)))
                return
            for c in ast.iter_child_nodes(n):
                rec(c, ancestors + [n])
        rec(root, [])
        if len(found) != 1:
            return None
        call, anc = found[0]
        if any(isinstance(x, lazy) for x in ast.walk(root)):
            return None
        inside = {id(x) for x in ast.walk(call)}
        others = [x for x in ast.walk(root) if isinstance(x, ast.Call) and id(x) not in inside]
        if any(o not in anc for o in others):
            return None
        if isinstance(st, ast.Assign) and any(isinstance(x, ast.Call) for t in st.targets for x in ast.walk(t)):
            return None
        _counter[0] += 1
        nm = "__v%d" % _counter[0]

        class R(ast.NodeTransformer):
            def visit_Call(self, n):
                if n is call:
                    return ast.copy_location(ast.Name(id=nm, ctx=ast.Load()), n)
                return self.generic_visit(n)

            def visit_Attribute(self, n):
                if n is call:
                    return ast.copy_location(ast.Name(id=nm, ctx=ast.Load()), n)
                return self.generic_visit(n)
        pre = ast.copy_location(ast.Assign(targets=[ast.Name(id=nm, ctx=ast.Store())], value=call), st)
        st.value = R().visit(st.value)
        ast.fix_missing_locations(pre)
        return [pre, st]

    def block(self, stmts, cls_name, self_names, depth=0):
        out = []
        for st in stmts:
            if isinstance(st, (ast.FunctionDef, ast.AsyncFunctionDef, ast.ClassDef)):
                out.append(st)
                continue
            r = self.expand_stmt(st, cls_name, self_names, depth)
            if r is not None:
                out.extend(self.block(r, cls_name, self_names, depth + 1))
                continue
            self.expand_exprs(st, cls_name, self_names)
            r = self.expand_stmt(st, cls_name, self_names, depth)      # an expression-level step may expose a statement-level one
            if r is not None:
                out.extend(self.block(r, cls_name, self_names, depth + 1))
                continue
            r = self.hoist(st, cls_name, self_names) if depth <= 3 else None
            if r is not None:
                out.extend(self.block(r, cls_name, self_names, depth + 1))
                continue
            if isinstance(st, (ast.For, ast.If, ast.While)) and depth <= 3:
                # `for x in h(..)` / `if h(..)`: the header expression is evaluated once, before the statement
                head = "iter" if isinstance(st, ast.For) else "test"
                hx = getattr(st, head)
                if isinstance(hx, ast.Call) and self.helper_for(hx, cls_name, self_names) is not None and not isinstance(st, ast.While):
                    _counter[0] += 1
                    nm = "__v%d" % _counter[0]
                    pre = ast.copy_location(ast.Assign(targets=[ast.Name(id=nm, ctx=ast.Store())], value=hx), st)
                    ast.fix_missing_locations(pre)
                    setattr(st, head, ast.copy_location(ast.Name(id=nm, ctx=ast.Load()), hx))
                    out.extend(self.block([pre, st], cls_name, self_names, depth + 1))
                    continue
            for f in ("body", "orelse", "finalbody"):
                b = getattr(st, f, None)
                if isinstance(b, list) and b and isinstance(b[0], ast.stmt):
                    setattr(st, f, self.block(b, cls_name, self_names, depth))
            if isinstance(st, ast.Try):
                for h in st.handlers:
                    h.body = self.block(h.body, cls_name, self_names, depth)
            out.append(st)
        return out

    def run(self):
        if self.known is None:
            return self.tree
        for st in self.tree.body:
            if isinstance(st, ast.FunctionDef):
                self.local_defs = _nested_defs(st)
                st.body = self.block(st.body, None, set())
                _drop_dead_nested(st, self.local_defs)
            elif isinstance(st, ast.ClassDef):
                for m in st.body:
                    if isinstance(m, ast.FunctionDef):
                        k = _kind(m)
                        names = {m.args.args[0].arg} if (k in ("instance", "class") and m.args.args) else set()
                        self.local_defs = _nested_defs(m)
                        m.body = self.block(m.body, st.name, names)
                        _drop_dead_nested(m, self.local_defs)
        self.local_defs = {}
        self.drop_unused()
        ast.fix_missing_locations(self.tree)
        return self.tree

    def drop_unused(self):
        """a new private helper whose every call was inlined is no longer part of the program the rules see"""
        if not STATS["helpers"]:
            return
        used = set()
        for n in ast.walk(self.tree):
            if isinstance(n, ast.Attribute):
                used.add(n.attr)
            elif isinstance(n, ast.Name):
                used.add(n.id)
        def keep(st, owner):
            if not isinstance(st, ast.FunctionDef) or not is_private(st.name):
                return True
            q = ("%s.%s" % (owner, st.name)) if owner else st.name
            if q in self.known:
                return True
            if st.name not in STATS["helpers"]:
                return True          # never inlined: an interface method (evaluate, set, ...) or an entry point of its own
            return st.name in used
        self.tree.body = [st for st in self.tree.body if keep(st, None)]
        for st in self.tree.body:
            if isinstance(st, ast.ClassDef):
                st.body = [m for m in st.body if keep(m, st.name)] or [ast.Pass()]


def _nested_defs(fn):
    """functions defined directly in the blocks of fn (not in nested classes / functions), bound exactly once"""
    out, count = {}, {}
    todo = list(fn.body)
    while todo:
        st = todo.pop()
        if isinstance(st, ast.FunctionDef):
            count[st.name] = count.get(st.name, 0) + 1
            out[st.name] = st
            continue
        if isinstance(st, (ast.ClassDef, ast.AsyncFunctionDef)):
            continue
        for f in ("body", "orelse", "finalbody"):
            b = getattr(st, f, None)
            if isinstance(b, list) and b and isinstance(b[0], ast.stmt):
                todo.extend(b)
        for h in getattr(st, "handlers", []) or []:
            todo.extend(h.body)
    stored = {n.id for n in ast.walk(fn) if isinstance(n, ast.Name) and not isinstance(n.ctx, ast.Load)}
    return {k: v for k, v in out.items() if count[k] == 1 and k not in stored and not v.decorator_list}


def _drop_dead_nested(fn, defs):
    if not defs:
        return
    used = {n.id for n in ast.walk(fn) if isinstance(n, ast.Name) and isinstance(n.ctx, ast.Load)}

    def prune(stmts):
        out = []
        for st in stmts:
            if isinstance(st, ast.FunctionDef) and st.name in defs and st.name not in used and st.name in STATS["helpers"]:
                continue
            for f in ("body", "orelse", "finalbody"):
                b = getattr(st, f, None)
                if isinstance(b, list) and b and isinstance(b[0], ast.stmt) and not isinstance(st, (ast.FunctionDef, ast.ClassDef)):
                    setattr(st, f, prune(b) or [ast.copy_location(ast.Pass(), st)])
            out.append(st)
        return out
    fn.body = prune(fn.body) or [ast.Pass()]


def _ends_all(body):
    """every path through body ends in return/raise (syntactically)"""
    if not body:
        return False
    s = body[-1]
    if isinstance(s, (ast.Return, ast.Raise)):
        return True
    if isinstance(s, ast.If) and s.orelse:
        return _ends_all(s.body) and _ends_all(s.orelse)
    return False


_KNOWN_CACHE = []


def has_new_helpers(tree, modname, known):
    if known is None:
        return False
    kn = known.get(modname, set())
    # calls of helpers of sibling modules that the rules have never seen
    imported = {}
    for st in tree.body:
        if isinstance(st, ast.ImportFrom) and st.level >= 1 and st.module:
            for a in st.names:
                imported[a.asname or a.name] = (st.module.split(".")[-1], a.name)
    if imported:
        for n in ast.walk(tree):
            if isinstance(n, ast.Call):
                f = n.func
                if isinstance(f, ast.Attribute) and isinstance(f.value, ast.Name) and f.value.id in imported:
                    omod, oname = imported[f.value.id]
                    if omod in PKG and "%s.%s" % (oname, f.attr) not in known.get(omod, set()) and any(
                            isinstance(c, ast.ClassDef) and c.name == oname and any(isinstance(m, ast.FunctionDef) and m.name == f.attr for m in c.body)
                            for c in PKG[omod].body):
                        return True
                elif isinstance(f, ast.Name) and f.id in imported:
                    omod, oname = imported[f.id]
                    if omod in PKG and oname not in known.get(omod, set()) and any(isinstance(c, ast.FunctionDef) and c.name == oname for c in PKG[omod].body):
                        return True
    for fn in ast.walk(tree):
        if isinstance(fn, ast.FunctionDef):
            for inner in ast.walk(fn):
                if isinstance(inner, ast.FunctionDef) and inner is not fn and any(
                        isinstance(c, ast.Call) and isinstance(c.func, ast.Name) and c.func.id == inner.name for c in ast.walk(fn)):
                    return True          # a closure that its enclosing function calls
    for st in tree.body:
        if isinstance(st, ast.FunctionDef) and is_private(st.name) and st.name not in kn:
            return True
        if isinstance(st, ast.ClassDef):
            for m in st.body:
                if isinstance(m, ast.FunctionDef) and is_private(m.name) and "%s.%s" % (st.name, m.name) not in kn:
                    return True
    return False


def new_bare_names(known):
    """names of functions / methods defined in the package now that no function or method had when the
    rules were written (a new override of a known method name is not new in this sense)"""
    if known is None:
        return set()
    old = set()
    for names in known.values():
        for nm in names:
            old.add(nm.split(".")[-1])
    new = set()
    for tree in PKG.values():
        for st in tree.body:
            if isinstance(st, ast.FunctionDef) and is_private(st.name) and st.name not in old:
                new.add(st.name)
            elif isinstance(st, ast.ClassDef):
                for m in st.body:
                    if isinstance(m, ast.FunctionDef) and is_private(m.name) and m.name not in old:
                        new.add(m.name)
    return new


def residual_calls(tree, new_names):
    """[(first line, last line, function name, [callee names])] for the functions of the (final) tree that still
    call a new helper: its effects are invisible to the rules, so nothing is concluded from what is missing there"""
    out = []
    if not new_names:
        return out
    for fn in ast.walk(tree):
        if isinstance(fn, (ast.FunctionDef, ast.AsyncFunctionDef)):
            names = []
            for c in ast.walk(fn):
                if isinstance(c, ast.Call):
                    nm = c.func.id if isinstance(c.func, ast.Name) else c.func.attr if isinstance(c.func, ast.Attribute) else None
                    if nm in new_names and nm != fn.name and nm not in names:
                        names.append(nm)
                # a new helper handed over as a value (callback, key function, thread target)
                elif isinstance(c, (ast.Name, ast.Attribute)) and isinstance(getattr(c, "ctx", None), ast.Load):
                    nm = c.id if isinstance(c, ast.Name) else c.attr
                    if nm in new_names and nm != fn.name and nm not in names:
                        names.append(nm)
            if names:
                out.append((fn.lineno, getattr(fn, "end_lineno", fn.lineno) or fn.lineno, fn.name, names))
    return out


def inline_module(tree, modname, known=None):
    if known is None:
        if not _KNOWN_CACHE:
            _KNOWN_CACHE.append(load_known())
        known = _KNOWN_CACHE[0]
    if not has_new_helpers(tree, modname, known):
        return tree          # nothing to inline: the common case
    return Inliner(tree, modname, known).run()


def snapshot(repo_root, out=KNOWN_FILE):
    """write the table of function names of the tree the rules are written against"""
    table = {}
    pkg = os.path.join(repo_root, "artap")
    for fn in sorted(os.listdir(pkg)):
        if not fn.endswith(".py"):
            continue
        t = ast.parse(open(os.path.join(pkg, fn), encoding="utf-8").read())
        names = []
        for st in t.body:
            if isinstance(st, (ast.FunctionDef, ast.AsyncFunctionDef)):
                names.append(st.name)
            elif isinstance(st, ast.ClassDef):
                for m in st.body:
                    if isinstance(m, (ast.FunctionDef, ast.AsyncFunctionDef)):
                        names.append("%s.%s" % (st.name, m.name))
        table[fn[:-3]] = sorted(names)
    json.dump(table, open(out, "w"), indent=0, sort_keys=True)
    return table


if __name__ == "__main__":
    import sys
    t = snapshot(sys.argv[1] if len(sys.argv) > 1 else "/repo")
    print("recorded %d functions of %d modules" % (sum(len(v) for v in t.values()), len(t)))
