"""Entry point: ./check <ID> [--tier quick|thorough] [--replay FILE]"""
import argparse
import importlib
import json
import os
import sys
import traceback

from .loader import Repo, AnalysisError
from .report import Ctx

LEVELS = {"C01": "model_checking"}


def main(argv=None):
    ap = argparse.ArgumentParser()
    ap.add_argument("prop")
    ap.add_argument("--tier", default=os.environ.get("VERIF_TIER", "quick"), choices=["quick", "thorough"])
    ap.add_argument("--replay", default=None)
    a = ap.parse_args(argv)
    prop = a.prop.upper()
    try:
        seed = int(os.environ.get("VERIF_SEED", "0"))
    except ValueError:
        seed = 0
    ctx = Ctx(prop, a.tier, LEVELS.get(prop, "other"), seed)
    from . import paths as _paths
    _paths.DEEP[0] = a.tier == "thorough"      # the --tier option wins over the environment
    replay = None
    if a.replay:
        try:
            with open(a.replay) as fh:
                replay = json.load(fh)
            replay["_path"] = a.replay
        except Exception as e:  # noqa
            print("ANALYSIS-ERROR property=%s cannot read replay file: %s" % (prop, e))
            return 2
    try:
        mod = importlib.import_module("sa.rules.%s" % prop.lower())
    except ImportError as e:
        print("ANALYSIS-ERROR property=%s no rule module (%s)" % (prop, e))
        return 2
    try:
        ctx.repo = Repo()
        if ctx.repo.parse_errors:
            raise AnalysisError("modules that do not parse: %r" % (ctx.repo.parse_errors,))
        mod.run(ctx)
        return ctx.finish(replay=replay)
    except AnalysisError as e:
        return ctx.finish(error="%s" % e, replay=replay)
    except Exception as e:  # a crash of the checker is never a verdict
        tb = traceback.format_exc()
        sys.stderr.write(tb)
        return ctx.finish(error="checker raised %s: %s" % (type(e).__name__, e), replay=replay)


if __name__ == "__main__":
    sys.exit(main())
