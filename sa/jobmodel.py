"""Shared path model of Job.evaluate (used by C05, C06, C07, C11)."""
import ast

from .astutil import text, access_path, calls_in, func_params, range_bounds, fold, stmts_of, store_targets
from .loader import AnalysisError, where
from .paths import Enumerator


def prune_null_deref(paths):
    """drop paths taking the None-branch of `X is None` / `X is not None` after X
    was dereferenced (X.attr evaluated) earlier on the path with no store to X"""
    out = []
    for p in paths:
        deref = set()
        feasible = True
        for e in p.events:
            if e.kind == "guard":
                a = e.node
                if isinstance(a, ast.Compare) and len(a.ops) == 1 and isinstance(a.comparators[0], ast.Constant) \
                        and a.comparators[0].value is None and isinstance(a.ops[0], (ast.Is, ast.IsNot)):
                    x = access_path(a.left)
                    is_none = e.val if isinstance(a.ops[0], ast.Is) else not e.val
                    if x in deref and is_none:
                        feasible = False
                        break
            node = e.node
            if e.kind in ("stmt", "guard", "return", "iter") and node is not None:
                if e.kind == "stmt":
                    for t in store_targets(node):
                        tp = access_path(t)
                        if tp in deref:
                            deref.discard(tp)
                src = node.iter if isinstance(node, ast.For) else node
                for n in ast.walk(src):
                    if isinstance(n, ast.Attribute):
                        b = access_path(n.value)
                        if b is not None:
                            deref.add(b)
        if feasible:
            out.append(p)
    return out


class JobModel:
    def __init__(self, repo):
        self.repo = repo
        self.cls = repo.cls("Job", "job")
        self.mod = self.cls.module
        self.fn = repo.method("Job", "evaluate", "job", own=True)
        ps = func_params(self.fn)
        n_def = len(self.fn.args.defaults)
        if len(ps) < 2 or len(ps) - n_def > 2:
            raise AnalysisError("Job.evaluate signature changed: %r" % ps)
        self.selfn, self.ind = ps[:2]
        self.extra_params = ps[2:]        # optional switches: their guards are explored both ways
        loops = [s for s in self.fn.body if isinstance(s, (ast.For, ast.While))]
        self.loop = loops[0] if loops else None
        self.tries = [s for s in stmts_of(self.fn) if isinstance(s, ast.Try)]
        en = Enumerator(loop_counts=lambda n: (1, 2) if n is self.loop else (0, 1, 2))
        allp = en.function_paths(self.fn)
        self.n_raw = len(allp)
        self.paths = prune_null_deref(allp)

    def where(self, node=None):
        return where(self.mod, node if node is not None else self.fn)

    # ---- event classifiers
    def obj_call(self, node):
        """the objective-reaching call inside a statement, or None"""
        for c in calls_in(node):
            p = access_path(c.func) or ""
            if (p.endswith(".surrogate.evaluate") or p.endswith(".problem.evaluate")) and c.args \
                    and access_path(c.args[0]) == self.ind:
                return c
        return None

    def is_obj(self, e):
        return e.kind in ("stmt", "return") and self.obj_call(e.node) is not None

    def state_written(self, e):
        if e.kind == "stmt" and isinstance(e.node, ast.Assign) and any(access_path(t) == self.ind + ".state" for t in e.node.targets):
            t = text(e.node.value)
            for k in ("EVALUATED", "IN_PROGRESS", "EMPTY", "FAILED"):
                if t.endswith("." + k):
                    return k
            return "?"
        return None

    def is_costs_assign(self, e):
        return e.kind == "stmt" and isinstance(e.node, ast.Assign) and any(access_path(t) == self.ind + ".costs" for t in e.node.targets)

    def is_calc(self, e):
        return e.kind == "stmt" and any((access_path(c.func) or "") == self.ind + ".calc_signed_costs" for c in calls_in(e.node))

    def is_sync(self, e):
        return e.kind == "stmt" and any((access_path(c.func) or "").endswith(".data_store.sync_individual") and c.args
                                        and access_path(c.args[0]) == self.ind for c in calls_in(e.node))

    def is_vector_write(self, e):
        if e.kind != "stmt":
            return False
        for t in store_targets(e.node):
            p = access_path(t) or ""
            if p == self.ind + ".vector" or p.startswith(self.ind + ".vector["):
                return True
        for c in calls_in(e.node):
            if isinstance(c.func, ast.Attribute) and access_path(c.func.value) == self.ind + ".vector" \
                    and c.func.attr in ("append", "extend", "insert", "pop", "remove", "clear", "sort", "reverse"):
                return True
        return False

    def success_paths(self):
        """paths that return after an objective call completed normally"""
        out = []
        for p in self.paths:
            if p.outcome != "return":
                continue
            objs = [i for i, e in enumerate(p.events) if self.is_obj(e)]
            if not objs:
                continue
            last = objs[-1]
            if any(e.kind == "catch" for e in p.events[last:]):
                continue
            out.append((p, last))
        return out

    def attempt_bound(self):
        """K of `for _ in range(K)` or None"""
        if not isinstance(self.loop, ast.For):
            return None
        rb = range_bounds(self.loop.iter)
        if rb is None:
            return None
        consts = {}
        for k, v in self.mod.constants.items():
            try:
                consts[k] = fold(v)
            except ValueError:
                pass
        try:
            start = 0 if rb[0] is None else fold(rb[0], consts)
            stop = fold(rb[1], consts)
            step = 1 if rb[2] is None else fold(rb[2], consts)
        except ValueError:
            return None
        return len(range(start, stop, step))
