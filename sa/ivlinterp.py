"""Abstract interpretation of benchmark `evaluate` bodies in the interval domain.

Values: I (interval), int / float / bool / str / None (exact Python values used
for loop bounds, indices and lengths - never coordinates), lists/tuples of
values, and Obj (an attribute bag standing for `self` or an Individual).
Loops must have concrete trip counts (range with concrete bounds, iteration
over a concrete-length list); conditions on intervals that are not decided
fork and the results are joined (interval hull).

Nothing is executed from the repository: the interpreter walks the syntax of
the function and applies interval transformers.
"""
import ast
import math

from .astutil import text, access_path
from .ivl import I, lift, DomainError, PI, E
from .loader import AnalysisError


class Unsupported(AnalysisError):
    pass


class Obj:
    def __init__(self, **attrs):
        self.attrs = dict(attrs)

    def __repr__(self):
        return "Obj(%s)" % ",".join(sorted(self.attrs))


class Aff:
    """affine form c0 + sum ci * x_i + r over the input coordinates x_i in box[i] (resolves the
    dependency problem for linear sub-expressions such as sum(x) - x[0]); r is an interval that
    absorbs rounding errors; anything non-linear falls back to the interval hull"""
    __slots__ = ("c0", "cs", "r", "box")

    def __init__(self, c0, cs, r, box):
        self.c0, self.cs, self.r, self.box = float(c0), cs, r, box

    @staticmethod
    def var(i, box):
        return Aff(0.0, {i: 1.0}, I(0.0), box)

    def to_iv(self):
        acc = I(self.c0) + self.r
        for i, c in self.cs.items():
            acc = acc + I(c) * self.box[i]
        return acc

    def _err(self, value, i=None):
        """interval covering the rounding error of one float operation producing `value`"""
        u = abs(math.nextafter(value, math.inf) - value)
        scale = 1.0 if i is None else max(abs(self.box[i].lo), abs(self.box[i].hi), 0.0)
        return I(-u, u) * I(scale)

    def add(self, o, sign=1.0):
        if isinstance(o, Aff):
            c0 = self.c0 + sign * o.c0
            r = self.r + (o.r if sign > 0 else -o.r) + self._err(c0)
            cs = dict(self.cs)
            for i, c in o.cs.items():
                v = cs.get(i, 0.0) + sign * c
                r = r + self._err(v, i)
                if v == 0.0:
                    cs.pop(i, None)
                else:
                    cs[i] = v
            return Aff(c0, cs, r, self.box)
        if isinstance(o, I):
            return Aff(self.c0, dict(self.cs), self.r + (o if sign > 0 else -o), self.box)
        c0 = self.c0 + sign * float(o)
        return Aff(c0, dict(self.cs), self.r + self._err(c0), self.box)

    def scale(self, k):
        k = float(k)
        c0 = self.c0 * k
        r = self.r * I(k) + self._err(c0)
        cs = {}
        for i, c in self.cs.items():
            v = c * k
            r = r + self._err(v, i)
            if v != 0.0:
                cs[i] = v
        return Aff(c0, cs, r, self.box)

    def __repr__(self):
        return "Aff(%r)" % (self.to_iv(),)


class D:
    """interval value with an interval gradient w.r.t. the input coordinates (forward mode);
    used for the centred (mean-value) form and the monotonicity test of the branch-and-bound"""
    __slots__ = ("v", "g")

    def __init__(self, v, g):
        self.v, self.g = v, g

    @staticmethod
    def var(i, n, iv):
        return D(iv, [I(1.0) if k == i else I(0.0) for k in range(n)])

    @staticmethod
    def const(v, n):
        return D(as_iv(v), [I(0.0)] * n)

    def __repr__(self):
        return "D(%r)" % (self.v,)


def _dlift(x, n):
    return x if isinstance(x, D) else D.const(x, n)


def d_binop(op, a, b):
    n = len(a.g) if isinstance(a, D) else len(b.g)
    a, b = _dlift(a, n), _dlift(b, n)
    if op is ast.Add:
        return D(a.v + b.v, [x + y for x, y in zip(a.g, b.g)])
    if op is ast.Sub:
        return D(a.v - b.v, [x - y for x, y in zip(a.g, b.g)])
    if op is ast.Mult:
        return D(a.v * b.v, [x * b.v + a.v * y for x, y in zip(a.g, b.g)])
    if op is ast.Div:
        v = a.v / b.v
        return D(v, [(x - v * y) / b.v for x, y in zip(a.g, b.g)])
    if op is ast.Pow:
        if all(y.is_point() and y.lo == 0.0 for y in b.g) and b.v.is_point():
            p = b.v.lo
            v = a.v ** p
            if p == 0:
                return D.const(1.0, n)
            if float(p).is_integer():
                dv = a.v ** (p - 1) * I(p)
            else:
                if a.v.lo <= 0:
                    raise Unsupported("derivative of a non-integer power at a possibly non-positive base")
                dv = a.v ** (p - 1) * I(p)
            return D(v, [dv * x for x in a.g])
        if a.v.lo <= 0:
            raise Unsupported("general power with possibly non-positive base")
        v = a.v ** b.v
        lg = a.v.log()
        return D(v, [v * (y * lg + b.v * x / a.v) for x, y in zip(a.g, b.g)])
    raise Unsupported("dual operator")


def d_func(f, a):
    v = a.v
    if f == "sin":
        dv = v.cos()
        out = v.sin()
    elif f == "cos":
        dv = -(v.sin())
        out = v.cos()
    elif f == "exp":
        out = v.exp()
        dv = out
    elif f == "log":
        out = v.log()
        dv = v.recip()
    elif f == "sqrt":
        out = v.sqrt()
        if v.lo <= 0:
            raise Unsupported("derivative of sqrt at a possibly zero argument")
        dv = (out * I(2.0)).recip()
    elif f == "abs":
        out = abs(v)
        dv = I(1.0) if v.lo >= 0 else (I(-1.0) if v.hi <= 0 else I(-1.0, 1.0))
    else:
        raise Unsupported("dual function " + f)
    return D(out, [dv * x for x in a.g])


class Ret(Exception):
    def __init__(self, value):
        self.value = value


def is_num(v):
    return isinstance(v, (I, Aff, D, int, float)) and not isinstance(v, bool)


def as_iv(v):
    if isinstance(v, I):
        return v
    if isinstance(v, Aff):
        return v.to_iv()
    if isinstance(v, D):
        return v.v
    if isinstance(v, bool):
        return I(float(v))
    if isinstance(v, (int, float)):
        return I(float(v))
    raise Unsupported("not a number: %r" % (v,))


def join(a, b):
    if a is None:
        return b
    if b is None:
        return a
    if isinstance(a, (list, tuple)) and isinstance(b, (list, tuple)) and len(a) == len(b):
        return [join(x, y) for x, y in zip(a, b)]
    if is_num(a) and is_num(b):
        if not isinstance(a, (I, Aff)) and not isinstance(b, (I, Aff)) and a == b:
            return a
        return as_iv(a).hull(as_iv(b))
    if a == b:
        return a
    raise Unsupported("cannot join %r and %r" % (a, b))


class Arr(list):
    """a one-dimensional numpy array of scalar abstract values: arithmetic and library functions apply element by element"""


class _Break(Exception):
    pass


class _Continue(Exception):
    pass


NP_FUNCS = {"cos": "cos", "sin": "sin", "exp": "exp", "sqrt": "sqrt", "abs": "abs", "fabs": "abs", "absolute": "abs", "log": "log"}


class _PyNone:
    """the Python value None (the interpreter uses the host's None for "truth value undecided")"""
    def __repr__(self):
        return "None"

    def __bool__(self):
        return False


PYNONE = _PyNone()


class Closure:
    """a function defined inside the analysed function, with the environment it reads"""
    def __init__(self, fn, env):
        self.fn, self.env = fn, env


def module_env(module):
    """the module's functions plus its literal constants (tuples / lists / numbers written out in the source)"""
    out = dict(module.functions)
    for k, v in module.constants.items():
        if k in out:
            continue
        try:
            ast.literal_eval(v)
        except (ValueError, TypeError, SyntaxError, MemoryError, RecursionError):
            # a constant expression over numbers, math/numpy constants and other module constants (_TWO_PI = 2.0 * np.pi):
            # evaluated by the interpreter itself when it is read
            if any(isinstance(n, (ast.Call, ast.Lambda, ast.ListComp, ast.GeneratorExp, ast.DictComp, ast.SetComp, ast.Subscript)) for n in ast.walk(v)):
                continue
        out[k] = v
    return out


class Interp:
    def __init__(self, module_functions=None, max_steps=2000000, rand01=True):
        self.funcs = module_functions or {}
        self.steps = 0
        self.max_steps = max_steps
        self.notes = set()
        self.float_methods = []
        self.concrete_lib = False

    # ------------------------------------------------------------ expressions
    def ev(self, n, env):
        self.steps += 1
        if self.steps > self.max_steps:
            raise Unsupported("step budget exceeded")
        m = getattr(self, "e_" + type(n).__name__, None)
        if m is None:
            raise Unsupported("expression %s" % type(n).__name__)
        return m(n, env)

    def e_Constant(self, n, env):
        return PYNONE if n.value is None else n.value

    def e_JoinedStr(self, n, env):
        # f-strings only name things (parameter names, messages): the text is the concatenation of the rendered parts
        out = []
        for v in n.values:
            if isinstance(v, ast.Constant):
                out.append(str(v.value))
            elif isinstance(v, ast.FormattedValue):
                x = self.ev(v.value, env)
                if not isinstance(x, (int, float, str, bool)) or v.format_spec is not None and not isinstance(x, (int, float, str)):
                    raise Unsupported("f-string over %r" % (x,))
                spec = "".join(str(c.value) for c in v.format_spec.values if isinstance(c, ast.Constant)) if v.format_spec is not None else ""
                try:
                    out.append(format(x, spec))
                except (ValueError, TypeError):
                    raise Unsupported("f-string format %r" % spec)
            else:
                raise Unsupported("f-string part")
        return "".join(out)

    def e_Lambda(self, n, env):
        a = n.args
        if a.vararg or a.kwarg or a.kwonlyargs or a.posonlyargs:
            raise Unsupported("lambda with star parameters")
        fn = ast.FunctionDef(name="<lambda>", args=a, body=[ast.Return(value=n.body)], decorator_list=[], returns=None, type_comment=None)
        ast.copy_location(fn, n)
        ast.copy_location(fn.body[0], n)
        return Closure(fn, env)

    def e_NamedExpr(self, n, env):
        v = self.ev(n.value, env)
        self.bind(n.target, v, env)
        return v

    def e_Name(self, n, env):
        if n.id in env:
            return env[n.id]
        if n.id == "pi":
            return math.pi
        if n.id == "e":
            return math.e
        if n.id in ("True", "False"):
            return n.id == "True"
        if n.id in ("float", "int", "bool", "str", "list", "tuple", "dict") and n.id not in self.funcs:
            return {"float": float, "int": int, "bool": bool, "str": str, "list": list, "tuple": tuple, "dict": dict}[n.id]     # the type, as a value (dtype=float)
        c = self.funcs.get(n.id)
        if c is not None and not isinstance(c, (ast.FunctionDef, ast.AsyncFunctionDef)):
            return self.ev(c, {})        # literal constant of the module (see module_env)
        if isinstance(c, ast.FunctionDef):
            return Closure(c, {})        # a module function handed over as a value (transform=_power_of_alpha)
        raise Unsupported("unbound name %s" % n.id)

    def e_Attribute(self, n, env):
        p = access_path(n)
        if p in ("np.pi", "numpy.pi", "math.pi"):
            return math.pi
        if p in ("np.e", "numpy.e", "math.e"):
            return math.e
        if p in ("np.inf", "math.inf", "numpy.inf"):
            return math.inf
        base = self.ev(n.value, env)
        if isinstance(base, Obj):
            if n.attr in base.attrs:
                return base.attrs[n.attr]
            raise Unsupported("attribute %s of %r" % (n.attr, base))
        raise Unsupported("attribute %s" % text(n))

    def e_Dict(self, n, env):
        out = {}
        for k, v in zip(n.keys, n.values):
            if k is None:
                raise Unsupported("dict unpacking")
            out[self.ev(k, env)] = self.ev(v, env)
        return out

    def e_List(self, n, env):
        return [self.ev(e, env) for e in n.elts]

    e_Tuple = e_List

    def e_Subscript(self, n, env):
        base = self.ev(n.value, env)
        if isinstance(n.slice, ast.Slice):
            lo = None if n.slice.lower is None else self.ev(n.slice.lower, env)
            hi = None if n.slice.upper is None else self.ev(n.slice.upper, env)
            st = None if n.slice.step is None else self.ev(n.slice.step, env)
            lo, hi, st = (None if x is PYNONE else x for x in (lo, hi, st))
            if not all(x is None or isinstance(x, int) for x in (lo, hi, st)):
                raise Unsupported("non-concrete slice %s" % text(n))
            return Arr(list(base)[slice(lo, hi, st)]) if isinstance(base, Arr) else list(base)[slice(lo, hi, st)]
        idx = self.ev(n.slice, env)
        if isinstance(idx, float) and idx.is_integer():
            idx = int(idx)
        if isinstance(base, dict):
            if idx in base:
                return base[idx]
            raise DomainError("missing key %r in %s" % (idx, text(n)))
        if not isinstance(idx, int) or not isinstance(base, (list, tuple)):
            raise Unsupported("subscript %s" % text(n))
        try:
            return base[idx]
        except IndexError:
            raise DomainError("index %d out of range in %s" % (idx, text(n)))

    def e_UnaryOp(self, n, env):
        v = self.ev(n.operand, env)
        if isinstance(v, Arr) and isinstance(n.op, (ast.USub, ast.UAdd)):
            return Arr(self.binop(ast.Mult, -1.0, x) for x in v) if isinstance(n.op, ast.USub) else v
        if isinstance(n.op, ast.USub):
            if isinstance(v, Aff):
                return v.scale(-1.0)
            if isinstance(v, D):
                return D(-v.v, [-x for x in v.g])
            return -v if not isinstance(v, bool) else -int(v)
        if isinstance(n.op, ast.UAdd):
            return v
        if isinstance(n.op, ast.Not):
            t = self.truth(v)
            if t is None:
                raise Unsupported("not of undecided condition")
            return not t
        raise Unsupported("unary op")

    def e_BinOp(self, n, env):
        a, b = self.ev(n.left, env), self.ev(n.right, env)
        if isinstance(n.op, ast.Mult) and a is b and isinstance(a, (I, Aff)) and not isinstance(a, D):
            return as_iv(a).sqr()          # one and the same value (a local read twice, (d := e) * d): a square
        if isinstance(n.op, ast.Mult) and isinstance(a, (I, Aff)) and isinstance(b, (I, Aff)) and not isinstance(a, D) and text(n.left) == text(n.right) \
                and not any(isinstance(c, ast.Call) and (access_path(c.func) or "").split(".")[-1] in ("uniform", "random") for c in ast.walk(n.left)):
            return as_iv(a).sqr()          # e * e with the same sub-expression is a square
        return self.binop(type(n.op), a, b, n)

    def binop(self, op, a, b, n=None):
        if isinstance(a, Arr) or isinstance(b, Arr):
            if isinstance(a, (list, tuple)) and isinstance(b, (list, tuple)):
                if len(a) != len(b):
                    if len(a) == 1:
                        a = Arr(list(a) * len(b))
                    elif len(b) == 1:
                        b = Arr(list(b) * len(a))
                    else:
                        raise DomainError("operands could not be broadcast together (%d, %d) in %s" % (len(a), len(b), text(n) if n is not None else op))
                return Arr(as_iv(x).sqr() if (op is ast.Mult and x is y and isinstance(x, (I, Aff)) and not isinstance(x, D)) else self.binop(op, x, y, n) for x, y in zip(a, b))
            if isinstance(a, Arr) and (is_num(b) or isinstance(b, bool)):
                return Arr(self.binop(op, x, b, n) for x in a)
            if isinstance(b, Arr) and (is_num(a) or isinstance(a, bool)):
                return Arr(self.binop(op, a, y, n) for y in b)
            raise Unsupported("array operands of %s" % (text(n) if n is not None else op))
        if isinstance(a, (list, tuple)) and op is ast.Add and isinstance(b, (list, tuple)):
            return list(a) + list(b)
        if isinstance(a, (list, tuple)) and op is ast.Mult and isinstance(b, int):
            return list(a) * b
        if not (is_num(a) or isinstance(a, bool)) or not (is_num(b) or isinstance(b, bool)):
            raise Unsupported("operands of %s" % (text(n) if n is not None else op))
        if isinstance(a, D) or isinstance(b, D):
            return d_binop(op, a if isinstance(a, D) else as_iv(a), b if isinstance(b, D) else as_iv(b))
        if isinstance(a, Aff) or isinstance(b, Aff):
            def scalar(v):
                if isinstance(v, bool):
                    return float(v)
                if isinstance(v, (int, float)):
                    return float(v)
                if isinstance(v, I) and v.is_point():
                    return v.lo
                return None
            if op in (ast.Add, ast.Sub):
                sg = 1.0 if op is ast.Add else -1.0
                if isinstance(a, Aff):
                    return a.add(b, sg)
                return b.scale(sg).add(a, 1.0)      # a +- Aff
            if op is ast.Mult:
                if isinstance(a, Aff) and scalar(b) is not None:
                    return a.scale(scalar(b))
                if isinstance(b, Aff) and scalar(a) is not None:
                    return b.scale(scalar(a))
            if op is ast.Div and isinstance(a, Aff) and scalar(b) not in (None, 0.0):
                k = 1.0 / scalar(b)
                out = a.scale(k)
                # 1/b is itself rounded: cover it
                rel = I(-2.3e-16, 2.3e-16)
                return Aff(out.c0, out.cs, out.r + out.to_iv() * rel, out.box)
            a = as_iv(a) if isinstance(a, Aff) else a
            b = as_iv(b) if isinstance(b, Aff) else b
        if not isinstance(a, I) and not isinstance(b, I):
            # exact Python arithmetic on concrete values (indices, dimensions, literals)
            try:
                if op is ast.Add:
                    return a + b
                if op is ast.Sub:
                    return a - b
                if op is ast.Mult:
                    return a * b
                if op is ast.Div:
                    return a / b
                if op is ast.FloorDiv:
                    return a // b
                if op is ast.Mod:
                    return a % b
                if op is ast.Pow:
                    r = a ** b
                    if isinstance(r, complex):
                        raise DomainError("complex result of %r ** %r" % (a, b))
                    return r
            except ZeroDivisionError:
                raise DomainError("division by zero")
            except OverflowError:
                return math.inf
        A, B = as_iv(a), as_iv(b)
        if op is ast.Add:
            return A + B
        if op is ast.Sub:
            return A - B
        if op is ast.Mult:
            return A * B
        if op is ast.Div:
            return A / B
        if op is ast.Pow:
            if not isinstance(b, I):
                return A ** b
            return A ** B
        raise Unsupported("interval operator %s" % op.__name__)

    def e_BoolOp(self, n, env):
        is_and = isinstance(n.op, ast.And)
        res = None
        for v in n.values:
            t = self.truth(self.ev(v, env))
            if t is None:
                raise Unsupported("undecided boolean operand")
            if t != is_and:
                return t
            res = t
        return res

    def e_Compare(self, n, env):
        if len(n.ops) != 1:
            raise Unsupported("chained comparison")
        a, b = self.ev(n.left, env), self.ev(n.comparators[0], env)
        op = type(n.ops[0])
        if op in (ast.Is, ast.IsNot):
            return (a is b) == (op is ast.Is)
        if a is None or b is None:
            return None        # an undecided truth value compared with something
        if (a is PYNONE or b is PYNONE) and op in (ast.Eq, ast.NotEq):
            return (a is b) == (op is ast.Eq)
        if op in (ast.In, ast.NotIn):
            if isinstance(b, (list, tuple, dict, str)):
                return (a in b) == (op is ast.In)
            raise Unsupported("membership test")
        a = as_iv(a) if isinstance(a, (Aff, D)) else a
        b = as_iv(b) if isinstance(b, (Aff, D)) else b
        if not isinstance(a, I) and not isinstance(b, I):
            return {ast.Lt: lambda: a < b, ast.LtE: lambda: a <= b, ast.Gt: lambda: a > b, ast.GtE: lambda: a >= b,
                    ast.Eq: lambda: a == b, ast.NotEq: lambda: a != b}[op]()
        A, B = as_iv(a), as_iv(b)
        if op is ast.Lt:
            return True if A.hi < B.lo else (False if A.lo >= B.hi else None)
        if op is ast.LtE:
            return True if A.hi <= B.lo else (False if A.lo > B.hi else None)
        if op is ast.Gt:
            return True if A.lo > B.hi else (False if A.hi <= B.lo else None)
        if op is ast.GtE:
            return True if A.lo >= B.hi else (False if A.hi < B.lo else None)
        if op is ast.Eq:
            if A.is_point() and B.is_point():
                return A.lo == B.lo
            return False if (A.hi < B.lo or B.hi < A.lo) else None
        if op is ast.NotEq:
            if A.is_point() and B.is_point():
                return A.lo != B.lo
            return True if (A.hi < B.lo or B.hi < A.lo) else None
        raise Unsupported("comparison")

    def truth(self, v):
        if v is None:
            return None   # undecided comparison result
        if v is PYNONE:
            return False
        if isinstance(v, bool):
            return v
        if isinstance(v, Aff):
            v = v.to_iv()
        if isinstance(v, D):
            v = v.v
        if isinstance(v, I):
            if v.lo > 0 or v.hi < 0:
                return True
            if v.is_point() and v.lo == 0:
                return False
            return None
        if isinstance(v, (int, float)):
            return bool(v)
        if isinstance(v, (list, tuple, str, dict)):
            return len(v) > 0
        return True

    def e_IfExp(self, n, env):
        t = self.truth(self.ev(n.test, env))
        if t is None:
            return join(self.ev(n.body, env), self.ev(n.orelse, env))
        return self.ev(n.body if t else n.orelse, env)

    def e_ListComp(self, n, env):
        if len(n.generators) != 1:
            raise Unsupported("nested comprehension")
        g = n.generators[0]
        seq = self.ev(g.iter, env)
        out = []
        for item in self.iterate(seq):
            e2 = dict(env)
            self.bind(g.target, item, e2)
            ok = True
            for c in g.ifs:
                t = self.truth(self.ev(c, e2))
                if t is None:
                    raise Unsupported("undecided comprehension filter")
                ok = ok and t
            if ok:
                out.append(self.ev(n.elt, e2))
        return out

    e_GeneratorExp = e_ListComp

    def iterate(self, seq):
        if isinstance(seq, (list, tuple, range)):
            return list(seq)
        raise Unsupported("iteration over %r" % (seq,))

    def bind(self, target, value, env):
        if isinstance(target, ast.Name):
            env[target.id] = value
        elif isinstance(target, (ast.Tuple, ast.List)):
            if not isinstance(value, (list, tuple)):
                raise Unsupported("unpacking of %r" % (value,))
            vals = list(value)
            stars = [i for i, t in enumerate(target.elts) if isinstance(t, ast.Starred)]
            if len(stars) == 1 and len(vals) >= len(target.elts) - 1:
                i = stars[0]
                tail = len(target.elts) - i - 1
                mid = vals[i:len(vals) - tail]
                vals = vals[:i] + [mid] + vals[len(vals) - tail:] if tail else vals[:i] + [mid]
                elts = [t.value if isinstance(t, ast.Starred) else t for t in target.elts]
            elif stars:
                raise Unsupported("unpacking")
            else:
                elts = target.elts
            if len(vals) != len(elts):
                raise Unsupported("unpacking")
            for t, v in zip(elts, vals):
                self.bind(t, v, env)
        elif isinstance(target, ast.Subscript) and isinstance(target.slice, ast.Slice):
            base = self.ev(target.value, env)
            sl = target.slice
            lo = None if sl.lower is None else self.ev(sl.lower, env)
            hi = None if sl.upper is None else self.ev(sl.upper, env)
            st = None if sl.step is None else self.ev(sl.step, env)
            lo, hi, st = (None if x is PYNONE else x for x in (lo, hi, st))
            if not isinstance(base, list) or not all(x is None or isinstance(x, int) for x in (lo, hi, st)):
                raise Unsupported("slice store %s" % text(target))
            base[slice(lo, hi, st)] = list(self.iterate(value))
        elif isinstance(target, ast.Subscript):
            base = self.ev(target.value, env)
            idx = self.ev(target.slice, env)
            if isinstance(base, list) and isinstance(idx, int):
                base[idx] = value
            else:
                raise Unsupported("subscript store")
        elif isinstance(target, ast.Attribute):
            base = self.ev(target.value, env)
            if isinstance(base, Obj):
                base.attrs[target.attr] = value
            else:
                raise Unsupported("attribute store")
        else:
            raise Unsupported("assignment target")

    # ------------------------------------------------------------ calls
    def e_Call(self, n, env):
        nm = access_path(n.func) or ""
        short = nm.split(".")[-1]
        if nm == "isinstance" and len(n.args) == 2 and not n.keywords:
            # the values of this interpreter are scalars and Python containers, never numpy arrays
            v0 = self.ev(n.args[0], env)
            tnames = [access_path(t) or "" for t in (n.args[1].elts if isinstance(n.args[1], ast.Tuple) else [n.args[1]])]
            scalar = isinstance(v0, (I, Aff, D, int, float)) and not isinstance(v0, bool)
            if scalar and all(t.split(".")[-1] in ("ndarray", "list", "tuple", "dict", "str", "set", "Iterable", "Sequence") for t in tnames):
                return False
            if isinstance(v0, (list, tuple)) and all(t.split(".")[-1] in ("ndarray", "dict", "str", "set", "float", "int", "floating", "integer", "Number") for t in tnames):
                return False
            if isinstance(v0, list) and tnames == ["list"] or isinstance(v0, tuple) and tnames == ["tuple"]:
                return True
            raise Unsupported("isinstance test %s" % text(n))
        args = [self.ev(a, env) for a in n.args]
        kw = {k.arg: self.ev(k.value, env) for k in n.keywords}
        if nm in ("itertools.product", "product") and args and not kw and all(isinstance(a, (list, tuple, range)) for a in args):
            import itertools as _it
            return [list(t) for t in _it.product(*[list(a) for a in args])]
        if nm in ("np.asarray", "np.array", "numpy.asarray", "numpy.array", "np.asfarray", "np.atleast_1d") and len(args) == 1 and set(kw) <= {"dtype"} \
                and isinstance(args[0], (list, tuple)) and all(is_num(x) or isinstance(x, bool) for x in args[0]):
            if "dtype" in kw and kw["dtype"] is not float and kw["dtype"] not in ("float64", "float"):
                raise Unsupported("array of dtype %s" % text(n))
            return Arr(float(x) if isinstance(x, (int, bool)) and "dtype" in kw else x for x in args[0])
        if nm in ("np.arange", "numpy.arange") and 1 <= len(args) <= 3 and not kw and all(isinstance(a, int) and not isinstance(a, bool) for a in args):
            return Arr(range(*args))
        if isinstance(n.func, ast.Attribute) and not nm.startswith(("np.", "numpy.", "math.")):
            recv = self.ev(n.func.value, env)
            if isinstance(recv, Arr) and not args and not kw and short in ("sum", "tolist", "copy", "prod"):
                if short == "sum":
                    return self.sum(recv)
                if short == "prod":
                    acc = 1.0
                    for v_ in recv:
                        acc = self.binop(ast.Mult, acc, v_)
                    return acc
                return list(recv) if short == "tolist" else Arr(recv)
            if isinstance(recv, list) and short == "append":
                recv.append(args[0])
                return None
            if isinstance(recv, list) and short == "extend" and len(args) == 1 and not kw:
                recv.extend(self.iterate(args[0]))
                return None
            if isinstance(recv, (I, Aff, D)) or isinstance(recv, (int, float)):
                # methods that plain Python floats do not have
                self.float_methods.append((n, short))
                if short in ("any", "all") and not args:
                    t = self.truth(recv)      # numpy-scalar semantics, so that the analysis can go on
                    return t
                raise DomainError("method .%s() called on a float value (%s): plain Python floats have no such method" % (short, text(n.func.value)))
        if nm.startswith(("np.", "numpy.", "math.")) or nm in NP_FUNCS or nm in ("exp", "sqrt", "cos", "sin", "fabs", "log"):
            if kw:
                raise Unsupported("keyword arguments in library call %s" % text(n))
            if short in NP_FUNCS and len(args) == 1 and isinstance(args[0], Arr):
                one = ast.Call(func=n.func, args=[ast.Name(id="__el", ctx=ast.Load())], keywords=[])
                return Arr(self.e_Call(one, {"__el": v_}) for v_ in args[0])
            if short == "prod" and len(args) == 1 and isinstance(args[0], (list, tuple)):
                acc = 1.0
                for v_ in args[0]:
                    acc = self.binop(ast.Mult, acc, v_)
                return acc
            if short in NP_FUNCS and len(args) == 1 and self.concrete_lib and not isinstance(args[0], (I, Aff)):
                f = NP_FUNCS[short]
                return abs(args[0]) if f == "abs" else getattr(math, f)(args[0])
            if short in NP_FUNCS and len(args) == 1 and isinstance(args[0], D):
                return d_func(NP_FUNCS[short], args[0])
            if short in NP_FUNCS and len(args) == 1:
                v = args[0]
                f = NP_FUNCS[short]
                if not isinstance(v, I):
                    v = as_iv(v)
                if f == "abs":
                    return abs(v)
                return getattr(v, f)()
            if short == "pow" and len(args) == 2:
                return self.binop(ast.Pow, args[0], args[1])
            if short in ("sum",) and len(args) == 1:
                return self.sum(args[0])
            if short in ("zeros",):
                k = args[0] if isinstance(args[0], int) else args[0][0]
                return [0.0] * int(k)
            if short in ("floor", "ceil") and len(args) == 1 and not isinstance(args[0], I):
                return getattr(math, short)(args[0])
            raise Unsupported("library call %s" % nm)
        if kw and nm in ("abs", "pow", "len", "range", "zip", "sum", "float", "int", "min", "max", "round", "sorted", "list", "tuple"):
            raise Unsupported("keyword arguments in %s" % text(n))
        if nm == "abs" and len(args) == 1:
            if isinstance(args[0], D):
                return d_func("abs", args[0])
            if isinstance(args[0], Aff):
                return abs(args[0].to_iv())
            return abs(args[0]) if not isinstance(args[0], bool) else abs(int(args[0]))
        if nm == "pow" and len(args) == 2:
            return self.binop(ast.Pow, args[0], args[1])
        if nm == "len" and len(args) == 1:
            if isinstance(args[0], (list, tuple, str, dict)):
                return len(args[0])
            raise Unsupported("len of %r" % (args[0],))
        if nm == "range":
            if all(isinstance(a, int) or (isinstance(a, float) and a.is_integer()) for a in args):
                return list(range(*[int(a) for a in args]))
            raise Unsupported("range with non-concrete bounds %s" % text(n))
        if nm == "enumerate" and 1 <= len(args) <= 2:
            start = args[1] if len(args) == 2 else kw.pop("start", 0)
            if kw or not isinstance(start, int) or isinstance(start, bool):
                raise Unsupported("enumerate with %s" % text(n))
            return [[i, v] for i, v in enumerate(self.iterate(args[0]), start)]
        if nm == "zip":
            return [list(t) for t in zip(*[self.iterate(a) for a in args])]
        if nm == "sum" and len(args) >= 1:
            return self.sum(args[0], args[1] if len(args) > 1 else 0)
        if nm in ("float", "int") and len(args) == 1:
            if isinstance(args[0], (Aff, D)):
                if nm == "int":
                    raise Unsupported("int() of an interval")
                return args[0]
            if isinstance(args[0], I):
                if nm == "int":
                    raise Unsupported("int() of an interval")
                return args[0]
            return float(args[0]) if nm == "float" else int(args[0])
        if nm in ("min", "max") and len(args) >= 2:
            vs = [as_iv(a) for a in args]
            if nm == "min":
                return I(min(v.lo for v in vs), min(v.hi for v in vs))
            return I(max(v.lo for v in vs), max(v.hi for v in vs))
        if nm in ("min", "max") and len(args) == 1 and isinstance(args[0], list):
            vs = [as_iv(a) for a in args[0]]
            if nm == "min":
                return I(min(v.lo for v in vs), min(v.hi for v in vs))
            return I(max(v.lo for v in vs), max(v.hi for v in vs))
        if nm in ("uniform", "random.uniform") and len(args) == 2 and all(not isinstance(a, I) for a in args):
            self.notes.add("random draw uniform(%r, %r) abstracted as the interval" % (args[0], args[1]))
            return I(float(args[0]), float(args[1]))
        if nm in ("random", "random.random"):
            return I(0.0, 1.0)
        if nm == "list" and len(args) == 1:
            return list(self.iterate(args[0]))
        if nm in ("itertools.product", "product") and args and not kw and all(isinstance(a, (list, tuple, range)) for a in args):
            import itertools as _it
            return [list(t) for t in _it.product(*[list(a) for a in args])]
        if nm == "reversed" and len(args) == 1 and isinstance(args[0], (list, tuple)):
            return list(reversed(args[0]))
        if nm == "tuple" and len(args) == 1:
            return tuple(self.iterate(args[0]))
        if isinstance(n.func, ast.Name) and isinstance(env.get(nm), Closure):
            c = env[nm]
            return self.call_function(c.fn, args, kw, outer=c.env)
        if isinstance(self.funcs.get(nm), ast.FunctionDef):
            return self.call_function(self.funcs[nm], args, kw)
        raise Unsupported("call %s" % text(n.func))

    def sum(self, seq, start=0):
        acc = start
        for v in self.iterate(seq):
            acc = self.binop(ast.Add, acc, v)
        return acc

    def call_function(self, fn, args, kw=None, self_obj=None, outer=None):
        # a nested function reads the enclosing function's variables as they are at the time of the call
        env = dict(outer) if outer is not None else {}
        env.pop("__pending_returns__", None)
        params = [a.arg for a in fn.args.args]
        if self_obj is not None:
            env[params[0]] = self_obj
            params = params[1:]
        for p, a in zip(params, args):
            env[p] = a
        for k, v in (kw or {}).items():
            env[k] = v
        # defaults
        defaults = fn.args.defaults
        dnames = [a.arg for a in fn.args.args][len(fn.args.args) - len(defaults):]
        for nme, d in zip(dnames, defaults):
            if nme not in env:
                env[nme] = self.ev(d, {})
        try:
            self.block(fn.body, env)
        except Ret as r:
            return r.value
        return None

    # ------------------------------------------------------------ statements
    def block(self, stmts, env):
        for s in stmts:
            self.stmt(s, env)

    def stmt(self, s, env):
        self.steps += 1
        if isinstance(s, ast.Expr):
            if isinstance(s.value, ast.Constant):
                return
            self.ev(s.value, env)
        elif isinstance(s, ast.Assign):
            v = self.ev(s.value, env)
            for t in s.targets:
                self.bind(t, v, env)
        elif isinstance(s, ast.AugAssign):
            cur = self.ev(_as_load(s.target), env)
            v = self.ev(s.value, env)
            self.bind(s.target, self.binop(type(s.op), cur, v, s), env)
        elif isinstance(s, ast.For):
            seq = self.iterate(self.ev(s.iter, env))
            broke = False
            for item in seq:
                self.bind(s.target, item, env)
                try:
                    self.block(s.body, env)
                except _Continue:
                    continue
                except _Break:
                    broke = True
                    break
            if not broke and s.orelse:
                self.block(s.orelse, env)
        elif isinstance(s, ast.Break):
            raise _Break()
        elif isinstance(s, ast.Continue):
            raise _Continue()
        elif isinstance(s, ast.If):
            t = self.truth(self.ev(s.test, env))
            if t is None:
                self.fork(s, env)
            else:
                self.block(s.body if t else s.orelse, env)
        elif isinstance(s, ast.Return):
            raise Ret(None if s.value is None else self.ev(s.value, env))
        elif isinstance(s, ast.Pass):
            return
        elif isinstance(s, ast.FunctionDef) and not s.decorator_list and not any(
                isinstance(x, (ast.Nonlocal, ast.Global, ast.Yield, ast.YieldFrom)) for x in ast.walk(s)) \
                and not (s.args.vararg or s.args.kwarg or s.args.kwonlyargs):
            env[s.name] = Closure(s, env)
        elif isinstance(s, ast.Raise):
            raise DomainError("explicit raise: %s" % text(s))
        else:
            raise Unsupported("statement %s" % type(s).__name__)

    def fork(self, s, env):
        """undecided branch: run both, join environments / returned values"""
        results = []
        envs = []
        for branch in (s.body, s.orelse):
            e2 = _copy_env(env)
            try:
                self.block(branch, e2)
                envs.append(e2)
            except Ret as r:
                results.append(r.value)
            except (_Break, _Continue):
                raise Unsupported("break/continue under an undecided condition at line %d" % s.lineno)
        self.notes.add("undecided branch at line %d joined" % s.lineno)
        if results and not envs:
            out = None
            for r in results:
                out = join(out, r)
            raise Ret(out)
        if results and envs:
            # one branch returns, the other continues: continue with the fall-through env and remember the returned value
            pend = env.setdefault("__pending_returns__", [])
            pend.extend(results)
            env.update(envs[0])
            return
        merged = {}
        for k in set(envs[0]) & set(envs[1]):
            try:
                merged[k] = join(envs[0][k], envs[1][k])
            except Unsupported:
                pass
        env.clear()
        env.update(merged)


def _as_load(t):
    import copy
    t2 = copy.deepcopy(t)
    for n in ast.walk(t2):
        if hasattr(n, "ctx"):
            n.ctx = ast.Load()
    return t2


def _copy_env(env):
    out = {}
    for k, v in env.items():
        out[k] = list(v) if isinstance(v, list) else v
    return out


def evaluate_function(fn, self_obj, x_obj, module_functions=None):
    """abstractly run `fn(self, x)`; returns (value, notes). Pending returns of forked branches are joined in."""
    it = Interp(module_functions)
    env = {}
    params = [a.arg for a in fn.args.args]
    env[params[0]] = self_obj
    env[params[1]] = x_obj
    val = None
    try:
        it.block(fn.body, env)
    except Ret as r:
        val = r.value
    for pv in env.get("__pending_returns__", []):
        val = join(val, pv)
    return val, it.notes
