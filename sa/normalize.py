"""Syntactic normalisation of function bodies.

Rules compare what the code *does*; a refactoring that only changes how it is
spelled (a comprehension for an append loop, a tuple assignment for two
assignments, a conditional expression for an if/else, `setdefault` for the
`if k not in d` idiom, `extend([a, b])` for two appends) must give the same
verdict.  Every function of the package is brought to one canonical spelling
when it is loaded, before any rule sees it.  All rewrites are exact (the
rewritten function computes the same values with the same effects in the same
order) except that a comprehension variable becomes a local that survives the
loop; it is renamed when that could clash with another name of the function.

Passes (all applied by default; VERIF_NORM=0 switches the normaliser off):

  tuple    a, b = x, y            ->  a = x; b = y          (no cross dependency)
           a, b = name            ->  a = name[0]; b = name[1]
  ifexp    t = A if C else B      ->  if C: t = A  else: t = B   (also return / augmented)
  comp     t = [E for v in I if C] -> t = []; for v in I: if C: t.append(E)
           return [..]            ->  __cN = []; ...; return __cN
           T[...] = [..] / T.a = [..]   likewise through a fresh local
           t = {K: V for ..}      ->  t = {}; for ..: t[K] = V
           x.extend(E for v in I) ->  for v in I: x.append(E)
           x.extend([a, b])       ->  x.append(a); x.append(b)
           d.setdefault(k, []).append(v) -> if k not in d: d[k] = []
                                            d[k].append(v)
  unroll   for v in (p.a, q, r.b): BODY  ->  BODY[v:=p.a]; BODY[v:=q]; BODY[v:=r.b]
           (a literal tuple/list of at most 12 names, attribute paths or string literals, v not assigned in
           BODY, no break/continue in BODY: a spelled-out list of actions)
  setattr  setattr(x, 'name', v) -> x.name = v ;  getattr(x, 'name') -> x.name      (literal identifier)
  compare  lit OP x  ->  x OP' lit   (a literal operand goes to the right; both operands free of calls)
           not (a == b) -> a != b, likewise !=, is, is not, in, not in (exact; order comparisons are left
           alone because of NaN);  if not C: A else: B  ->  if C: B else: A
  unenum   for _, v in enumerate(X): ..  ->  for v in X: ..   when the index is never read
  else     if C: ...; return/raise/continue/break  else: REST   ->   if C: ...;  REST
  while    i = a; while i < N: BODY; i += 1   ->   for i in range(a, N): BODY
           (i is written nowhere else in BODY, BODY has no `continue`, N is call-free apart from len(),
           nothing N reads is stored in BODY, i is not read after the loop)
  verdict  if X.compare(a, b) OP lit: ..  ->  __fN = X.compare(a, b); if __fN OP lit: ..
           (a comparator verdict tested in place gets the name the rest of the code base gives it)
"""
import ast
import copy
import os

from .astutil import access_path, access_paths_in, paths_overlap, root_name

ENABLED = os.environ.get("VERIF_NORM", "1") != "0"
STATS = {"tuple": 0, "ifexp": 0, "comp": 0, "extend": 0, "setdefault": 0, "functions": 0}


def _loc(new, old):
    ast.copy_location(new, old)
    for n in ast.walk(new):
        if not hasattr(n, "lineno") and isinstance(n, (ast.expr, ast.stmt)):
            ast.copy_location(n, old)
    ast.fix_missing_locations(new)
    return new


class _Fn:
    """Per-function context: the set of names in use and a fresh-name counter."""

    def __init__(self, fn):
        self.names = {n.id for n in ast.walk(fn) if isinstance(n, ast.Name)}
        self.names |= {a.arg for a in ast.walk(fn) if isinstance(a, ast.arg)}
        self.params = {a.arg for a in ast.walk(fn.args) if isinstance(a, ast.arg)}
        self.k = 0
        # locals that are Python lists wherever they are bound in this function (a display, a comprehension, list(..)):
        # for them `x += [..]` is `x.extend([..])`, never array arithmetic
        binds = {}
        self.loops = [(n.lineno, getattr(n, "end_lineno", n.lineno)) for n in ast.walk(fn) if isinstance(n, (ast.For, ast.While))]
        for n in ast.walk(fn):
            ln = getattr(n, "lineno", 0)
            if isinstance(n, ast.Assign):
                for t in n.targets:
                    for nm in ([t] if isinstance(t, ast.Name) else [e for e in ast.walk(t) if isinstance(e, ast.Name)] if isinstance(t, (ast.Tuple, ast.List)) else []):
                        binds.setdefault(nm.id, []).append((ln, n.value if isinstance(t, ast.Name) else None))
            elif isinstance(n, ast.For):
                for e in ast.walk(n.target):
                    if isinstance(e, ast.Name):
                        binds.setdefault(e.id, []).append((ln, None))
            elif isinstance(n, (ast.AnnAssign, ast.NamedExpr)) and isinstance(n.target, ast.Name):
                binds.setdefault(n.target.id, []).append((ln, n.value))
            elif isinstance(n, (ast.With, ast.AsyncWith)):
                for it in n.items:
                    if it.optional_vars is not None:
                        for e in ast.walk(it.optional_vars):
                            if isinstance(e, ast.Name):
                                binds.setdefault(e.id, []).append((ln, None))
        self.binds = binds

    def is_list_at(self, name, line):
        """is the local `name` a Python list when the statement at `line` runs: every binding that can reach it (earlier in
        the text, or later inside a loop that also contains `line`) is a display, a comprehension, list(..) or sorted(..)"""
        if name in self.params or name not in self.binds:
            return False

        def listy(v):
            return isinstance(v, (ast.List, ast.ListComp)) or (isinstance(v, ast.Call) and isinstance(v.func, ast.Name) and v.func.id in ("list", "sorted"))
        reach = [(l_, v) for l_, v in self.binds[name] if l_ < line or any(a <= line and l_ <= b and a <= l_ for a, b in self.loops)]
        return bool(reach) and all(listy(v) for _l, v in reach)

    def fresh(self, stem="c"):
        while True:
            self.k += 1
            nm = "__%s%d" % (stem, self.k)
            if nm not in self.names:
                self.names.add(nm)
                return nm


def _name(id_, ctx, ref):
    return _loc(ast.Name(id=id_, ctx=ctx), ref)


def _rename(node, mapping):
    class R(ast.NodeTransformer):
        def visit_Name(self, n):
            if n.id in mapping:
                return ast.copy_location(ast.Name(id=mapping[n.id], ctx=n.ctx), n)
            return n
    return R().visit(node)


def _count_name_outside(fnctx_names_counter, name):
    return fnctx_names_counter.get(name, 0)


# ---------------------------------------------------------------------- tuple
def _split_tuple(st):
    if not (isinstance(st, ast.Assign) and len(st.targets) == 1
            and isinstance(st.targets[0], (ast.Tuple, ast.List))):
        return None
    T = st.targets[0].elts
    if any(isinstance(t, (ast.Starred, ast.Tuple, ast.List)) for t in T):
        return None
    V = st.value
    if isinstance(V, (ast.GeneratorExp, ast.ListComp)) and len(V.generators) == 1 and not V.generators[0].ifs and isinstance(V.generators[0].target, ast.Name) \
            and isinstance(V.generators[0].iter, (ast.Tuple, ast.List)) and len(V.generators[0].iter.elts) == len(T) \
            and all(isinstance(e, (ast.Name, ast.Constant)) for e in V.generators[0].iter.elts):
        # a, b = (f(c) for c in (x, y))  ->  a, b = f(x), f(y)
        var = V.generators[0].target.id
        elts = []
        for e in V.generators[0].iter.elts:
            class S_(ast.NodeTransformer):
                def visit_Name(self, n, e=e):
                    if n.id == var and isinstance(n.ctx, ast.Load):
                        return ast.copy_location(copy.deepcopy(e), n)
                    return n
            elts.append(S_().visit(copy.deepcopy(V.elt)))
        V = ast.copy_location(ast.Tuple(elts=elts, ctx=ast.Load()), V)
    if isinstance(V, (ast.Tuple, ast.List)) and len(V.elts) == len(T) \
            and not any(isinstance(v, ast.Starred) for v in V.elts):
        stored = []
        plain = True
        for t, v in zip(T, V.elts):
            reads = set(access_paths_in(v))
            if isinstance(t, (ast.Subscript, ast.Attribute)):
                reads |= access_paths_in(t.value)
                if isinstance(t, ast.Subscript):
                    reads |= access_paths_in(t.slice)
            # a call on the right-hand side could read anything the earlier targets changed
            # (a callee cannot see the caller's plain locals: only stores into objects matter)
            if stored and not plain and any(isinstance(n, ast.Call) for n in ast.walk(v)):
                return None
            plain = plain and isinstance(t, ast.Name)
            # a later element must not read what an earlier target has just stored (the stored path or something below it)
            if any(r == s or r.startswith(s + ".") or r.startswith(s + "[") for s in stored for r in reads):
                return None
            p = access_path(t)
            if p is None:
                r = root_name(t)
                if r is None:
                    return None
                p = r
            stored.append(p)
        STATS["tuple"] += 1
        return [_loc(ast.Assign(targets=[copy.deepcopy(t)], value=copy.deepcopy(v)), st)
                for t, v in zip(T, V.elts)]
    if isinstance(V, ast.Name) and all(isinstance(t, ast.Name) for t in T) \
            and V.id not in {t.id for t in T}:
        STATS["tuple"] += 1
        return [_loc(ast.Assign(targets=[copy.deepcopy(t)],
                                value=ast.Subscript(value=ast.Name(id=V.id, ctx=ast.Load()),
                                                    slice=ast.Constant(value=j), ctx=ast.Load())), st)
                for j, t in enumerate(T)]
    return None


# ---------------------------------------------------------------------- ifexp
def _split_ifexp(st):
    if isinstance(st, ast.Assign) and isinstance(st.value, ast.IfExp):
        e = st.value
        mk = lambda v: _loc(ast.Assign(targets=copy.deepcopy(st.targets), value=copy.deepcopy(v)), st)
    elif isinstance(st, ast.AugAssign) and isinstance(st.value, ast.IfExp):
        e = st.value
        mk = lambda v: _loc(ast.AugAssign(target=copy.deepcopy(st.target), op=st.op, value=copy.deepcopy(v)), st)
    elif isinstance(st, ast.Return) and isinstance(st.value, ast.IfExp):
        e = st.value
        mk = lambda v: _loc(ast.Return(value=copy.deepcopy(v)), st)
    elif isinstance(st, ast.Expr) and isinstance(st.value, ast.Call) and isinstance(st.value.func, ast.Attribute) and isinstance(st.value.func.value, ast.Name) \
            and len(st.value.args) == 1 and not st.value.keywords and isinstance(st.value.args[0], ast.IfExp):
        # xs.append(A if c else B)  ->  if c: xs.append(A) else: xs.append(B)     (the receiver is a plain name)
        e = st.value.args[0]

        def mk(v):
            c = copy.deepcopy(st.value)
            c.args = [copy.deepcopy(v)]
            return _loc(ast.Expr(value=c), st)
    else:
        return None
    STATS["ifexp"] += 1
    return [_loc(ast.If(test=copy.deepcopy(e.test), body=[mk(e.body)], orelse=[mk(e.orelse)]), st)]


# ----------------------------------------------------------------------- comp
def _comp_loops(generators, inner, ref):
    """nested For/If statements for the comprehension clauses around `inner`"""
    body = inner
    for g in reversed(generators):
        for cond in reversed(g.ifs):
            body = [_loc(ast.If(test=copy.deepcopy(cond), body=body, orelse=[]), ref)]
        body = [_loc(ast.For(target=copy.deepcopy(g.target), iter=copy.deepcopy(g.iter),
                             body=body, orelse=[]), ref)]
    return body


def _comp_vars(comp):
    out = set()
    for g in comp.generators:
        for n in ast.walk(g.target):
            if isinstance(n, ast.Name):
                out.add(n.id)
    return out


def _prepare_comp(comp, st, fx, occurrences):
    """deep copy of the comprehension with clashing variables renamed, or None"""
    if any(g.is_async for g in comp.generators):
        return None
    c = copy.deepcopy(comp)
    inside = {}
    for n in ast.walk(comp):
        if isinstance(n, ast.Name):
            inside[n.id] = inside.get(n.id, 0) + 1
    mapping = {}
    for v in _comp_vars(comp):
        if occurrences.get(v, 0) > inside.get(v, 0):
            mapping[v] = fx.fresh("v")
    if mapping:
        # the first iterable is evaluated in the enclosing scope
        first = copy.deepcopy(c.generators[0].iter)
        c = _rename(c, mapping)
        c.generators[0].iter = first
    return c


def _lower_comp(st, fx, occurrences):
    """statement-level comprehension -> explicit loop"""
    value = None
    kind = None
    if isinstance(st, ast.Assign) and len(st.targets) == 1 and isinstance(st.value, (ast.ListComp, ast.DictComp)):
        value, kind = st.value, "assign"
    elif isinstance(st, ast.Return) and isinstance(st.value, (ast.ListComp, ast.DictComp)):
        value, kind = st.value, "return"
    if value is None:
        return None
    comp = _prepare_comp(value, st, fx, occurrences)
    if comp is None:
        return None
    tgt = st.targets[0] if kind == "assign" else None
    direct = isinstance(tgt, ast.Name) and tgt.id not in {n.id for n in ast.walk(value) if isinstance(n, ast.Name)}
    acc = tgt.id if direct else fx.fresh("c")
    if isinstance(comp, ast.ListComp):
        init = ast.List(elts=[], ctx=ast.Load())
        inner = [_loc(ast.Expr(value=ast.Call(
            func=ast.Attribute(value=ast.Name(id=acc, ctx=ast.Load()), attr="append", ctx=ast.Load()),
            args=[comp.elt], keywords=[])), st)]
    else:
        init = ast.Dict(keys=[], values=[])
        inner = [_loc(ast.Assign(targets=[ast.Subscript(value=ast.Name(id=acc, ctx=ast.Load()),
                                                        slice=comp.key, ctx=ast.Store())],
                                 value=comp.value), st)]
    out = [_loc(ast.Assign(targets=[ast.Name(id=acc, ctx=ast.Store())], value=init), st)]
    out += _comp_loops(comp.generators, inner, st)
    if kind == "return":
        out.append(_loc(ast.Return(value=ast.Name(id=acc, ctx=ast.Load())), st))
    elif not direct:
        out.append(_loc(ast.Assign(targets=[copy.deepcopy(tgt)], value=ast.Name(id=acc, ctx=ast.Load())), st))
    STATS["comp"] += 1
    return out


def _lower_extend(st, fx, occurrences):
    if not (isinstance(st, ast.Expr) and isinstance(st.value, ast.Call)
            and isinstance(st.value.func, ast.Attribute) and st.value.func.attr == "extend"
            and len(st.value.args) == 1 and not st.value.keywords):
        return None
    recv = st.value.func.value
    if access_path(recv) is None:
        return None
    arg = st.value.args[0]

    def app(e):
        return _loc(ast.Expr(value=ast.Call(
            func=ast.Attribute(value=copy.deepcopy(recv), attr="append", ctx=ast.Load()),
            args=[e], keywords=[])), st)
    if isinstance(arg, (ast.GeneratorExp, ast.ListComp)):
        rp = access_path(recv)
        if any(paths_overlap(rp, p) for p in access_paths_in(arg)):
            return None
        comp = _prepare_comp(arg, st, fx, occurrences)
        if comp is None:
            return None
        STATS["extend"] += 1
        return _comp_loops(comp.generators, [app(comp.elt)], st)
    if isinstance(arg, (ast.List, ast.Tuple)) and arg.elts and not any(isinstance(e, ast.Starred) for e in arg.elts):
        STATS["extend"] += 1
        return [app(copy.deepcopy(e)) for e in arg.elts]
    return None


def _lower_update(st):
    """D.update(a=E1, b=E2) / D.update({'a': E1, 'b': E2}) as a statement, D a plain path and the values not reading D
    -> D['a'] = E1; D['b'] = E2"""
    if not (isinstance(st, ast.Expr) and isinstance(st.value, ast.Call) and isinstance(st.value.func, ast.Attribute) and st.value.func.attr == "update"):
        return None
    c = st.value
    D = c.func.value
    dp = access_path(D)
    if dp is None or not _no_call(D):
        return None
    pairs = []
    if len(c.args) == 1 and not c.keywords and isinstance(c.args[0], ast.Dict) and all(isinstance(k, ast.Constant) and isinstance(k.value, str) for k in c.args[0].keys):
        pairs = [(k.value, v) for k, v in zip(c.args[0].keys, c.args[0].values)]
    elif not c.args and c.keywords and all(k.arg is not None for k in c.keywords):
        pairs = [(k.arg, k.value) for k in c.keywords]
    if not pairs or len(pairs) > 8:
        return None
    root = root_name(D)
    for _, v in pairs:
        if any(isinstance(n, ast.Name) and n.id == root for n in ast.walk(v)) or any(isinstance(n, (ast.Call, ast.NamedExpr, ast.Await, ast.Yield)) for n in ast.walk(v)):
            return None
    STATS["update"] = STATS.get("update", 0) + 1
    return [_loc(ast.Assign(targets=[ast.Subscript(value=copy.deepcopy(D), slice=ast.Constant(value=k), ctx=ast.Store())], value=v), st) for k, v in pairs]


def _lower_setdefault(st):
    # d.setdefault(k, []).append(v)
    if not (isinstance(st, ast.Expr) and isinstance(st.value, ast.Call)
            and isinstance(st.value.func, ast.Attribute) and st.value.func.attr == "append"
            and len(st.value.args) == 1):
        return None
    inner = st.value.func.value
    if not (isinstance(inner, ast.Call) and isinstance(inner.func, ast.Attribute)
            and inner.func.attr == "setdefault" and len(inner.args) == 2
            and isinstance(inner.args[1], ast.List) and not inner.args[1].elts):
        return None
    d, k = inner.func.value, inner.args[0]
    if access_path(d) is None or any(isinstance(n, ast.Call) for n in ast.walk(k)):
        return None
    sub = lambda ctx: ast.Subscript(value=copy.deepcopy(d), slice=copy.deepcopy(k), ctx=ctx)
    STATS["setdefault"] += 1
    return [
        _loc(ast.If(test=ast.Compare(left=copy.deepcopy(k), ops=[ast.NotIn()], comparators=[copy.deepcopy(d)]),
                    body=[ast.Assign(targets=[sub(ast.Store())], value=ast.List(elts=[], ctx=ast.Load()))],
                    orelse=[]), st),
        _loc(ast.Expr(value=ast.Call(func=ast.Attribute(value=sub(ast.Load()), attr="append", ctx=ast.Load()),
                                     args=[copy.deepcopy(st.value.args[0])], keywords=[])), st),
    ]


def _unroll_literal(st):
    """`for v in (a, b, c): body` over a literal of names / attribute paths / field-name strings, and
    `for u, v in ((a, b), (c, d)): body` over a literal of such tuples, become the copies of the body."""
    if not (isinstance(st, ast.For) and not st.orelse
            and isinstance(st.iter, (ast.Tuple, ast.List)) and 1 <= len(st.iter.elts) <= 12):
        return None

    def atom(e):
        return (isinstance(e, (ast.Name, ast.Attribute)) and access_path(e) is not None) or isinstance(e, ast.Constant) or \
            (isinstance(e, ast.UnaryOp) and isinstance(e.op, (ast.USub, ast.UAdd)) and isinstance(e.operand, ast.Constant))
    if isinstance(st.target, ast.Name):
        targets = [st.target.id]
        rows = [[e] for e in st.iter.elts]
        names = all(isinstance(e, (ast.Name, ast.Attribute)) and access_path(e) is not None for e in st.iter.elts)
        strings = all(isinstance(e, ast.Constant) and isinstance(e.value, str) for e in st.iter.elts)      # field names
        if not (names or strings):
            return None          # a loop over literal numbers (signs, factors) is kept: rules read its domain off the literal
    elif isinstance(st.target, ast.Tuple) and all(isinstance(t, ast.Name) for t in st.target.elts):
        targets = [t.id for t in st.target.elts]
        if len(set(targets)) != len(targets):
            return None
        if not all(isinstance(e, (ast.Tuple, ast.List)) and len(e.elts) == len(targets) and all(atom(x) for x in e.elts) for e in st.iter.elts):
            return None
        rows = [list(e.elts) for e in st.iter.elts]
    else:
        return None
    elem_paths = {access_path(x) for r in rows for x in r if isinstance(x, (ast.Name, ast.Attribute))} - {None}
    for n in ast.walk(ast.Module(body=st.body, type_ignores=[])):
        if isinstance(n, (ast.Break, ast.Continue, ast.FunctionDef, ast.Lambda, ast.AsyncFunctionDef)):
            return None
        if isinstance(n, ast.Name) and n.id in targets and not isinstance(n.ctx, ast.Load):
            return None
        if isinstance(n, (ast.Name, ast.Attribute, ast.Subscript)) and not isinstance(n.ctx, ast.Load):
            q = access_path(n)
            # an element rebound inside the body would be read too late by the copies
            if q is not None and any(p_ == q or p_.startswith(q + ".") or p_.startswith(q + "[") for p_ in elem_paths):
                return None
    out = []
    for row in rows:
        m = dict(zip(targets, row))
        for b in st.body:
            c = copy.deepcopy(b)

            class S(ast.NodeTransformer):
                def visit_Name(self, n):
                    if n.id in m and isinstance(n.ctx, ast.Load):
                        return ast.copy_location(copy.deepcopy(m[n.id]), n)
                    return n
            out.append(S().visit(c))
    STATS["unroll"] = STATS.get("unroll", 0) + 1
    return out


_SWAP = {ast.Lt: ast.Gt, ast.Gt: ast.Lt, ast.LtE: ast.GtE, ast.GtE: ast.LtE, ast.Eq: ast.Eq, ast.NotEq: ast.NotEq}
_INV = {ast.Eq: ast.NotEq, ast.NotEq: ast.Eq, ast.Is: ast.IsNot, ast.IsNot: ast.Is, ast.In: ast.NotIn, ast.NotIn: ast.In}


def _is_lit(e):
    if isinstance(e, ast.Constant):
        return True
    return isinstance(e, ast.UnaryOp) and isinstance(e.op, (ast.USub, ast.UAdd)) and isinstance(e.operand, ast.Constant)


def _no_call(e):
    return not any(isinstance(n, (ast.Call, ast.Await, ast.NamedExpr, ast.Yield, ast.YieldFrom)) for n in ast.walk(e))


class _Cmp(ast.NodeTransformer):
    """canonical orientation / negation of comparisons inside one expression"""

    def visit_Compare(self, n):
        self.generic_visit(n)
        if len(n.ops) >= 2 and all(_no_call(c) for c in n.comparators[:-1]) and not any(isinstance(o, (ast.In, ast.NotIn, ast.Is, ast.IsNot)) for o in n.ops):
            # a < b <= c: the middle operands are read once, and they are plain reads -> a < b and b <= c
            STATS["chain"] = STATS.get("chain", 0) + 1
            seq = [n.left] + list(n.comparators)
            parts = [self.visit_Compare(ast.copy_location(ast.Compare(left=copy.deepcopy(seq[i]), ops=[n.ops[i]], comparators=[copy.deepcopy(seq[i + 1])]), n))
                     for i in range(len(n.ops))]
            return ast.copy_location(ast.BoolOp(op=ast.And(), values=parts), n)
        if len(n.ops) == 1 and isinstance(n.ops[0], (ast.In, ast.NotIn)) and isinstance(n.comparators[0], (ast.Tuple, ast.List, ast.Set)) \
                and 1 <= len(n.comparators[0].elts) <= 4 and _no_call(n.left) \
                and all(isinstance(e, ast.Constant) and isinstance(e.value, (int, str)) and not isinstance(e.value, bool) or (isinstance(e, ast.Constant) and e.value is None)
                        for e in n.comparators[0].elts):
            # x in (1, 2)  ->  x == 1 or x == 2     (int / str / None literals: `in` compares by identity-or-equality, the same here)
            STATS["member"] = STATS.get("member", 0) + 1
            is_in = isinstance(n.ops[0], ast.In)
            parts = [ast.copy_location(ast.Compare(left=copy.deepcopy(n.left), ops=[ast.Eq() if is_in else ast.NotEq()], comparators=[e]), n) for e in n.comparators[0].elts]
            if len(parts) == 1:
                return parts[0]
            return ast.copy_location(ast.BoolOp(op=ast.Or() if is_in else ast.And(), values=parts), n)
        if len(n.ops) == 1 and type(n.ops[0]) in _SWAP and _is_lit(n.left) and not _is_lit(n.comparators[0]) and _no_call(n.comparators[0]):
            STATS["compare"] = STATS.get("compare", 0) + 1
            return ast.copy_location(ast.Compare(left=n.comparators[0], ops=[_SWAP[type(n.ops[0])]()], comparators=[n.left]), n)
        return n

    def visit_UnaryOp(self, n):
        self.generic_visit(n)
        if isinstance(n.op, ast.Not) and isinstance(n.operand, ast.Compare) and len(n.operand.ops) == 1 and type(n.operand.ops[0]) in _INV:
            c = n.operand
            STATS["compare"] = STATS.get("compare", 0) + 1
            return ast.copy_location(ast.Compare(left=c.left, ops=[_INV[type(c.ops[0])]()], comparators=c.comparators), n)
        if isinstance(n.op, ast.Not) and isinstance(n.operand, ast.UnaryOp) and isinstance(n.operand.op, ast.Not) and False:
            return n
        return n

    def visit_Call(self, n):
        self.generic_visit(n)
        f = access_path(n.func) or ""
        # f(a, key=v) on a function of the package whose every definition has the same parameter list: the keywords that
        # continue the positional arguments become positional (one spelling for a call)
        if n.keywords and all(k.arg is not None for k in n.keywords) and not any(isinstance(a, ast.Starred) for a in n.args):
            nm_ = n.func.attr if isinstance(n.func, ast.Attribute) else (n.func.id if isinstance(n.func, ast.Name) else None)
            ps_ = SIGS.get(nm_)
            if ps_ is not None and len(n.args) < len(ps_):
                kw = {k.arg: k for k in n.keywords}
                moved = []
                for p_ in ps_[len(n.args):]:
                    if p_ in kw:
                        moved.append(kw.pop(p_))
                    else:
                        break
                if moved and all(k.arg in ps_ for k in n.keywords):
                    # evaluation order: keywords are evaluated in their written order; only a prefix that is already in
                    # parameter order among the written keywords may move without reordering effects, unless the values are call free
                    written = [k for k in n.keywords if k in moved]
                    if written == moved or all(_no_call(k.value) for k in n.keywords):
                        n.args = list(n.args) + [k.value for k in moved]
                        n.keywords = [k for k in n.keywords if k not in moved]
                        STATS["kw_pos"] = STATS.get("kw_pos", 0) + 1
        # (lambda a, b: E)(x, y) with plain arguments: E[a := x, b := y]
        if isinstance(n.func, ast.Lambda) and not n.keywords and not n.func.args.defaults and not n.func.args.vararg and not n.func.args.kwarg \
                and not n.func.args.kwonlyargs and len(n.args) == len(n.func.args.args) and all(_no_call(a) and not isinstance(a, ast.Starred) for a in n.args) \
                and not any(isinstance(x, (ast.ListComp, ast.SetComp, ast.DictComp, ast.GeneratorExp, ast.NamedExpr)) for x in ast.walk(n.func.body)) \
                and not any(isinstance(x, ast.Lambda) and x is not n.func.body for x in ast.walk(n.func.body)) \
                and not (isinstance(n.func.body, ast.Lambda) and ({a.arg for a in n.func.body.args.args} & {y.id for a_ in n.args for y in ast.walk(a_) if isinstance(y, ast.Name)}
                                                                   or any(isinstance(x, ast.Lambda) for x in ast.walk(n.func.body.body)))):
            m = dict(zip([a.arg for a in n.func.args.args], n.args))

            class B(ast.NodeTransformer):
                def visit_Name(self, x):
                    if x.id in m and isinstance(x.ctx, ast.Load):
                        return _loc(copy.deepcopy(m[x.id]), x)
                    return x
            STATS["beta"] = STATS.get("beta", 0) + 1
            return _loc(B().visit(copy.deepcopy(n.func.body)), n)
        # list(map(F, X, ..)) / list(starmap(F, P))  ->  [F(x, ..) for x, .. in zip(X, ..)] / [F(*p) ...] with the pairs unpacked
        if f in ("list", "tuple") and len(n.args) == 1 and not n.keywords and isinstance(n.args[0], ast.Call) and not n.args[0].keywords:
            inner = n.args[0]
            fi = (access_path(inner.func) or "").split(".")[-1]
            comp = None
            if fi == "map" and len(inner.args) >= 2 and isinstance(inner.args[0], (ast.Name, ast.Attribute, ast.Lambda)) \
                    and not any(isinstance(a, ast.Starred) for a in inner.args):
                F, seqs = inner.args[0], inner.args[1:]
                vs = ["__m%d_%d" % (getattr(n, "lineno", 0), k) for k in range(len(seqs))]
                call = ast.Call(func=copy.deepcopy(F), args=[ast.Name(id=v, ctx=ast.Load()) for v in vs], keywords=[])
                if len(seqs) == 1:
                    gen = ast.comprehension(target=ast.Name(id=vs[0], ctx=ast.Store()), iter=seqs[0], ifs=[], is_async=0)
                else:
                    gen = ast.comprehension(target=ast.Tuple(elts=[ast.Name(id=v, ctx=ast.Store()) for v in vs], ctx=ast.Store()),
                                            iter=ast.Call(func=ast.Name(id="zip", ctx=ast.Load()), args=list(seqs), keywords=[]), ifs=[], is_async=0)
                comp = ast.ListComp(elt=call, generators=[gen])
            elif fi == "starmap" and len(inner.args) == 2 and isinstance(inner.args[0], (ast.Name, ast.Attribute, ast.Lambda)) \
                    and isinstance(inner.args[1], ast.Call) and isinstance(inner.args[1].func, ast.Name) and inner.args[1].func.id in ("enumerate", "zip") \
                    and not inner.args[1].keywords:
                F, P = inner.args
                k_ = 2 if P.func.id == "enumerate" else len(P.args)
                if (P.func.id == "enumerate" and len(P.args) == 1) or (P.func.id == "zip" and k_ >= 1):
                    vs = ["__m%d_%d" % (getattr(n, "lineno", 0), k) for k in range(k_)]
                    call = ast.Call(func=copy.deepcopy(F), args=[ast.Name(id=v, ctx=ast.Load()) for v in vs], keywords=[])
                    tg = ast.Tuple(elts=[ast.Name(id=v, ctx=ast.Store()) for v in vs], ctx=ast.Store()) if k_ > 1 else ast.Name(id=vs[0], ctx=ast.Store())
                    comp = ast.ListComp(elt=call, generators=[ast.comprehension(target=tg, iter=P, ifs=[], is_async=0)])
            if comp is not None:
                STATS["map_comp"] = STATS.get("map_comp", 0) + 1
                out = _loc(comp, n)
                return out if f == "list" else _loc(ast.Call(func=ast.Name(id="tuple", ctx=ast.Load()), args=[comp], keywords=[]), n)
        # consumers that read their whole argument: a generator argument is the list of the same elements
        if f in ("sum", "min", "max", "sorted", "list", "tuple", "set", "frozenset", "math.fsum", "np.sum", "numpy.sum") and n.args \
                and isinstance(n.args[0], ast.GeneratorExp):
            STATS["genexp"] = STATS.get("genexp", 0) + 1
            g = n.args[0]
            n.args[0] = ast.copy_location(ast.ListComp(elt=g.elt, generators=g.generators), g)
            return n
        # operator.attrgetter("a.b") / itemgetter(k) as the lambda they stand for
        if f.split(".")[-1] == "attrgetter" and len(n.args) == 1 and not n.keywords and isinstance(n.args[0], ast.Constant) \
                and isinstance(n.args[0].value, str) and all(p_.isidentifier() for p_ in n.args[0].value.split(".")):
            body = ast.Name(id="__o", ctx=ast.Load())
            for p_ in n.args[0].value.split("."):
                body = ast.Attribute(value=body, attr=p_, ctx=ast.Load())
            STATS["getter"] = STATS.get("getter", 0) + 1
            return _loc(ast.Lambda(args=ast.arguments(posonlyargs=[], args=[ast.arg(arg="__o")], kwonlyargs=[], kw_defaults=[], defaults=[]), body=body), n)
        if f.split(".")[-1] == "itemgetter" and len(n.args) >= 2 and not n.keywords and all(isinstance(a, ast.Constant) for a in n.args):
            body = ast.Tuple(elts=[ast.Subscript(value=ast.Name(id="__o", ctx=ast.Load()), slice=a, ctx=ast.Load()) for a in n.args], ctx=ast.Load())
            STATS["getter"] = STATS.get("getter", 0) + 1
            return _loc(ast.Lambda(args=ast.arguments(posonlyargs=[], args=[ast.arg(arg="__o")], kwonlyargs=[], kw_defaults=[], defaults=[]), body=body), n)
        if f.split(".")[-1] == "itemgetter" and len(n.args) == 1 and not n.keywords and isinstance(n.args[0], ast.Constant):
            body = ast.Subscript(value=ast.Name(id="__o", ctx=ast.Load()), slice=n.args[0], ctx=ast.Load())
            STATS["getter"] = STATS.get("getter", 0) + 1
            return _loc(ast.Lambda(args=ast.arguments(posonlyargs=[], args=[ast.arg(arg="__o")], kwonlyargs=[], kw_defaults=[], defaults=[]), body=body), n)
        return n

    def visit_Lambda(self, n):
        return n


def _canon_exprs(st):
    """apply _Cmp to the expressions a statement owns (not to nested statements)"""
    for f, v in ast.iter_fields(st):
        if isinstance(v, ast.expr):
            setattr(st, f, _Attr().visit(_Cmp().visit(v)))
        elif isinstance(v, list) and v and isinstance(v[0], ast.expr):
            setattr(st, f, [_Attr().visit(_Cmp().visit(x)) for x in v])
    if isinstance(st, (ast.With, ast.AsyncWith)):
        for it in st.items:
            it.context_expr = _Cmp().visit(it.context_expr)


class _Attr(ast.NodeTransformer):
    def visit_Call(self, n):
        self.generic_visit(n)
        if isinstance(n.func, ast.Name) and n.func.id == "getattr" and len(n.args) == 2 and not n.keywords \
                and isinstance(n.args[1], ast.Constant) and isinstance(n.args[1].value, str) and n.args[1].value.isidentifier():
            return ast.copy_location(ast.Attribute(value=n.args[0], attr=n.args[1].value, ctx=ast.Load()), n)
        if (access_path(n.func) or "") in ("itertools.islice", "islice") and 2 <= len(n.args) <= 3 and not n.keywords and access_path(n.args[0]) is not None:
            # islice(X, n) over a sequence named by a path visits X[:n]; islice(X, a, b) visits X[a:b]
            STATS["islice"] = STATS.get("islice", 0) + 1
            lo, hi = (None, n.args[1]) if len(n.args) == 2 else (n.args[1], n.args[2])
            lo = None if lo is not None and isinstance(lo, ast.Constant) and lo.value in (0, None) else lo
            hi = None if hi is not None and isinstance(hi, ast.Constant) and hi.value is None else hi
            return self.visit_Subscript(ast.copy_location(ast.Subscript(value=n.args[0], slice=ast.Slice(lower=lo, upper=hi, step=None), ctx=ast.Load()), n))
        return n

    def visit_Subscript(self, n):
        self.generic_visit(n)
        # X[.. : len(X) - k]  ->  X[.. : -k]   (k a positive literal)
        if isinstance(n.slice, ast.Slice) and n.slice.step is None and isinstance(n.slice.upper, ast.BinOp) and isinstance(n.slice.upper.op, ast.Sub) \
                and isinstance(n.slice.upper.right, ast.Constant) and isinstance(n.slice.upper.right.value, int) and not isinstance(n.slice.upper.right.value, bool) \
                and n.slice.upper.right.value > 0 and isinstance(n.slice.upper.left, ast.Call) and access_path(n.slice.upper.left.func) == "len" \
                and len(n.slice.upper.left.args) == 1 and access_path(n.slice.upper.left.args[0]) is not None \
                and access_path(n.slice.upper.left.args[0]) == access_path(n.value):
            STATS["neg_slice"] = STATS.get("neg_slice", 0) + 1
            n.slice.upper = ast.copy_location(ast.UnaryOp(op=ast.USub(), operand=ast.Constant(value=n.slice.upper.right.value)), n.slice.upper)
        return n

    def visit_Lambda(self, n):
        return n


def _setattr(st):
    if isinstance(st, ast.Expr) and isinstance(st.value, ast.Call) and isinstance(st.value.func, ast.Name) and st.value.func.id == "setattr" \
            and len(st.value.args) == 3 and not st.value.keywords and isinstance(st.value.args[1], ast.Constant) \
            and isinstance(st.value.args[1].value, str) and st.value.args[1].value.isidentifier() and access_path(st.value.args[0]) is not None:
        a = st.value.args
        STATS["setattr"] = STATS.get("setattr", 0) + 1
        return [_loc(ast.Assign(targets=[ast.Attribute(value=a[0], attr=a[1].value, ctx=ast.Store())], value=a[2]), st)]
    return None


def _swap_not(st):
    if isinstance(st, ast.If) and st.orelse and isinstance(st.test, ast.UnaryOp) and isinstance(st.test.op, ast.Not):
        STATS["compare"] = STATS.get("compare", 0) + 1
        return [_loc(ast.If(test=st.test.operand, body=st.orelse, orelse=st.body), st)]
    return None


def _unenum(st):
    if not (isinstance(st, ast.For) and isinstance(st.iter, ast.Call) and isinstance(st.iter.func, ast.Name) and st.iter.func.id == "enumerate"
            and len(st.iter.args) == 1 and not st.iter.keywords and isinstance(st.target, ast.Tuple) and len(st.target.elts) == 2
            and isinstance(st.target.elts[0], ast.Name)):
        return None
    idx = st.target.elts[0].id
    used = sum(1 for b in st.body + st.orelse for n in ast.walk(b) if isinstance(n, ast.Name) and n.id == idx)
    if used:
        return None
    return idx


ENUM = [os.environ.get("VERIF_ENUM", "1") != "0"]


def _enum_to_range(st):
    """`for i, v in enumerate(X): body` with X a plain path that the body does not rebind or resize becomes
    `for i in range(len(X)): body[v := X[i]]` (one spelling for indexed traversals)"""
    if not ENUM[0]:
        return None
    if not (isinstance(st, ast.For) and isinstance(st.iter, ast.Call) and isinstance(st.iter.func, ast.Name) and st.iter.func.id == "enumerate"
            and len(st.iter.args) == 1 and not st.iter.keywords and isinstance(st.target, ast.Tuple) and len(st.target.elts) == 2
            and isinstance(st.target.elts[0], ast.Name) and isinstance(st.target.elts[1], ast.Name) and not st.orelse):
        return None
    X = st.iter.args[0]
    xp = access_path(X)
    if xp is None or any(isinstance(n, ast.Subscript) for n in ast.walk(X)):
        return None
    idx, v = st.target.elts[0].id, st.target.elts[1].id
    if idx == v or root_name(X) in (idx, v):
        return None
    for b in st.body:
        for n in ast.walk(b):
            if isinstance(n, ast.Name) and n.id in (idx, v) and not isinstance(n.ctx, ast.Load):
                return None
            if isinstance(n, (ast.Name, ast.Attribute, ast.Subscript)) and not isinstance(n.ctx, ast.Load):
                q = access_path(n)
                if q is not None and (q == xp or xp.startswith(q + ".") or q.startswith(xp + "[")):
                    return None      # the sequence (or an element slot of it) is stored to inside the loop
                if q is None and root_name(n) == root_name(X):
                    return None
            if isinstance(n, ast.Call) and isinstance(n.func, ast.Attribute) and n.func.attr in _MUTATORS and access_path(n.func.value) == xp:
                return None
            if isinstance(n, (ast.FunctionDef, ast.AsyncFunctionDef, ast.Lambda)):
                return None
    elem = ast.Subscript(value=copy.deepcopy(X), slice=ast.Name(id=idx, ctx=ast.Load()), ctx=ast.Load())

    class S(ast.NodeTransformer):
        def visit_Name(self, n):
            if n.id == v and isinstance(n.ctx, ast.Load):
                return _loc(copy.deepcopy(elem), n)
            return n
    new = ast.For(target=ast.Name(id=idx, ctx=ast.Store()),
                  iter=ast.Call(func=ast.Name(id="range", ctx=ast.Load()),
                                args=[ast.Call(func=ast.Name(id="len", ctx=ast.Load()), args=[copy.deepcopy(X)], keywords=[])], keywords=[]),
                  body=[S().visit(b) for b in st.body], orelse=[])
    STATS["enum_range"] = STATS.get("enum_range", 0) + 1
    return [_loc(new, st)]


def _product_loop(st):
    """for a, b in itertools.product(A, B): body  ->  for a in A: for b in B: body    (B is a literal or a range: iterating it
    again for every a gives the same elements)"""
    if not (isinstance(st, ast.For) and not st.orelse and isinstance(st.iter, ast.Call) and (access_path(st.iter.func) or "").split(".")[-1] == "product"
            and not st.iter.keywords and isinstance(st.target, ast.Tuple) and len(st.target.elts) == len(st.iter.args) >= 2
            and all(isinstance(t, ast.Name) for t in st.target.elts)):
        return None
    def rerunnable(e):
        return isinstance(e, (ast.Tuple, ast.List)) and all(isinstance(x, (ast.Constant, ast.UnaryOp)) for x in e.elts) or \
            (isinstance(e, ast.Call) and isinstance(e.func, ast.Name) and e.func.id == "range" and all(_no_call(a) or (isinstance(a, ast.Call) and access_path(a.func) == "len") for a in e.args))
    if not all(rerunnable(a) for a in st.iter.args):
        return None
    names = {t.id for t in st.target.elts}
    reads = {n.id for a in st.iter.args for n in ast.walk(a) if isinstance(n, ast.Name)}
    for b in st.body:
        for n in ast.walk(b):
            if isinstance(n, (ast.Break, ast.Continue)):
                return None          # they would act on the innermost loop only
            if isinstance(n, ast.Name) and not isinstance(n.ctx, ast.Load) and (n.id in names or n.id in reads):
                return None
    body = st.body
    for t, a in reversed(list(zip(st.target.elts, st.iter.args))):
        body = [_loc(ast.For(target=ast.Name(id=t.id, ctx=ast.Store()), iter=a, body=body, orelse=[]), st)]
    STATS["product"] = STATS.get("product", 0) + 1
    return body


def _filter_map_loop(st, fx):
    """for x in filter(P, X): body  ->  for x in X: if not P(x): continue; body        (filter is lazy: P(x) is evaluated just
    before x is handed out)
    for y in map(F, X): body     ->  for m in X: y = F(m); body"""
    if isinstance(st, ast.For) and not st.orelse and isinstance(st.iter, ast.Call) and isinstance(st.iter.func, ast.Name) and st.iter.func.id == "map" \
            and len(st.iter.args) >= 3 and not st.iter.keywords and not any(isinstance(a, ast.Starred) for a in st.iter.args) \
            and isinstance(st.iter.args[0], (ast.Name, ast.Lambda, ast.Attribute)):
        # for y in map(F, A, B): body  ->  for a, b in zip(A, B): y = F(a, b); body
        F, seqs = st.iter.args[0], st.iter.args[1:]
        ms = [fx.fresh("m") for _ in seqs]
        bind = ast.Assign(targets=[st.target], value=ast.Call(func=copy.deepcopy(F), args=[ast.Name(id=m, ctx=ast.Load()) for m in ms], keywords=[]))
        new = ast.For(target=ast.Tuple(elts=[ast.Name(id=m, ctx=ast.Store()) for m in ms], ctx=ast.Store()),
                      iter=ast.Call(func=ast.Name(id="zip", ctx=ast.Load()), args=list(seqs), keywords=[]), body=[bind] + st.body, orelse=[])
        STATS["filter_map"] = STATS.get("filter_map", 0) + 1
        return [_loc(new, st)]
    if not (isinstance(st, ast.For) and not st.orelse and isinstance(st.iter, ast.Call) and isinstance(st.iter.func, ast.Name)
            and st.iter.func.id in ("filter", "map") and len(st.iter.args) == 2 and not st.iter.keywords):
        return None
    F, X = st.iter.args
    if not isinstance(F, (ast.Name, ast.Lambda, ast.Attribute, ast.Constant)) or any(isinstance(a, ast.Starred) for a in st.iter.args):
        return None
    if isinstance(F, ast.Name) and any(isinstance(n, ast.Name) and n.id == F.id and not isinstance(n.ctx, ast.Load) for b in st.body for n in ast.walk(b)):
        return None
    if st.iter.func.id == "filter":
        if not isinstance(st.target, ast.Name):
            return None
        x = ast.Name(id=st.target.id, ctx=ast.Load())
        test = x if (isinstance(F, ast.Constant) and F.value is None) else ast.Call(func=copy.deepcopy(F), args=[x], keywords=[])
        guard = ast.If(test=ast.UnaryOp(op=ast.Not(), operand=test), body=[ast.Continue()], orelse=[])
        new = ast.For(target=st.target, iter=X, body=[guard] + st.body, orelse=[])
    else:
        if isinstance(F, ast.Constant):
            return None
        m = fx.fresh("m")
        bind = ast.Assign(targets=[st.target], value=ast.Call(func=copy.deepcopy(F), args=[ast.Name(id=m, ctx=ast.Load())], keywords=[]))
        new = ast.For(target=ast.Name(id=m, ctx=ast.Store()), iter=X, body=[bind] + st.body, orelse=[])
    STATS["filter_map"] = STATS.get("filter_map", 0) + 1
    return [_loc(new, st)]


def _dict_view(it):
    """(dict expr, kind) for D.values() / D.items() / D.keys() with D a plain path"""
    if isinstance(it, ast.Call) and isinstance(it.func, ast.Attribute) and it.func.attr in ("values", "items", "keys") and not it.args and not it.keywords \
            and access_path(it.func.value) is not None and not any(isinstance(n, ast.Subscript) for n in ast.walk(it.func.value)):
        return it.func.value, it.func.attr
    return None


def _stores_into(nodes, path, names):
    for b in nodes:
        for n in ast.walk(b):
            if isinstance(n, ast.Name) and n.id in names and not isinstance(n.ctx, ast.Load):
                return True
            if isinstance(n, (ast.Name, ast.Attribute, ast.Subscript)) and not isinstance(n.ctx, ast.Load):
                q = access_path(n)
                if q is not None and (q == path or path.startswith(q + ".") or q.startswith(path + "[") or q.startswith(path + ".")):
                    return True
                if q is None and root_name(n) == path.split(".")[0]:
                    return True
            if isinstance(n, ast.Call) and isinstance(n.func, ast.Attribute) and n.func.attr in _MUTATORS and access_path(n.func.value) == path:
                return True
            if isinstance(n, (ast.FunctionDef, ast.AsyncFunctionDef, ast.Lambda)):
                return True
    return False


def _dict_loop(st, fx):
    """for v in D.values() / for k, v in D.items() / for k in D.keys()  ->  for k in D  with v read as D[k]
    (D a plain path that the body leaves alone): one spelling for walking a dictionary"""
    if not (isinstance(st, ast.For) and not st.orelse):
        return None
    dv = _dict_view(st.iter)
    if dv is None:
        return None
    D, kind = dv
    dp = access_path(D)
    if root_name(D) not in fx.params:
        return None          # a dictionary the function builds itself is left as written (the rules follow its construction)
    if kind == "keys":
        st.iter = D
        return [st]
    if kind == "values" and isinstance(st.target, ast.Name):
        k, v = fx.fresh("k"), st.target.id
    elif kind == "items" and isinstance(st.target, ast.Tuple) and len(st.target.elts) == 2 and all(isinstance(t, ast.Name) for t in st.target.elts):
        k, v = st.target.elts[0].id, st.target.elts[1].id
    else:
        return None
    if k == v or root_name(D) in (k, v) or _stores_into(st.body, dp, {k, v}):
        return None
    elem = ast.Subscript(value=copy.deepcopy(D), slice=ast.Name(id=k, ctx=ast.Load()), ctx=ast.Load())

    class S(ast.NodeTransformer):
        def visit_Name(self, n):
            if n.id == v and isinstance(n.ctx, ast.Load):
                return _loc(copy.deepcopy(elem), n)
            return n
    new = ast.For(target=ast.Name(id=k, ctx=ast.Store()), iter=D, body=[S().visit(b) for b in st.body], orelse=[])
    STATS["dict_loop"] = STATS.get("dict_loop", 0) + 1
    return [_loc(new, st)]


class _DictComp(ast.NodeTransformer):
    """the same inside comprehensions: [f(v) for v in D.values()] -> [f(D[k]) for k in D]"""

    def __init__(self, fx):
        self.fx = fx

    def _comp(self, n):
        self.generic_visit(n)
        for g in n.generators:
            dv = _dict_view(g.iter)
            if dv is None or g.is_async:
                continue
            D, kind = dv
            if root_name(D) not in self.fx.params:
                continue
            if kind == "keys":
                g.iter = D
                continue
            if kind == "values" and isinstance(g.target, ast.Name):
                k, v = self.fx.fresh("k"), g.target.id
            elif kind == "items" and isinstance(g.target, ast.Tuple) and len(g.target.elts) == 2 and all(isinstance(t, ast.Name) for t in g.target.elts):
                k, v = g.target.elts[0].id, g.target.elts[1].id
            else:
                continue
            if k == v or root_name(D) in (k, v):
                continue
            elem = ast.Subscript(value=copy.deepcopy(D), slice=ast.Name(id=k, ctx=ast.Load()), ctx=ast.Load())

            class S(ast.NodeTransformer):
                def visit_Name(self, m):
                    if m.id == v and isinstance(m.ctx, ast.Load):
                        return _loc(copy.deepcopy(elem), m)
                    return m
            later = n.generators[n.generators.index(g) + 1:]
            g.ifs = [S().visit(i_) for i_ in g.ifs]
            for g2 in later:
                g2.iter = S().visit(g2.iter)
                g2.ifs = [S().visit(i_) for i_ in g2.ifs]
            if isinstance(n, ast.DictComp):
                n.key, n.value = S().visit(n.key), S().visit(n.value)
            else:
                n.elt = S().visit(n.elt)
            g.target = ast.Name(id=k, ctx=ast.Store())
            g.iter = D
            STATS["dict_loop"] = STATS.get("dict_loop", 0) + 1
        return n

    visit_ListComp = visit_SetComp = visit_GeneratorExp = visit_DictComp = _comp

    def visit_Call(self, n):
        self.generic_visit(n)
        # list(D.values()) -> [D[k] for k in D]
        if isinstance(n.func, ast.Name) and n.func.id == "list" and len(n.args) == 1 and not n.keywords:
            dv = _dict_view(n.args[0])
            if dv is not None and dv[1] == "values" and root_name(dv[0]) in self.fx.params:
                k = self.fx.fresh("k")
                D = dv[0]
                STATS["dict_loop"] = STATS.get("dict_loop", 0) + 1
                return _loc(ast.ListComp(elt=ast.Subscript(value=copy.deepcopy(D), slice=ast.Name(id=k, ctx=ast.Load()), ctx=ast.Load()),
                                         generators=[ast.comprehension(target=ast.Name(id=k, ctx=ast.Store()), iter=copy.deepcopy(D), ifs=[], is_async=0)]), n)
        return n

    def visit_Lambda(self, n):
        return n


def _combinations_loop(st, fx):
    """for i, j in itertools.combinations(range(N), 2)  ->  for i in range(N - 1): for j in range(i + 1, N)
    (the pairs i < j in lexicographic order); wrapped in enumerate(.., start) a pair counter is kept beside the loops"""
    if not (isinstance(st, ast.For) and not st.orelse):
        return None
    it, tgt = st.iter, st.target
    counter = start = None
    if isinstance(it, ast.Call) and isinstance(it.func, ast.Name) and it.func.id == "enumerate" and it.args and isinstance(tgt, ast.Tuple) and len(tgt.elts) == 2 \
            and isinstance(tgt.elts[0], ast.Name):
        start = ast.Constant(value=0)
        if len(it.args) == 2:
            start = it.args[1]
        for kw in it.keywords:
            if kw.arg == "start":
                start = kw.value
            else:
                return None
        if not (isinstance(start, ast.Constant) and isinstance(start.value, int)):
            return None
        counter = tgt.elts[0].id
        it, tgt = it.args[0], tgt.elts[1]
    if not (isinstance(it, ast.Call) and (access_path(it.func) or "").split(".")[-1] == "combinations" and len(it.args) == 2 and not it.keywords
            and isinstance(it.args[1], ast.Constant) and it.args[1].value == 2):
        return None
    rng = it.args[0]
    if not (isinstance(rng, ast.Call) and isinstance(rng.func, ast.Name) and rng.func.id == "range" and len(rng.args) == 1 and _no_call(rng.args[0])):
        return None
    if not (isinstance(tgt, ast.Tuple) and len(tgt.elts) == 2 and all(isinstance(t, ast.Name) for t in tgt.elts)):
        return None
    i, j = tgt.elts[0].id, tgt.elts[1].id
    N = rng.args[0]
    names = {i, j} | ({counter} if counter else set())
    for b in st.body:
        for n in ast.walk(b):
            if isinstance(n, (ast.Continue, ast.Break, ast.FunctionDef, ast.Lambda)):
                return None
            if isinstance(n, ast.Name) and not isinstance(n.ctx, ast.Load) and (n.id in names or n.id in {m.id for m in ast.walk(N) if isinstance(m, ast.Name)}):
                return None
    body = list(st.body)
    pre = []
    if counter:
        # the counter holds the number of the current pair; it is advanced at the end of the pair's iteration
        pre = [ast.Assign(targets=[ast.Name(id=counter, ctx=ast.Store())], value=copy.deepcopy(start))]
        body = body + [ast.AugAssign(target=ast.Name(id=counter, ctx=ast.Store()), op=ast.Add(), value=ast.Constant(value=1))]
    inner = ast.For(target=ast.Name(id=j, ctx=ast.Store()),
                    iter=ast.Call(func=ast.Name(id="range", ctx=ast.Load()),
                                  args=[ast.BinOp(left=ast.Name(id=i, ctx=ast.Load()), op=ast.Add(), right=ast.Constant(value=1)), copy.deepcopy(N)], keywords=[]),
                    body=body, orelse=[])
    outer = ast.For(target=ast.Name(id=i, ctx=ast.Store()),
                    iter=ast.Call(func=ast.Name(id="range", ctx=ast.Load()),
                                  args=[ast.BinOp(left=copy.deepcopy(N), op=ast.Sub(), right=ast.Constant(value=1))], keywords=[]),
                    body=[inner], orelse=[])
    STATS["combinations"] = STATS.get("combinations", 0) + 1
    return [_loc(x, st) for x in pre + [outer]]


def _terminates(stmts):
    return bool(stmts) and isinstance(stmts[-1], (ast.Return, ast.Raise, ast.Continue, ast.Break))


def _while_to_for(stmts, k, fn_tail_reads):
    """stmts[k] is a While: the replacement For (and the index of the initialisation to drop) or None"""
    w = stmts[k]
    if w.orelse or not w.body:
        return None
    t = w.test
    if not (isinstance(t, ast.Compare) and len(t.ops) == 1 and isinstance(t.ops[0], (ast.Lt, ast.LtE)) and isinstance(t.left, ast.Name)):
        return None
    i = t.left.id
    N = t.comparators[0]
    inclusive = isinstance(t.ops[0], ast.LtE)
    for n in ast.walk(N):
        if isinstance(n, ast.Call) and not (isinstance(n.func, ast.Name) and n.func.id == "len" and len(n.args) == 1):
            return None
    last = _as_increment(w.body[-1])
    if last is None or last.target.id != i:
        return None
    inner = ast.Module(body=w.body[:-1], type_ignores=[])
    for n in ast.walk(inner):
        if isinstance(n, ast.Continue):
            return None
        if isinstance(n, ast.Name) and n.id == i and isinstance(n.ctx, (ast.Store, ast.Del)):
            return None
        if isinstance(n, (ast.FunctionDef, ast.Lambda)):
            return None
    # N must denote the same number in every iteration
    n_reads = access_paths_in(N)
    for s_ in w.body[:-1]:
        for n in ast.walk(s_):
            if isinstance(n, (ast.Name, ast.Attribute, ast.Subscript)) and isinstance(getattr(n, "ctx", None), (ast.Store, ast.Del)):
                p_ = access_path(n) or root_name(n)
                if p_ and any(paths_overlap(p_, r) for r in n_reads):
                    return None
            if isinstance(n, ast.Call) and isinstance(n.func, ast.Attribute):
                p_ = access_path(n.func.value)
                if p_ and any(paths_overlap(p_, r) for r in n_reads) and n.func.attr in (
                        "append", "extend", "insert", "remove", "pop", "clear", "sort", "reverse", "update", "add", "discard"):
                    return None
    # initialisation: the nearest preceding statement must be `i = <start>` (only simple statements not touching i in between)
    init = None
    for j in range(k - 1, -1, -1):
        s_ = stmts[j]
        if isinstance(s_, ast.Assign) and len(s_.targets) == 1 and isinstance(s_.targets[0], ast.Name) and s_.targets[0].id == i:
            init = j
            break
        if not isinstance(s_, (ast.Assign, ast.AugAssign, ast.Expr)) or any(isinstance(n, ast.Name) and n.id == i for n in ast.walk(s_)):
            return None
    if init is None:
        return None
    start = stmts[init].value
    if any(isinstance(n, ast.Call) for n in ast.walk(start)):
        return None
    # i must be dead after the loop
    for s_ in stmts[k + 1:]:
        for n in ast.walk(s_):
            if isinstance(n, ast.Name) and n.id == i:
                return None
    if fn_tail_reads(i):
        return None
    stop = copy.deepcopy(N)
    if inclusive:
        # i <= N over integers steps of one: range(a, N + 1)   (N must be an integer for range, as for the original count)
        stop = ast.BinOp(left=stop, op=ast.Add(), right=ast.Constant(value=1))
    args = [stop] if (isinstance(start, ast.Constant) and start.value == 0) else [copy.deepcopy(start), stop]
    loop = ast.For(target=ast.Name(id=i, ctx=ast.Store()), iter=ast.Call(func=ast.Name(id="range", ctx=ast.Load()), args=args, keywords=[]),
                   body=w.body[:-1] or [ast.Pass()], orelse=[])
    STATS["while"] = STATS.get("while", 0) + 1
    return _loc(loop, w), init


def _as_increment(st):
    """`c += 1` (also written `c = c + 1` / `c = 1 + c`) as an AugAssign node, else None"""
    if isinstance(st, ast.AugAssign) and isinstance(st.target, ast.Name) and isinstance(st.op, ast.Add) \
            and isinstance(st.value, ast.Constant) and st.value.value == 1 and not isinstance(st.value.value, bool):
        return st
    if isinstance(st, ast.Assign) and len(st.targets) == 1 and isinstance(st.targets[0], ast.Name) and isinstance(st.value, ast.BinOp) \
            and isinstance(st.value.op, ast.Add):
        for a, b in ((st.value.left, st.value.right), (st.value.right, st.value.left)):
            if isinstance(a, ast.Name) and a.id == st.targets[0].id and isinstance(b, ast.Constant) and b.value == 1 and not isinstance(b.value, bool):
                return ast.copy_location(ast.AugAssign(target=ast.Name(id=a.id, ctx=ast.Store()), op=ast.Add(), value=b), st)
    return None


def _counter_to_enum(stmts, k, fn_tail_reads):
    """stmts[k] is `for v in X: ...; c += 1` with `c = K` (literal) as the nearest preceding statement on c and c dead
    afterwards: the replacement `for c, v in enumerate(X, K)` and the index of the initialisation, or None"""
    lp = stmts[k]
    if lp.orelse or len(lp.body) < 2 or not isinstance(lp.target, (ast.Name, ast.Tuple)):
        return None
    if isinstance(lp.iter, ast.Call) and isinstance(lp.iter.func, ast.Name) and lp.iter.func.id in ("enumerate", "range"):
        return None
    last = _as_increment(lp.body[-1])
    if last is None:
        return None
    c = last.target.id
    if any(isinstance(n, ast.Name) and n.id == c for n in ast.walk(lp.target)) or any(isinstance(n, ast.Name) and n.id == c for n in ast.walk(lp.iter)):
        return None
    inner = ast.Module(body=lp.body[:-1], type_ignores=[])
    for n in ast.walk(inner):
        if isinstance(n, ast.Continue):
            return None
        if isinstance(n, ast.Name) and n.id == c and isinstance(n.ctx, (ast.Store, ast.Del)):
            return None
        if isinstance(n, (ast.FunctionDef, ast.Lambda)):
            return None
    init = None
    for j in range(k - 1, -1, -1):
        s_ = stmts[j]
        if isinstance(s_, ast.Assign) and len(s_.targets) == 1 and isinstance(s_.targets[0], ast.Name) and s_.targets[0].id == c:
            init = j
            break
        if not isinstance(s_, (ast.Assign, ast.AugAssign, ast.Expr)) or any(isinstance(n, ast.Name) and n.id == c for n in ast.walk(s_)):
            return None
    if init is None:
        return None
    start = stmts[init].value
    if not (isinstance(start, ast.Constant) and isinstance(start.value, int) and not isinstance(start.value, bool)):
        return None
    for s_ in stmts[k + 1:]:
        for n in ast.walk(s_):
            if isinstance(n, ast.Name) and n.id == c:
                return None
    if fn_tail_reads(c):
        return None
    call = ast.Call(func=ast.Name(id="enumerate", ctx=ast.Load()), args=[lp.iter] + ([] if start.value == 0 else [copy.deepcopy(start)]), keywords=[])
    loop = ast.For(target=ast.Tuple(elts=[ast.Name(id=c, ctx=ast.Store()), lp.target], ctx=ast.Store()), iter=call, body=lp.body[:-1], orelse=[])
    STATS["counter"] = STATS.get("counter", 0) + 1
    return _loc(loop, lp), init


def _comp_walrus(st, occ):
    """[x for k in R if (x := E) <= N]  ->  [E for k in R if E <= N]   for a call-free E and an x that lives only inside the
    comprehension"""
    for f, v in ast.iter_fields(st):
        exprs = [v] if isinstance(v, ast.expr) else ([x for x in v if isinstance(x, ast.expr)] if isinstance(v, list) else [])
        for root in exprs:
            for comp in [n for n in ast.walk(root) if isinstance(n, (ast.ListComp, ast.SetComp, ast.GeneratorExp))]:
                if len(comp.generators) != 1:
                    continue
                g = comp.generators[0]
                ws = [n for i_ in g.ifs for n in ast.walk(i_) if isinstance(n, ast.NamedExpr)]
                if len(ws) != 1 or not isinstance(ws[0].target, ast.Name) or not _no_call(ws[0].value):
                    continue
                w = ws[0]
                x = w.target.id
                inside = sum(1 for n in ast.walk(comp) if isinstance(n, ast.Name) and n.id == x)
                if occ.get(x, 0) != inside or any(isinstance(n, ast.Name) and n.id == x for n in ast.walk(w.value)) \
                        or any(isinstance(n, ast.Name) and n.id == x for n in ast.walk(g.iter)):
                    continue
                # the walrus must be the first thing its condition evaluates, and no earlier condition may read x
                k = [i for i, i_ in enumerate(g.ifs) if any(n is w for n in ast.walk(i_))][0]
                if any(isinstance(n, ast.Name) and n.id == x for i_ in g.ifs[:k] for n in ast.walk(i_)):
                    continue
                probe = ast.If(test=g.ifs[k], body=[ast.Pass()], orelse=[])
                r = _hoist_walrus(probe)
                if r is None:
                    continue
                g.ifs[k] = r[1].test

                class S(ast.NodeTransformer):
                    def visit_Name(self, n):
                        if n.id == x and isinstance(n.ctx, ast.Load):
                            return _loc(copy.deepcopy(w.value), n)
                        return n
                g.ifs = [S().visit(i_) for i_ in g.ifs]
                comp.elt = S().visit(comp.elt)
                STATS["comp_walrus"] = STATS.get("comp_walrus", 0) + 1


def _hoist_walrus(st):
    """`if (n := E) > 0: ...` / `y = g((n := E))` -> `n = E` followed by the statement reading n, when the assignment
    expression is evaluated unconditionally and nothing evaluated before it can observe or disturb it"""
    if isinstance(st, ast.If):
        root, field = st.test, "test"
    elif isinstance(st, (ast.Assign, ast.AugAssign, ast.Return, ast.Expr)) and st.value is not None:
        root, field = st.value, "value"
    else:
        return None
    ws = [n for n in ast.walk(root) if isinstance(n, ast.NamedExpr)]
    if len(ws) != 1 or not isinstance(ws[0].target, ast.Name):
        return None
    w = ws[0]
    x = w.target.id
    if any(isinstance(n, ast.Name) and n.id == x for n in ast.walk(w.value)):
        return None

    def clean(e):
        # evaluated before the walrus: must not call anything and must not read x
        return not any(isinstance(n, (ast.Call, ast.Await, ast.Yield, ast.YieldFrom)) or (isinstance(n, ast.Name) and n.id == x) for n in ast.walk(e))

    def reach(e):
        """True when w is evaluated unconditionally inside e and everything evaluated before it is clean"""
        if e is w:
            return True
        if isinstance(e, ast.Compare):
            seq = [e.left] + list(e.comparators)
            for i, o in enumerate(seq):
                if any(n is w for n in ast.walk(o)):
                    return i <= 1 and all(clean(p_) for p_ in seq[:i]) and reach(o)     # operands beyond the second are conditional
            return False
        if isinstance(e, ast.BoolOp):
            return any(n is w for n in ast.walk(e.values[0])) and reach(e.values[0])
        if isinstance(e, ast.UnaryOp):
            return reach(e.operand)
        if isinstance(e, ast.BinOp):
            if any(n is w for n in ast.walk(e.left)):
                return reach(e.left)
            return clean(e.left) and reach(e.right)
        if isinstance(e, ast.Call):
            seq = [e.func] + list(e.args) + [k.value for k in e.keywords]
            for i, o in enumerate(seq):
                if any(n is w for n in ast.walk(o)):
                    return all(clean(p_) for p_ in seq[:i]) and not isinstance(o, ast.Starred) and reach(o)
            return False
        if isinstance(e, (ast.Attribute, ast.Subscript)):
            if any(n is w for n in ast.walk(e.value)):
                return reach(e.value)
            return isinstance(e, ast.Subscript) and clean(e.value) and reach(e.slice)
        if isinstance(e, (ast.Tuple, ast.List)):
            for i, o in enumerate(e.elts):
                if any(n is w for n in ast.walk(o)):
                    return all(clean(p_) for p_ in e.elts[:i]) and reach(o)
        return False
    if isinstance(st, ast.AugAssign) and not clean(st.target):
        return None
    if not reach(root):
        return None

    class S(ast.NodeTransformer):
        def visit_NamedExpr(self, n):
            if n is w:
                return ast.copy_location(ast.Name(id=x, ctx=ast.Load()), n)
            return self.generic_visit(n)
    setattr(st, field, S().visit(root))
    STATS["walrus"] = STATS.get("walrus", 0) + 1
    return [_loc(ast.Assign(targets=[ast.Name(id=x, ctx=ast.Store())], value=w.value), st), st]


def _hoist_verdict(st, fx):
    if not (isinstance(st, ast.If) and isinstance(st.test, ast.Compare) and len(st.test.ops) == 1
            and isinstance(st.test.left, ast.Call) and isinstance(st.test.left.func, ast.Attribute)
            and st.test.left.func.attr == "compare" and isinstance(st.test.comparators[0], ast.Constant)):
        return None
    nm = fx.fresh("f")
    asg = _loc(ast.Assign(targets=[ast.Name(id=nm, ctx=ast.Store())], value=st.test.left), st)
    new_if = ast.If(test=ast.Compare(left=ast.Name(id=nm, ctx=ast.Load()), ops=st.test.ops,
                                     comparators=st.test.comparators), body=st.body, orelse=st.orelse)
    STATS["verdict"] = STATS.get("verdict", 0) + 1
    return [asg, _loc(new_if, st)]


# --------------------------------------------------------------------- driver
def _flag_loops(stmts):
    """F = True; for v in X: if [not] C: F = False; break      is   F = all(C' for v in X)
       F = False; for v in X: if C: F = True; break            is   F = any(C for v in X)
    (X a plain path, C without calls that could have effects other than reads)"""
    out = []
    k = 0
    while k < len(stmts):
        a = stmts[k]
        b = stmts[k + 1] if k + 1 < len(stmts) else None
        ok = (isinstance(a, ast.Assign) and len(a.targets) == 1 and isinstance(a.targets[0], ast.Name) and isinstance(a.value, ast.Constant) and isinstance(a.value.value, bool)
              and isinstance(b, ast.For) and not b.orelse and access_path(b.iter) is not None and len(b.body) == 1 and isinstance(b.body[0], ast.If) and not b.body[0].orelse
              and len(b.body[0].body) == 2 and isinstance(b.body[0].body[1], ast.Break) and isinstance(b.body[0].body[0], ast.Assign)
              and len(b.body[0].body[0].targets) == 1 and isinstance(b.body[0].body[0].targets[0], ast.Name) and b.body[0].body[0].targets[0].id == a.targets[0].id
              and isinstance(b.body[0].body[0].value, ast.Constant) and b.body[0].body[0].value.value is (not a.value.value))
        if ok:
            flag = a.targets[0].id
            test = b.body[0].test
            if any(isinstance(n, ast.Name) and n.id == flag for n in ast.walk(test)) or any(isinstance(n, (ast.Call, ast.NamedExpr, ast.Await, ast.Yield)) for n in ast.walk(test)):
                ok = False
        if ok:
            if a.value.value is True:
                cond = test.operand if isinstance(test, ast.UnaryOp) and isinstance(test.op, ast.Not) else ast.UnaryOp(op=ast.Not(), operand=test)
                fname = "all"
            else:
                cond, fname = test, "any"
            gen = ast.GeneratorExp(elt=cond, generators=[ast.comprehension(target=b.target, iter=b.iter, ifs=[], is_async=0)])
            out.append(_loc(ast.Assign(targets=[ast.Name(id=flag, ctx=ast.Store())], value=ast.Call(func=ast.Name(id=fname, ctx=ast.Load()), args=[gen], keywords=[])), a))
            STATS["flag_loop"] = STATS.get("flag_loop", 0) + 1
            k += 2
            continue
        out.append(a)
        k += 1
    return out


def _block(stmts, fx, occ, top=False):
    # tuple assignments are split first so that a loop counter initialised in one (`flag, i = False, 0`) is visible
    pre = []
    for st in stmts:
        if isinstance(st, ast.Assign) and len(st.targets) > 1 and all(access_path(t) is not None and _no_call(t) for t in st.targets):
            # a = b = E: E is evaluated once and bound to every target. An immutable literal can simply be repeated;
            # anything else is bound once and the other targets are made aliases of the first, which is what they are
            STATS["chain_assign"] = STATS.get("chain_assign", 0) + 1
            first = st.targets[0]
            if _literal(st.value):
                for t in st.targets:
                    pre.append(_loc(ast.Assign(targets=[t], value=copy.deepcopy(st.value)), st))
            else:
                pre.append(_loc(ast.Assign(targets=[first], value=st.value), st))
                for t in st.targets[1:]:
                    pre.append(_loc(ast.Assign(targets=[t], value=_as_load_expr(first)), st))
            continue
        if isinstance(st, ast.AnnAssign):
            # annotations of locals / attributes carry no behaviour: `x: T = E` is `x = E`, a bare `x: T` is nothing
            STATS["annot"] = STATS.get("annot", 0) + 1
            st = _loc(ast.Assign(targets=[st.target], value=st.value), st) if st.value is not None else _loc(ast.Pass(), st)
        r = _split_tuple(st)
        pre.extend(r if r is not None else [st])
    stmts = _flag_loops(pre)
    k = 0
    while k < len(stmts):
        if isinstance(stmts[k], ast.While):
            # only in a block whose continuation is visible: the function body itself, where `i` dead after the
            # loop can be checked; nested blocks are handled when the enclosing function never reads i elsewhere
            def tail_reads(name, _stmts=stmts, _k=k):
                if top:
                    return False
                # nested block: i must not occur anywhere in the function outside this block
                inside = sum(1 for s_ in _stmts for n in ast.walk(s_) if isinstance(n, ast.Name) and n.id == name)
                return occ.get(name, 0) != inside
            r = _while_to_for(stmts, k, tail_reads)
            if r is not None:
                loop, init = r
                stmts[k] = loop
                del stmts[init]
                k -= 1
        elif isinstance(stmts[k], ast.For):
            idx_ = _unenum(stmts[k])
            if idx_ is not None and occ.get(idx_, 0) <= 1:
                # a dead enumerate index goes first, so that a manual counter beside it is seen as the loop's index
                STATS["unenum"] = STATS.get("unenum", 0) + 1
                stmts[k].target = stmts[k].target.elts[1]
                stmts[k].iter = stmts[k].iter.args[0]

            def tail_reads2(name, _stmts=stmts, _k=k):
                if top:
                    return False
                inside = sum(1 for s_ in _stmts for n in ast.walk(s_) if isinstance(n, ast.Name) and n.id == name)
                return occ.get(name, 0) != inside
            r = _counter_to_enum(stmts, k, tail_reads2)
            if r is not None:
                loop, init = r
                stmts[k] = loop
                del stmts[init]
                k -= 1
        k += 1
    out = []
    for st in stmts:
        out.extend(_stmt(st, fx, occ))
    if len(out) > 1 and any(isinstance(x, ast.Pass) for x in out):
        out = [x for x in out if not isinstance(x, ast.Pass)] or [out[0]]
    # `t = E; return t` with t used nowhere else: return E
    k = 1
    while k < len(out):
        a, b = out[k - 1], out[k]
        if isinstance(b, ast.Return) and isinstance(b.value, ast.Name) and isinstance(a, ast.Assign) and len(a.targets) == 1 \
                and isinstance(a.targets[0], ast.Name) and a.targets[0].id == b.value.id and occ.get(b.value.id, 0) == 2 \
                and not b.value.id.startswith("__"):
            STATS["rettemp"] = STATS.get("rettemp", 0) + 1
            out[k - 1:k + 1] = [_loc(ast.Return(value=a.value), b)]
            continue
        # `t = y; S(t)` with y a plain name, t read once in the simple statement S and nowhere else: S(y)
        if isinstance(a, ast.Assign) and len(a.targets) == 1 and isinstance(a.targets[0], ast.Name) and isinstance(a.value, ast.Name) \
                and isinstance(b, (ast.Expr, ast.Assign, ast.Return, ast.AugAssign)) and occ.get(a.targets[0].id, 0) == 2 \
                and a.targets[0].id != a.value.id:
            t, y = a.targets[0].id, a.value.id
            uses = [n for n in ast.walk(b) if isinstance(n, ast.Name) and n.id == t]
            if len(uses) == 1 and isinstance(uses[0].ctx, ast.Load) and not any(isinstance(n, ast.Name) and n.id == y and not isinstance(n.ctx, ast.Load) for n in ast.walk(b)) \
                    and not any(isinstance(n, (ast.Lambda, ast.ListComp, ast.SetComp, ast.DictComp, ast.GeneratorExp)) for n in ast.walk(b)):
                uses[0].id = y
                STATS["copytemp"] = STATS.get("copytemp", 0) + 1
                del out[k - 1]
                continue
        k += 1
    return out


_LOG_METHODS = {"debug", "info", "warning", "warn", "error", "exception", "critical", "log"}
_PURE_IN_LOG = {"len", "str", "repr", "format", "type", "int", "float", "round", "id", "sorted", "list", "tuple", "min", "max", "sum", "abs", "bool"}


def _is_log_stmt(st):
    """logger.debug(..) / logging.info(..) / print(..) whose arguments only read (names, attributes, pure builtins, str.format,
    time.time / perf_counter): it reports, it does not take part in what is computed"""
    if not (isinstance(st, ast.Expr) and isinstance(st.value, ast.Call)):
        return False
    c = st.value
    f = c.func
    if isinstance(f, ast.Name) and f.id == "print":
        pass
    elif isinstance(f, ast.Attribute) and f.attr in _LOG_METHODS:
        recv = (access_path(f.value) or "").lower()
        if not (recv.endswith("logger") or recv.endswith("log") or recv == "logging" or recv.endswith("_logger") or recv.endswith("logger()")):
            return False
    else:
        return False
    for a in list(c.args) + [k.value for k in c.keywords]:
        for n in ast.walk(a):
            if isinstance(n, ast.Call):
                fn_ = n.func
                if isinstance(fn_, ast.Name) and fn_.id in _PURE_IN_LOG:
                    continue
                if isinstance(fn_, ast.Attribute) and fn_.attr in ("format", "join", "__name__", "total_seconds", "get", "keys", "values", "items", "upper", "lower",
                                                                    "strip", "count", "index", "isEnabledFor", "getEffectiveLevel"):
                    continue
                if (access_path(fn_) or "") in ("time.time", "time.perf_counter", "time.monotonic", "sys.exc_info"):
                    continue
                return False
            if isinstance(n, (ast.NamedExpr, ast.Await, ast.Yield, ast.YieldFrom, ast.Lambda)):
                return False
    return True


def _stmt(st, fx, occ):
    if LOGS[0] and _is_log_stmt(st):
        STATS["log_stmt"] = STATS.get("log_stmt", 0) + 1
        return [_loc(ast.Pass(), st)]
    if isinstance(st, (ast.FunctionDef, ast.AsyncFunctionDef)):
        normalize_function(st)
        return [st]
    if isinstance(st, ast.ClassDef):
        st.body = _class_body(st.body)
        return [st]
    if isinstance(st, ast.AnnAssign):
        # annotations of locals / attributes carry no behaviour: `x: T = E` is `x = E`, a bare `x: T` is nothing
        STATS["annot"] = STATS.get("annot", 0) + 1
        if st.value is None:
            return [_loc(ast.Pass(), st)]
        return _block([_loc(ast.Assign(targets=[st.target], value=st.value), st)], fx, occ)
    if isinstance(st, ast.Assign) and len(st.targets) == 1 and isinstance(st.targets[0], (ast.Name, ast.Attribute, ast.Subscript)) and isinstance(st.value, ast.BinOp) \
            and isinstance(st.value.op, (ast.Add, ast.Sub)) and access_path(st.targets[0]) is not None and _no_call(st.targets[0]) \
            and ((access_path(st.value.left) == access_path(st.targets[0])
                  and isinstance(st.value.right, ast.Constant) and isinstance(st.value.right.value, (int, float)) and not isinstance(st.value.right.value, bool))
                 or (isinstance(st.value.op, ast.Add) and access_path(st.value.right) == access_path(st.targets[0])
                     and isinstance(st.value.left, ast.Constant) and isinstance(st.value.left.value, (int, float)) and not isinstance(st.value.left.value, bool))):
        # x = x + c with a numeric literal (counters, accumulators): read as x += c; the rules take both as a rebinding of x
        STATS["aug"] = STATS.get("aug", 0) + 1
        st = _loc(ast.AugAssign(target=st.targets[0], op=st.value.op,
                                value=st.value.right if isinstance(st.value.right, ast.Constant) else st.value.left), st)
    r = _hoist_walrus(st)
    if r is not None:
        return _block(r, fx, occ)
    if isinstance(st, ast.While) and not st.orelse and any(isinstance(n, ast.NamedExpr) for n in ast.walk(st.test)):
        # while (x := E) ...: body   ->   while True: x = E; if not ...: break; body
        probe = ast.If(test=st.test, body=[ast.Pass()], orelse=[])
        r = _hoist_walrus(probe)
        if r is not None:
            assign, tested = r
            brk = _loc(ast.If(test=ast.UnaryOp(op=ast.Not(), operand=tested.test), body=[ast.Break()], orelse=[]), st)
            loop = _loc(ast.While(test=ast.Constant(value=True), body=[assign, brk] + st.body, orelse=[]), st)
            STATS["walrus_while"] = STATS.get("walrus_while", 0) + 1
            return _block([loop], fx, occ)
    if isinstance(st, ast.AugAssign) and isinstance(st.op, ast.Add) and isinstance(st.target, ast.Name) and isinstance(st.value, (ast.ListComp, ast.List)):
        elts = [st.value.elt] if isinstance(st.value, ast.ListComp) else list(st.value.elts)
        if (hasattr(fx, "is_list_at") and fx.is_list_at(st.target.id, getattr(st, "lineno", 0))) or elts and all(isinstance(e, (ast.Call, ast.Name, ast.Attribute, ast.List, ast.Tuple, ast.Dict)) for e in elts) \
                and not any(isinstance(e, ast.Call) and (access_path(e.func) or "") in ("float", "int", "abs", "round", "len") for e in elts):
            # xs += [f(v) for v in ys] on a list of objects is xs.extend([...]) (a numeric right-hand side could be array arithmetic: left alone)
            STATS["aug_extend"] = STATS.get("aug_extend", 0) + 1
            st = _loc(ast.Expr(value=ast.Call(func=ast.Attribute(value=ast.Name(id=st.target.id, ctx=ast.Load()), attr="extend", ctx=ast.Load()),
                                              args=[st.value], keywords=[])), st)
    _comp_walrus(st, occ)
    for f_, v_ in ast.iter_fields(st):
        if isinstance(v_, ast.expr):
            setattr(st, f_, _DictComp(fx).visit(v_))
        elif isinstance(v_, list) and v_ and isinstance(v_[0], ast.expr):
            setattr(st, f_, [_DictComp(fx).visit(x) for x in v_])
    _canon_exprs(st)
    r = _swap_not(st)
    if r is not None:
        return _block(r, fx, occ)
    r = _setattr(st)
    if r is not None:
        return _block(r, fx, occ)
    idx = _unenum(st)
    if idx is not None:
        # the index is dead: iterate the sequence itself (the name may be read after the loop: keep it out then)
        if occ.get(idx, 0) <= 1:
            STATS["unenum"] = STATS.get("unenum", 0) + 1
            st.target = st.target.elts[1]
            st.iter = st.iter.args[0]
    r = _combinations_loop(st, fx)
    if r is not None:
        # the counter idiom produced here must stay as it is (the inner loop carries it): no second look by _block's counter pass
        out_ = []
        for x_ in r:
            if isinstance(x_, ast.For):
                x_.body[0].body = _block(x_.body[0].body, fx, occ)
                out_.append(x_)
            else:
                out_.append(x_)
        return out_
    r = _product_loop(st)
    if r is not None:
        return _block(r, fx, occ)
    r = _filter_map_loop(st, fx)
    if r is not None:
        return _block(r, fx, occ)
    r = _enum_to_range(st)
    if r is not None:
        return _block(r, fx, occ)
    r = _dict_loop(st, fx)
    if r is not None:
        return _block(r, fx, occ)
    if isinstance(st, ast.If) and st.orelse and _terminates(st.body):
        # else after a branch that never falls through
        STATS["else"] = STATS.get("else", 0) + 1
        rest = st.orelse
        st.orelse = []
        return _block([st] + rest, fx, occ)
    for rewrite in (_split_tuple, _split_ifexp, _lower_setdefault, _lower_update):
        r = rewrite(st)
        if r is not None:
            return _block(r, fx, occ)
    for rewrite in ((_lower_comp, _lower_extend) if COMP[0] else ()):
        r = rewrite(st, fx, occ)
        if r is not None:
            return _block(r, fx, occ)
    r = _hoist_verdict(st, fx)
    if r is not None:
        return _block(r, fx, occ)
    r = _unroll_literal(st)
    if r is not None:
        return _block(r, fx, occ)
    for field in ("body", "orelse", "finalbody"):
        b = getattr(st, field, None)
        if isinstance(b, list) and b and isinstance(b[0], ast.stmt):
            setattr(st, field, _block(b, fx, occ))
    if isinstance(st, ast.Try):
        for h in st.handlers:
            h.body = _block(h.body, fx, occ)
    if hasattr(ast, "Match") and isinstance(st, ast.Match):
        for c in st.cases:
            c.body = _block(c.body, fx, occ)
    return [st]



# -------------------------------------------------------------------- unalias
_MUTATORS = {"update", "pop", "popitem", "clear", "setdefault", "append", "extend", "insert", "remove",
             "sort", "reverse", "__setitem__", "__delitem__"}


def _pure_path(e):
    """Attribute chain rooted at a name, optionally with constant *string* subscripts (option and
    feature look-ups).  Returns (path text, has_subscript) or None."""
    sub = False
    n = e
    while isinstance(n, (ast.Attribute, ast.Subscript)):
        if isinstance(n, ast.Subscript):
            if not (isinstance(n.slice, ast.Constant) and isinstance(n.slice.value, str)):
                return None
            sub = True
        n = n.value
    if not isinstance(n, ast.Name) or n is e:
        return None
    return access_path(e), sub


def _alias_candidates(block):
    for k, st in enumerate(block):
        if (isinstance(st, ast.Assign) and len(st.targets) == 1 and isinstance(st.targets[0], ast.Name)
                and _pure_path(st.value) is not None):
            yield k, st


def _multi_alias(fn):
    """a local bound SEVERAL times, always to the same plain attribute path rooted at `self` (a bound method looked up once per
    phase: before the first loop, again inside the generation loop), while nothing in the function stores to the path, a
    prefix of it or its root: every read of the local is a read of the path"""
    params = [a.arg for a in fn.args.args]
    if not params:
        return False
    binds = {}
    for st in ast.walk(fn):
        if isinstance(st, ast.Assign) and len(st.targets) == 1 and isinstance(st.targets[0], ast.Name):
            binds.setdefault(st.targets[0].id, []).append(st)
    other_stores = {}
    for n in ast.walk(fn):
        if isinstance(n, ast.Name) and not isinstance(n.ctx, ast.Load):
            other_stores[n.id] = other_stores.get(n.id, 0) + 1
    done = False
    for x, sts in binds.items():
        if len(sts) < 2 or other_stores.get(x, 0) != len(sts) or x in params:
            continue
        pp = [_pure_path(st.value) for st in sts]
        if any(q is None or q[1] for q in pp) or len({q[0] for q in pp}) != 1:
            continue
        path = pp[0][0]
        root = path.split(".")[0]
        if root != params[0]:
            continue
        bad = False
        for n in ast.walk(fn):
            if isinstance(n, ast.Name) and n.id == root and not isinstance(n.ctx, ast.Load):
                bad = True
            elif isinstance(n, (ast.Attribute, ast.Subscript)) and not isinstance(n.ctx, ast.Load):
                q = access_path(n)
                if q is not None and (q == path or path.startswith(q + ".")):
                    bad = True
            elif isinstance(n, (ast.FunctionDef, ast.Lambda)) and n is not fn and any(isinstance(m, ast.Name) and m.id == x for m in ast.walk(n)):
                bad = True
        first = min(st.lineno for st in sts)
        if bad or any(isinstance(n, ast.Name) and n.id == x and isinstance(n.ctx, ast.Load) and getattr(n, "lineno", first) < first for n in ast.walk(fn)):
            continue
        proto = sts[0].value

        class S(ast.NodeTransformer):
            def visit_Name(self, n):
                if n.id == x and isinstance(n.ctx, ast.Load):
                    return ast.copy_location(copy.deepcopy(proto), n)
                return n

            def visit_Assign(self, n):
                if any(n is st for st in sts):
                    return ast.copy_location(ast.Pass(), n)
                return self.generic_visit(n)
        S().visit(fn)
        ast.fix_missing_locations(fn)
        STATS["multi_alias"] = STATS.get("multi_alias", 0) + 1
        done = True
    return done


_PURE_BUILTINS = ("len", "zip", "enumerate", "abs", "float", "int", "sum", "min", "max", "range", "sorted", "list", "tuple", "reversed", "any", "all", "isinstance", "round", "map", "iter")


def _param_reads(fn):
    """x = P[-1] / x = P[:-1] (a literal index or slice of a parameter), x bound once, while the function never stores into
    P, never calls a mutator on it and hands it only to builtins that read: `x` is that element / slice of P wherever it is
    read (the marker or the objective part of a cost vector looked up once)"""
    params = {a.arg for a in fn.args.args}
    stores = {}
    for n in ast.walk(fn):
        if isinstance(n, ast.Name) and not isinstance(n.ctx, ast.Load):
            stores[n.id] = stores.get(n.id, 0) + 1
    frozen = set()
    for P in params:
        ok = stores.get(P, 0) == 0
        for n in ast.walk(fn):
            if not ok:
                break
            if isinstance(n, (ast.Subscript, ast.Attribute)) and not isinstance(n.ctx, ast.Load) and root_name(n) == P:
                ok = False
            elif isinstance(n, ast.Call):
                if isinstance(n.func, ast.Attribute) and root_name(n.func) == P and n.func.attr in _MUTATORS:
                    ok = False
                fname = access_path(n.func) or ""
                for a in list(n.args) + [k.value for k in n.keywords]:
                    if isinstance(a, ast.Name) and a.id == P and fname not in _PURE_BUILTINS and not fname.endswith((".compare", ".append")):
                        ok = False
            elif isinstance(n, ast.AugAssign) and root_name(n.target) == P:
                ok = False
        if ok:
            frozen.add(P)
    done = False
    for st in list(ast.walk(fn)):
        if not (isinstance(st, ast.Assign) and len(st.targets) == 1 and isinstance(st.targets[0], ast.Name) and isinstance(st.value, ast.Subscript)
                and isinstance(st.value.value, ast.Name) and st.value.value.id in frozen):
            continue
        x = st.targets[0].id
        sl = st.value.slice
        lit = (isinstance(sl, ast.Constant) and isinstance(sl.value, int)) or (isinstance(sl, ast.UnaryOp) and isinstance(sl.operand, ast.Constant)) or \
            (isinstance(sl, ast.Slice) and all(b is None or isinstance(b, ast.Constant) or (isinstance(b, ast.UnaryOp) and isinstance(b.operand, ast.Constant)) for b in (sl.lower, sl.upper, sl.step)))
        if not lit or stores.get(x, 0) != 1 or x in params:
            continue
        if any(isinstance(n, ast.Name) and n.id == x and isinstance(n.ctx, ast.Load) and getattr(n, "lineno", st.lineno) < st.lineno for n in ast.walk(fn)):
            continue
        if any(isinstance(n, (ast.FunctionDef, ast.Lambda)) and n is not fn and any(isinstance(m, ast.Name) and m.id == x for m in ast.walk(n)) for n in ast.walk(fn)):
            continue
        proto = st.value

        class S(ast.NodeTransformer):
            def visit_Name(self, n):
                if n.id == x and isinstance(n.ctx, ast.Load):
                    return ast.copy_location(copy.deepcopy(proto), n)
                return n

            def visit_Assign(self, n):
                if n is st:
                    return ast.copy_location(ast.Pass(), n)
                return self.generic_visit(n)
        S().visit(fn)
        ast.fix_missing_locations(fn)
        STATS["param_read"] = STATS.get("param_read", 0) + 1
        done = True
    return done


def _split_rebinds(fn):
    """a local re-used for one alias after another in the body of the function (`append = A.append` ... `append = B.append`
    ...): each stretch between two bindings gets its own name, so that every one of them is a single-binding alias"""
    body = fn.body
    cand = {}
    for i, st in enumerate(body):
        if isinstance(st, ast.Assign) and len(st.targets) == 1 and isinstance(st.targets[0], ast.Name) and _pure_path(st.value) is not None:
            cand.setdefault(st.targets[0].id, []).append(i)
    stores = {}
    for n in ast.walk(fn):
        if isinstance(n, ast.Name) and not isinstance(n.ctx, ast.Load):
            stores[n.id] = stores.get(n.id, 0) + 1
    names = {n.id for n in ast.walk(fn) if isinstance(n, ast.Name)} | {a.arg for a in ast.walk(fn.args) if isinstance(a, ast.arg)}
    done = False
    for x, idxs in cand.items():
        if len(idxs) < 2 or stores.get(x, 0) != len(idxs):
            continue
        if any(isinstance(n, ast.Name) and n.id == x for st in body[:idxs[0]] for n in ast.walk(st)):
            continue
        if any(isinstance(n, (ast.FunctionDef, ast.Lambda)) and any(isinstance(m, ast.Name) and m.id == x for m in ast.walk(n)) for st in body for n in ast.walk(st)):
            continue
        for k, i in enumerate(idxs):
            new = "%s__%d" % (x, k + 1)
            while new in names:
                new += "_"
            names.add(new)
            end = idxs[k + 1] if k + 1 < len(idxs) else len(body)
            body[i].targets[0].id = new
            for st in body[i + 1:end]:
                for n in ast.walk(st):
                    if isinstance(n, ast.Name) and n.id == x:
                        n.id = new
            # the value of the next binding may read the old name
            if k + 1 < len(idxs):
                for n in ast.walk(body[idxs[k + 1]].value):
                    if isinstance(n, ast.Name) and n.id == x:
                        n.id = new
        STATS["split_rebind"] = STATS.get("split_rebind", 0) + 1
        done = True
    return done


def _unalias_once(fn):
    """A local bound exactly once to a plain attribute path (`job = self.job`, `compare =
    self.dominance.compare`, `lo = parameter['bounds']`) and read only by the statements that follow it
    in its own block, while nothing there stores to the path, to a prefix of it or to its root, is
    replaced by the path.  The rules then see one spelling whether or not the attribute was cached."""
    params = {a.arg for a in ast.walk(fn.args) if isinstance(a, ast.arg)}
    stores, loads = {}, {}
    for n in ast.walk(fn):
        if isinstance(n, ast.Name):
            d = loads if isinstance(n.ctx, ast.Load) else stores
            d[n.id] = d.get(n.id, 0) + 1
        elif isinstance(n, (ast.Global, ast.Nonlocal)):
            for nm in n.names:
                stores[nm] = stores.get(nm, 0) + 2
        elif isinstance(n, ast.ExceptHandler) and n.name:
            stores[n.name] = stores.get(n.name, 0) + 1
        elif isinstance(n, ast.alias):
            nm = (n.asname or n.name).split(".")[0]
            stores[nm] = stores.get(nm, 0) + 1
        elif isinstance(n, (ast.FunctionDef, ast.AsyncFunctionDef, ast.ClassDef)) and n is not fn:
            stores[n.name] = stores.get(n.name, 0) + 1
            for a in ast.walk(n.args) if not isinstance(n, ast.ClassDef) else ():
                if isinstance(a, ast.arg):
                    stores[a.arg] = stores.get(a.arg, 0) + 1
        elif isinstance(n, ast.Lambda):
            for a in ast.walk(n.args):
                if isinstance(a, ast.arg):
                    stores[a.arg] = stores.get(a.arg, 0) + 1

    def blocks(node):
        for f in ("body", "orelse", "finalbody"):
            b = getattr(node, f, None)
            if isinstance(b, list) and b and isinstance(b[0], ast.stmt):
                yield b
                for st in b:
                    if not isinstance(st, (ast.FunctionDef, ast.AsyncFunctionDef, ast.ClassDef)):
                        yield from blocks(st)
        for h in getattr(node, "handlers", []) or []:
            yield h.body
            for st in h.body:
                yield from blocks(st)

    for block in blocks(fn):
        for k, st in _alias_candidates(block):
            x = st.targets[0].id
            path, sub = _pure_path(st.value)
            root = root_name(st.value)
            if x in params or stores.get(x, 0) != 1 or root == x or loads.get(x, 0) == 0:
                continue
            region = block[k + 1:]
            in_region = sum(1 for r in region for n in ast.walk(r) if isinstance(n, ast.Name) and n.id == x)
            if in_region != loads.get(x, 0):
                continue
            # what happens after the last statement that reads x does not concern the alias
            last_use = max(i for i, r in enumerate(region) if any(isinstance(n, ast.Name) and n.id == x for n in ast.walk(r)))
            region = region[:last_use + 1]
            ok = True
            for r in region:
                for n in ast.walk(r):
                    if isinstance(n, ast.Name) and n.id == root and not isinstance(n.ctx, ast.Load):
                        ok = False
                    elif isinstance(n, (ast.Attribute, ast.Subscript)) and not isinstance(n.ctx, ast.Load):
                        q = access_path(n)
                        if q is None:
                            if root_name(n) == root:
                                ok = False
                        elif q == path or path.startswith(q + ".") or path.startswith(q + "["):
                            ok = False
                    elif isinstance(n, ast.ExceptHandler) and n.name == root:
                        ok = False
                    elif (sub and isinstance(n, ast.Call) and isinstance(n.func, ast.Attribute)
                          and n.func.attr in _MUTATORS):
                        q = access_path(n.func.value)
                        if q is not None and (path.startswith(q + "[") or path.startswith(q + ".")):
                            ok = False
                    elif isinstance(n, (ast.FunctionDef, ast.AsyncFunctionDef)) and root in {a.arg for a in ast.walk(n.args) if isinstance(a, ast.arg)}:
                        ok = False
                    elif isinstance(n, ast.Lambda) and root in {a.arg for a in ast.walk(n.args) if isinstance(a, ast.arg)}:
                        ok = False
                    elif isinstance(n, (ast.ListComp, ast.SetComp, ast.DictComp, ast.GeneratorExp)):
                        for g in n.generators:
                            if root in {m.id for m in ast.walk(g.target) if isinstance(m, ast.Name)}:
                                ok = False
                if not ok:
                    break
            if not ok:
                continue

            class S(ast.NodeTransformer):
                def visit_Name(self, n):
                    if n.id == x and isinstance(n.ctx, ast.Load):
                        return _loc(copy.deepcopy(st.value), n)
                    return n
            for i in range(k + 1, len(block)):
                block[i] = S().visit(block[i])
            del block[k]
            STATS["unalias"] = STATS.get("unalias", 0) + 1
            return True
    return False


def _fresh_then_store(fn):
    """`x = []` directly followed by `P = x` (P an attribute path): the same object under two names; written as
    `P = []; x = P` the local is a plain alias of the path and goes away with the other aliases"""
    def fresh(v):
        return (isinstance(v, (ast.List, ast.Dict, ast.Set)) and not getattr(v, "elts", getattr(v, "keys", None))) or \
            (isinstance(v, ast.Call) and isinstance(v.func, ast.Name) and v.func.id in ("list", "dict", "set") and not v.args and not v.keywords)
    changed = False
    for node in ast.walk(fn):
        for f in ("body", "orelse", "finalbody"):
            b = getattr(node, f, None)
            if not (isinstance(b, list) and b and isinstance(b[0], ast.stmt)):
                continue
            for k in range(len(b) - 1):
                a, c = b[k], b[k + 1]
                if isinstance(a, ast.Assign) and len(a.targets) == 1 and isinstance(a.targets[0], ast.Name) and fresh(a.value) \
                        and isinstance(c, ast.Assign) and len(c.targets) == 1 and isinstance(c.targets[0], ast.Attribute) \
                        and isinstance(c.value, ast.Name) and c.value.id == a.targets[0].id:
                    pp = _pure_path(_as_load_expr(c.targets[0]))
                    if pp is None or root_name(c.targets[0]) == a.targets[0].id:
                        continue
                    b[k] = _loc(ast.Assign(targets=[c.targets[0]], value=a.value), a)
                    b[k + 1] = _loc(ast.Assign(targets=[ast.Name(id=a.targets[0].id, ctx=ast.Store())], value=_as_load_expr(c.targets[0])), c)
                    STATS["fresh_store"] = STATS.get("fresh_store", 0) + 1
                    changed = True
    return changed


def _as_load_expr(t):
    t = copy.deepcopy(t)
    for n in ast.walk(t):
        if hasattr(n, "ctx"):
            n.ctx = ast.Load()
    return t


def _fuse_list_loops(fn, fx):
    """L = [E for v in IT] where L is only ever the iterable of for-loops, E is plain arithmetic over v and names that are
    left alone afterwards  ->  each `for T in L: body` becomes `for v' in IT: T = E'; body` (the list is a stored
    re-spelling of IT; exceptions of E aside, the loops see the same elements in the same order)"""
    changed = False
    for node in list(ast.walk(fn)):
        for f in ("body", "orelse", "finalbody"):
            b = getattr(node, f, None)
            if not (isinstance(b, list) and b and isinstance(b[0], ast.stmt)):
                continue
            for k, st in enumerate(list(b)):
                if not (isinstance(st, ast.Assign) and len(st.targets) == 1 and isinstance(st.targets[0], ast.Name) and isinstance(st.value, ast.ListComp)
                        and len(st.value.generators) == 1 and not st.value.generators[0].ifs and not st.value.generators[0].is_async):
                    continue
                L = st.targets[0].id
                comp = st.value
                g = comp.generators[0]
                if any(isinstance(c, ast.Call) and not (isinstance(c.func, ast.Name) and c.func.id in ("float", "int", "abs", "min", "max", "len", "enumerate", "zip", "range", "reversed"))
                       for c in ast.walk(comp)):
                    continue
                if any(isinstance(c, (ast.Lambda, ast.NamedExpr, ast.ListComp, ast.GeneratorExp, ast.DictComp, ast.SetComp)) for c in ast.walk(comp) if c is not comp):
                    continue
                stores = [n for n in ast.walk(fn) if isinstance(n, ast.Name) and n.id == L and not isinstance(n.ctx, ast.Load)]
                loads = [n for n in ast.walk(fn) if isinstance(n, ast.Name) and n.id == L and isinstance(n.ctx, ast.Load)]
                loops = [n for n in ast.walk(fn) if isinstance(n, ast.For) and isinstance(n.iter, ast.Name) and n.iter.id == L and not n.orelse]
                if len(stores) != 1 or not loads or len(loads) != len(loops) or any(lp.lineno <= st.lineno for lp in loops):
                    continue
                tvars = {n.id for n in ast.walk(g.target) if isinstance(n, ast.Name)}
                reads = {n.id for n in ast.walk(comp) if isinstance(n, ast.Name) and isinstance(n.ctx, ast.Load)} - tvars
                # what the element expression reads must keep its value from the definition to the last loop
                last = max(getattr(lp, "end_lineno", lp.lineno) or lp.lineno for lp in loops)
                if any(isinstance(n, ast.Name) and n.id in reads and not isinstance(n.ctx, ast.Load) and st.lineno < getattr(n, "lineno", 0) <= last for n in ast.walk(fn)):
                    continue
                if any(isinstance(n, (ast.Attribute, ast.Subscript)) and not isinstance(n.ctx, ast.Load) and root_name(n) in reads
                       and st.lineno < getattr(n, "lineno", 0) <= last for n in ast.walk(fn)):
                    continue
                for lp in loops:
                    ren = {v: fx.fresh("f") for v in sorted(tvars)}
                    tgt = _rename(copy.deepcopy(g.target), ren)
                    it = _rename(copy.deepcopy(g.iter), ren)
                    elt = _rename(copy.deepcopy(comp.elt), ren)
                    bind = _loc(ast.Assign(targets=[lp.target], value=elt), lp)
                    lp.target = tgt
                    lp.iter = it
                    lp.body = [bind] + lp.body
                b.remove(st)
                ast.fix_missing_locations(fn)
                STATS["fuse_loop"] = STATS.get("fuse_loop", 0) + 1
                changed = True
    return changed


def _returns_as_expr(body):
    """a body made of `if`s and `return`s only (every path returns a value) as one conditional expression, else None"""
    if not body:
        return None
    st = body[0]
    if isinstance(st, ast.Return):
        return st.value
    if isinstance(st, ast.If):
        a = _returns_as_expr(st.body)
        b = _returns_as_expr(st.orelse if st.orelse else body[1:])
        if a is None or b is None:
            return None
        return ast.copy_location(ast.IfExp(test=st.test, body=a, orelse=b), st)
    return None


def _defs_to_lambdas(fn):
    """a nested `def f(a, b): return E` (plain parameters, no decorator, not recursive) is the local `f = lambda a, b: E`"""
    for node in ast.walk(fn):
        for f in ("body", "orelse", "finalbody"):
            b = getattr(node, f, None)
            if not (isinstance(b, list) and b and isinstance(b[0], ast.stmt)):
                continue
            for k, st in enumerate(b):
                if not (isinstance(st, ast.FunctionDef) and st is not fn and not st.decorator_list):
                    continue
                a = st.args
                if a.vararg or a.kwarg or a.kwonlyargs or a.posonlyargs or a.defaults:
                    continue
                body = [x for x in st.body if not (isinstance(x, ast.Expr) and isinstance(x.value, ast.Constant))]
                value = _returns_as_expr(body)
                if value is None:
                    continue
                if any(isinstance(x, ast.Name) and x.id == st.name for x in ast.walk(value)) \
                        or any(isinstance(x, (ast.Yield, ast.YieldFrom, ast.Await, ast.NamedExpr)) for x in ast.walk(value)):
                    continue
                lam = ast.Lambda(args=ast.arguments(posonlyargs=[], args=[ast.arg(arg=x.arg) for x in a.args], kwonlyargs=[], kw_defaults=[], defaults=[]),
                                 body=value)
                b[k] = _loc(ast.Assign(targets=[ast.Name(id=st.name, ctx=ast.Store())], value=lam), st)
                STATS["def_lambda"] = STATS.get("def_lambda", 0) + 1


def _strip_annotations(fn):
    """annotated assignments of the function's own statements become plain ones (before any other pass looks at them)"""
    for node in ast.walk(fn):
        if isinstance(node, (ast.FunctionDef, ast.AsyncFunctionDef, ast.ClassDef)) and node is not fn:
            continue
        for f in ("body", "orelse", "finalbody"):
            b = getattr(node, f, None)
            if isinstance(b, list) and b and isinstance(b[0], ast.stmt):
                for k, st in enumerate(b):
                    if isinstance(st, ast.AnnAssign):
                        STATS["annot"] = STATS.get("annot", 0) + 1
                        b[k] = _loc(ast.Assign(targets=[st.target], value=st.value), st) if st.value is not None else _loc(ast.Pass(), st)
        for h in getattr(node, "handlers", []) or []:
            for k, st in enumerate(h.body):
                if isinstance(st, ast.AnnAssign):
                    h.body[k] = _loc(ast.Assign(targets=[st.target], value=st.value), st) if st.value is not None else _loc(ast.Pass(), st)


_PURE_BUILTINS = {"max", "min", "len", "int", "abs", "slice", "float", "round"}


def _slice_locals(fn):
    """rows = slice(a, b); M[rows, i] = ...   ->   M[a:b, i] = ...   (the bounds are plain arithmetic over names that the
    statements in between leave alone; the local is only used as an index)"""
    changed = False
    for node in ast.walk(fn):
        for f in ("body", "orelse", "finalbody"):
            b = getattr(node, f, None)
            if not (isinstance(b, list) and b and isinstance(b[0], ast.stmt)):
                continue
            k = 0
            while k < len(b):
                st = b[k]
                k += 1
                if not (isinstance(st, ast.Assign) and len(st.targets) == 1 and isinstance(st.targets[0], ast.Name) and isinstance(st.value, ast.Call)
                        and isinstance(st.value.func, ast.Name) and st.value.func.id == "slice" and not st.value.keywords and 1 <= len(st.value.args) <= 3):
                    continue
                if any(isinstance(c, ast.Call) and not (isinstance(c.func, ast.Name) and c.func.id in _PURE_BUILTINS and not c.keywords) for c in ast.walk(st.value)):
                    continue
                x = st.targets[0].id
                reads = {n.id for n in ast.walk(st.value) if isinstance(n, ast.Name)} - _PURE_BUILTINS
                region = b[k:]
                total = sum(1 for n in ast.walk(fn) if isinstance(n, ast.Name) and n.id == x)
                uses = [n for r in region for n in ast.walk(r) if isinstance(n, ast.Name) and n.id == x]
                if len(uses) + 1 != total or not uses:
                    continue
                # every use is an index (alone or as a component of a tuple index)
                idx_ok = set()
                for r in region:
                    for n in ast.walk(r):
                        if isinstance(n, ast.Subscript):
                            comps = n.slice.elts if isinstance(n.slice, ast.Tuple) else [n.slice]
                            for c in comps:
                                if isinstance(c, ast.Name) and c.id == x:
                                    idx_ok.add(id(c))
                if any(id(u) not in idx_ok for u in uses):
                    continue
                last_use = max(i for i, r in enumerate(region) if any(isinstance(n, ast.Name) and n.id == x for n in ast.walk(r)))
                if any(isinstance(n, ast.Name) and n.id in reads and not isinstance(n.ctx, ast.Load) for r in region[:last_use + 1] for n in ast.walk(r)):
                    continue
                a = list(st.value.args)
                none = lambda e: isinstance(e, ast.Constant) and e.value is None
                if len(a) == 1:
                    lo, hi, step = None, a[0], None
                else:
                    lo, hi, step = a[0], a[1], (a[2] if len(a) == 3 else None)
                sl = ast.Slice(lower=None if lo is None or none(lo) else lo, upper=None if hi is None or none(hi) else hi,
                               step=None if step is None or none(step) else step)

                class S(ast.NodeTransformer):
                    def visit_Name(self, n):
                        if n.id == x and isinstance(n.ctx, ast.Load) and id(n) in idx_ok:
                            return copy.deepcopy(sl)
                        return n
                for i in range(k, len(b)):
                    b[i] = S().visit(b[i])
                del b[k - 1]
                k -= 1
                ast.fix_missing_locations(fn)
                STATS["slice_local"] = STATS.get("slice_local", 0) + 1
                changed = True
    return changed


def _lambda_locals(fn):
    """key = lambda m: m.costs[dim]; xs.sort(key=key); d = key(a) - key(b)  ->  the lambda written at its uses (calls of it are
    beta-reduced later), when the names it closes over are left alone while the local is in use"""
    changed = False
    for node in ast.walk(fn):
        for f in ("body", "orelse", "finalbody"):
            b = getattr(node, f, None)
            if not (isinstance(b, list) and b and isinstance(b[0], ast.stmt)):
                continue
            k = 0
            while k < len(b):
                st = b[k]
                k += 1
                if not (isinstance(st, ast.Assign) and len(st.targets) == 1 and isinstance(st.targets[0], ast.Name) and isinstance(st.value, ast.Lambda)):
                    continue
                lam = st.value
                if lam.args.defaults or lam.args.vararg or lam.args.kwarg or lam.args.kwonlyargs:
                    continue
                x = st.targets[0].id
                params = {a.arg for a in lam.args.args}
                free = {n.id for n in ast.walk(lam.body) if isinstance(n, ast.Name)} - params
                if x in free:
                    continue
                region = b[k:]
                total = sum(1 for n in ast.walk(fn) if isinstance(n, ast.Name) and n.id == x)
                uses = [n for r in region for n in ast.walk(r) if isinstance(n, ast.Name) and n.id == x]
                if len(uses) + 1 != total or not uses or any(not isinstance(u.ctx, ast.Load) for u in uses):
                    continue
                if any(isinstance(n, ast.Name) and n.id in free and not isinstance(n.ctx, ast.Load) for r in region for n in ast.walk(r)):
                    continue
                if any(isinstance(n, (ast.FunctionDef, ast.AsyncFunctionDef)) for r in region for n in ast.walk(r)):
                    continue

                class S(ast.NodeTransformer):
                    def visit_Name(self, n):
                        if n.id == x and isinstance(n.ctx, ast.Load):
                            return _loc(copy.deepcopy(lam), n)
                        return n
                for i in range(k, len(b)):
                    b[i] = S().visit(b[i])
                del b[k - 1]
                k -= 1
                STATS["lambda_local"] = STATS.get("lambda_local", 0) + 1
                changed = True
    return changed


def _partial_locals(fn):
    """g = functools.partial(F, a, k=v) with plain arguments, g only ever called: g(x, y) -> F(a, x, y, k=v)"""
    for node in ast.walk(fn):
        for f in ("body", "orelse", "finalbody"):
            b = getattr(node, f, None)
            if not (isinstance(b, list) and b and isinstance(b[0], ast.stmt)):
                continue
            k = 0
            while k < len(b):
                st = b[k]
                k += 1
                if not (isinstance(st, ast.Assign) and len(st.targets) == 1 and isinstance(st.targets[0], ast.Name) and isinstance(st.value, ast.Call)
                        and (access_path(st.value.func) or "") in ("functools.partial", "partial") and st.value.args):
                    continue
                part = st.value
                if any(isinstance(a, ast.Starred) for a in part.args) or any(kw.arg is None for kw in part.keywords) \
                        or not all(_no_call(a) for a in list(part.args) + [kw.value for kw in part.keywords]):
                    continue
                x = st.targets[0].id
                reads = {n.id for n in ast.walk(part) if isinstance(n, ast.Name)}
                region = b[k:]
                total = sum(1 for n in ast.walk(fn) if isinstance(n, ast.Name) and n.id == x)
                calls = [c for r in region for c in ast.walk(r) if isinstance(c, ast.Call) and isinstance(c.func, ast.Name) and c.func.id == x]
                if len(calls) + 1 != total or not calls or any(c.keywords or any(isinstance(a, ast.Starred) for a in c.args) for c in calls):
                    continue
                if any(isinstance(n, ast.Name) and n.id in reads and not isinstance(n.ctx, ast.Load) for r in region for n in ast.walk(r)):
                    continue
                for c in calls:
                    c.func = copy.deepcopy(part.args[0])
                    c.args = [copy.deepcopy(a) for a in part.args[1:]] + c.args
                    c.keywords = [copy.deepcopy(kw) for kw in part.keywords]
                del b[k - 1]
                k -= 1
                ast.fix_missing_locations(fn)
                STATS["partial_local"] = STATS.get("partial_local", 0) + 1


def _unalias(fn):
    _fresh_then_store(fn)
    _slice_locals(fn)
    _lambda_locals(fn)
    _partial_locals(fn)
    for _ in range(40):
        if not _unalias_once(fn):
            break

UNALIAS = [os.environ.get('VERIF_UNALIAS', '1') != '0']
LOGS = [os.environ.get('VERIF_LOGS', '1') != '0']
COMP = [True]     # lower statement-level comprehensions (switched off for the rules that interpret them directly)


def _coalesce_copies(fn):
    """a = b; ...(b not mentioned)...; b = a   with `a` living only between the two copies: `a` is `b` under another name
    (what inlining a helper that rebinds one of its parameters and returns it leaves behind)"""
    params = {a.arg for a in ast.walk(fn.args) if isinstance(a, ast.arg)}
    changed = False

    def count(nodes, name):
        return sum(1 for st in nodes for n in ast.walk(st) if isinstance(n, ast.Name) and n.id == name)

    def blocks(node):
        for f, v in ast.iter_fields(node):
            if isinstance(v, list) and v and isinstance(v[0], ast.stmt):
                yield v
                for st in v:
                    if not isinstance(st, (ast.FunctionDef, ast.AsyncFunctionDef, ast.ClassDef)):
                        yield from blocks(st)
            elif isinstance(v, list):
                for x in v:
                    if isinstance(x, ast.ExceptHandler):
                        yield from blocks(x)
    again = True
    while again:
        again = False
        for blk in blocks(fn):
            for i, s1 in enumerate(blk):
                if not (isinstance(s1, ast.Assign) and len(s1.targets) == 1 and isinstance(s1.targets[0], ast.Name) and isinstance(s1.value, ast.Name)):
                    continue
                a, b = s1.targets[0].id, s1.value.id
                if a == b or a in params:
                    continue
                for j in range(i + 1, len(blk)):
                    s2 = blk[j]
                    if isinstance(s2, ast.Assign) and len(s2.targets) == 1 and isinstance(s2.targets[0], ast.Name) and s2.targets[0].id == b \
                            and isinstance(s2.value, ast.Name) and s2.value.id == a:
                        between = blk[i + 1:j]
                        if count(between, b) == 0 and count([fn], a) == count(blk[i:j + 1], a) \
                                and not any(isinstance(n, (ast.FunctionDef, ast.Lambda, ast.Global, ast.Nonlocal)) for st in between for n in ast.walk(st)):
                            for st in between:
                                for n in ast.walk(st):
                                    if isinstance(n, ast.Name) and n.id == a:
                                        n.id = b
                            blk[i:j + 1] = between
                            STATS["coalesce"] = STATS.get("coalesce", 0) + 1
                            again = changed = True
                        break
                    if count([s2], b) and isinstance(s2, ast.Assign) and any(isinstance(t, ast.Name) and t.id == b for t in s2.targets):
                        break
                if again:
                    break
            if again:
                break
    return changed


_RESIZERS = ("append", "extend", "insert", "pop", "remove", "clear", "popleft", "appendleft", "add", "discard", "update", "setdefault", "popitem", "resize")


def _len_temps(fn):
    """n = len(X), bound once at the top level of the function, X a parameter or local that the function neither rebinds
    afterwards nor resizes: `n` is `len(X)` wherever it is read (a loop bound hoisted into a local)"""
    params = {a.arg for a in ast.walk(fn.args) if isinstance(a, ast.arg)}
    stores = {}
    for n in ast.walk(fn):
        if isinstance(n, ast.Name) and isinstance(n.ctx, (ast.Store, ast.Del)):
            stores[n.id] = stores.get(n.id, 0) + 1
    done = False
    for st in list(fn.body):
        if not (isinstance(st, ast.Assign) and len(st.targets) == 1 and isinstance(st.targets[0], ast.Name) and isinstance(st.value, ast.Call)
                and isinstance(st.value.func, ast.Name) and st.value.func.id == "len" and len(st.value.args) == 1 and isinstance(st.value.args[0], ast.Name) and not st.value.keywords):
            continue
        n_, x_ = st.targets[0].id, st.value.args[0].id
        if stores.get(n_, 0) != 1 or n_ in params or n_ == x_:
            continue
        x_stores = stores.get(x_, 0)
        if x_ in params and x_stores != 0 or x_ not in params and x_stores != 1:
            continue
        if x_ not in params:
            # the single binding of X lies before this statement
            first = next((i for i, s2 in enumerate(fn.body) if any(isinstance(m, ast.Name) and m.id == x_ and isinstance(m.ctx, ast.Store) for m in ast.walk(s2))), None)
            if first is None or first >= fn.body.index(st):
                continue
        resized = False
        for m in ast.walk(fn):
            if isinstance(m, ast.Call) and isinstance(m.func, ast.Attribute) and isinstance(m.func.value, ast.Name) and m.func.value.id == x_ and m.func.attr in _RESIZERS:
                resized = True
            elif isinstance(m, ast.AugAssign) and isinstance(m.target, ast.Name) and m.target.id == x_:
                resized = True
            elif isinstance(m, (ast.Assign, ast.Delete)):
                for t in (m.targets if isinstance(m, (ast.Assign, ast.Delete)) else []):
                    if isinstance(t, ast.Subscript) and isinstance(t.value, ast.Name) and t.value.id == x_ and (isinstance(t.slice, ast.Slice) or isinstance(m, ast.Delete)):
                        resized = True
            elif isinstance(m, (ast.FunctionDef, ast.Lambda)) and m is not fn and any(isinstance(k, ast.Name) and k.id in (n_,) for k in ast.walk(m)):
                resized = True
        if resized:
            continue

        class R(ast.NodeTransformer):
            def visit_Name(self, k):
                if k.id == n_ and isinstance(k.ctx, ast.Load):
                    return ast.copy_location(ast.Call(func=ast.Name(id="len", ctx=ast.Load()), args=[ast.Name(id=x_, ctx=ast.Load())], keywords=[]), k)
                return k
        idx = fn.body.index(st)
        fn.body[idx:idx + 1] = []
        for i, s2 in enumerate(fn.body):
            fn.body[i] = ast.fix_missing_locations(R().visit(s2))
        STATS["len_temp"] = STATS.get("len_temp", 0) + 1
        done = True
    return done


def normalize_function(fn):
    _strip_annotations(fn)
    _coalesce_copies(fn)
    _len_temps(fn)
    if UNALIAS[0]:
        _multi_alias(fn)
        _split_rebinds(fn)
        _param_reads(fn)
    _defs_to_lambdas(fn)
    if UNALIAS[0]:
        _unalias(fn)
    fx = _Fn(fn)
    _fuse_list_loops(fn, fx)
    occ = {}
    for n in ast.walk(fn):
        if isinstance(n, ast.Name):
            occ[n.id] = occ.get(n.id, 0) + 1
        elif isinstance(n, ast.arg):
            occ[n.arg] = occ.get(n.arg, 0) + 1
    fn.body = _block(fn.body, fx, occ, top=True)
    if UNALIAS[0] and _unalias_once(fn):
        # aliases that only became visible after tuple assignments were split
        _unalias(fn)
        fn.body = _block(fn.body, fx, occ, top=True)
    STATS["functions"] += 1
    return fn


def _class_body(body):
    out = []
    for st in body:
        if isinstance(st, (ast.FunctionDef, ast.AsyncFunctionDef)):
            normalize_function(st)
        elif isinstance(st, ast.ClassDef):
            st.body = _class_body(st.body)
        out.append(st)
    return out


def _literal(e):
    if isinstance(e, ast.Constant):
        return isinstance(e.value, (str, int, float, bool, type(None)))
    if isinstance(e, ast.UnaryOp) and isinstance(e.op, (ast.USub, ast.UAdd)):
        return isinstance(e.operand, ast.Constant) and isinstance(e.operand.value, (int, float))
    if isinstance(e, ast.Tuple):
        return all(_literal(x) for x in e.elts)
    if isinstance(e, ast.Name):
        # a builtin exception class (TRANSIENT = (TimeoutError, RuntimeError)): as immutable as a number
        import builtins
        b = getattr(builtins, e.id, None)
        return isinstance(b, type) and issubclass(b, BaseException)
    return False


def _literal_list(e):
    return isinstance(e, (ast.List, ast.Tuple)) and all(_literal(x) or _literal_list(x) for x in e.elts)


def module_constants(tree):
    """NAME = <literal> bound exactly once at module level and nowhere else in the module"""
    stores = {}
    for n in ast.walk(tree):
        if isinstance(n, ast.Name) and not isinstance(n.ctx, ast.Load):
            stores[n.id] = stores.get(n.id, 0) + 1
        elif isinstance(n, (ast.Global, ast.Nonlocal)):
            for nm in n.names:
                stores[nm] = stores.get(nm, 0) + 2
        elif isinstance(n, ast.arg):
            stores[n.arg] = stores.get(n.arg, 0) + 1
        elif isinstance(n, ast.alias):
            nm = (n.asname or n.name).split(".")[0]
            stores[nm] = stores.get(nm, 0) + 1
        elif isinstance(n, (ast.FunctionDef, ast.AsyncFunctionDef, ast.ClassDef)):
            stores[n.name] = stores.get(n.name, 0) + 1
    # names whose object may be changed in place somewhere in the module (method call, element store, handed to a callee
    # that is not a plain constructor/inspector is not tracked: list tables are only inlined when merely indexed, iterated or passed)
    touched = set()
    for n in ast.walk(tree):
        if isinstance(n, ast.Call) and isinstance(n.func, ast.Attribute) and isinstance(n.func.value, ast.Name) and n.func.attr in _MUTATORS:
            touched.add(n.func.value.id)
        elif isinstance(n, (ast.Subscript, ast.Attribute)) and not isinstance(n.ctx, ast.Load) and isinstance(n.value, ast.Name):
            touched.add(n.value.id)
        elif isinstance(n, ast.AugAssign) and isinstance(n.target, ast.Name):
            touched.add(n.target.id)
    out = {}
    for st in tree.body:
        v = None
        if isinstance(st, ast.Assign) and len(st.targets) == 1 and isinstance(st.targets[0], ast.Name):
            nm, v = st.targets[0].id, st.value
        elif isinstance(st, ast.AnnAssign) and isinstance(st.target, ast.Name) and st.value is not None:
            nm, v = st.target.id, st.value
        if v is not None and _literal(v) and stores.get(nm, 0) == 1:
            out[nm] = v
        elif v is not None and _literal_list(v) and stores.get(nm, 0) == 1 and nm not in touched:
            out[nm] = v          # a table that is only ever read
    return out


SIGS = {}            # function / method / class name -> positional parameter names (without self), when every definition of
                     # that name in the package has the same list (filled by the loader)


def signatures(trees):
    sigs, clash = {}, set()

    def add(name, fn, drop_first):
        a = fn.args
        if a.vararg or a.kwarg or a.posonlyargs:
            clash.add(name)
            return
        ps = [x.arg for x in a.args][1 if drop_first else 0:]
        if name in sigs and sigs[name] != ps:
            clash.add(name)
        sigs.setdefault(name, ps)
    for tree in trees:
        for st in tree.body:
            if isinstance(st, ast.FunctionDef):
                add(st.name, st, False)
            elif isinstance(st, ast.ClassDef):
                for m in st.body:
                    if isinstance(m, ast.FunctionDef):
                        static = any(isinstance(d, ast.Name) and d.id == "staticmethod" for d in m.decorator_list)
                        if m.name == "__init__":
                            add(st.name, m, True)
                        elif not (m.name.startswith("__") and m.name.endswith("__")):
                            add(m.name, m, not static)
    return {k: v for k, v in sigs.items() if k not in clash}


PKG_CONSTS = {}      # module name -> its literal constants (filled by the loader for `from .m import NAME`)
CLASS_CONSTS = {}    # attribute name -> literal, for class-level constants that are unique in the package (filled by the loader)


def class_constants(trees):
    """NAME = <literal> in a class body, for names bound by exactly one class of the package and never assigned through an
    attribute store anywhere (`self.NAME = ..`, `Cls.NAME = ..`): reading `self.NAME` / `cls.NAME` / `Cls.NAME` gives the literal"""
    defs, stored = {}, set()
    for tree in trees:
        for n in ast.walk(tree):
            if isinstance(n, ast.ClassDef):
                for st in n.body:
                    tg = v = None
                    if isinstance(st, ast.Assign) and len(st.targets) == 1 and isinstance(st.targets[0], ast.Name):
                        tg, v = st.targets[0].id, st.value
                    elif isinstance(st, ast.AnnAssign) and isinstance(st.target, ast.Name) and st.value is not None:
                        tg, v = st.target.id, st.value
                    if tg is not None:
                        defs.setdefault(tg, []).append(v)
                    # names bound otherwise in a class body (methods, nested classes) shadow nothing here
            elif isinstance(n, ast.Attribute) and not isinstance(n.ctx, ast.Load):
                stored.add(n.attr)
            elif isinstance(n, ast.Call) and isinstance(n.func, ast.Name) and n.func.id == "setattr" and len(n.args) >= 2:
                if isinstance(n.args[1], ast.Constant) and isinstance(n.args[1].value, str):
                    stored.add(n.args[1].value)
                else:
                    stored.add("*")
    if "*" in stored:
        return {}
    return {k: v[0] for k, v in defs.items() if len(v) == 1 and k not in stored and k.isupper() and (_literal(v[0]) or _literal_list(v[0]))}


def _inline_constants(tree):
    """reads of a literal module constant (own or imported from a sibling module) inside functions become the literal:
    `features[FRONT_NUMBER]` with FRONT_NUMBER = 'front_number' is `features['front_number']`"""
    consts = dict(module_constants(tree))
    for st in tree.body:
        if isinstance(st, ast.ImportFrom) and st.level >= 1 and st.module:
            src = PKG_CONSTS.get(st.module.split(".")[-1], {})
            for a in st.names:
                if a.name in src and (a.asname or a.name) not in consts:
                    # imported under a name that is bound only by this import
                    consts[a.asname or a.name] = src[a.name]
    class_names = {c.name for c in ast.walk(tree) if isinstance(c, ast.ClassDef)}
    for st in tree.body:
        if isinstance(st, ast.ImportFrom) and st.level >= 1:
            class_names |= {a.asname or a.name for a in st.names}
    if not consts and not CLASS_CONSTS:
        return tree
    recv = [set()]

    class S(ast.NodeTransformer):
        def visit_Name(self, n):
            if isinstance(n.ctx, ast.Load) and n.id in consts:
                STATS["const"] = STATS.get("const", 0) + 1
                return _loc(copy.deepcopy(consts[n.id]), n)
            return n

        def visit_Attribute(self, n):
            # self.MAX_TRIES / cls.MAX_TRIES / Job.MAX_TRIES with MAX_TRIES a unique class-level literal of the package
            if isinstance(n.ctx, ast.Load) and n.attr in CLASS_CONSTS and isinstance(n.value, ast.Name) and (n.value.id in recv[0] or n.value.id in class_names):
                STATS["class_const"] = STATS.get("class_const", 0) + 1
                return _loc(copy.deepcopy(CLASS_CONSTS[n.attr]), n)
            return self.generic_visit(n)
    for fn in ast.walk(tree):
        if isinstance(fn, (ast.FunctionDef, ast.AsyncFunctionDef)):
            shadow = {a.arg for a in ast.walk(fn.args) if isinstance(a, ast.arg)}
            shadow |= {n.id for n in ast.walk(fn) if isinstance(n, ast.Name) and not isinstance(n.ctx, ast.Load)}
            live = {k: v for k, v in consts.items() if k not in shadow}
            first = fn.args.args[0].arg if fn.args.args else None
            recv[0] = {first} if first in ("self", "cls") else set()
            if live or CLASS_CONSTS:
                saved = consts
                consts = live
                fn.body = [S().visit(b) for b in fn.body]
                # default values read the constant at definition time: the same literal
                fn.args.defaults = [S().visit(d) for d in fn.args.defaults]
                consts = saved
    return tree


def normalize_module(tree, comp=True):
    if not ENABLED:
        return tree
    COMP[0] = comp
    tree = _inline_constants(tree)
    try:
        tree.body = _class_body(tree.body)
    finally:
        COMP[0] = True
    ast.fix_missing_locations(tree)
    return tree
