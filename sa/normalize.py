"""Syntactic normalisation of function bodies.

Rules compare what the code *does*; a refactoring that only changes how it is
spelled (a comprehension for an append loop, a tuple assignment for two
assignments, a conditional expression for an if/else, `setdefault` for the
`if k not in d` idiom, `extend([a, b])` for two appends) must give the same
verdict.  Every function of the package is brought to one canonical spelling
when it is loaded, before any rule sees it.  All rewrites are exact (the
rewritten function computes the same values with the same effects in the same
order) except that a comprehension variable becomes a local that survives the
loop; it is renamed when that could clash with another name of the function.

Passes (all applied by default; VERIF_NORM=0 switches the normaliser off):

  tuple    a, b = x, y            ->  a = x; b = y          (no cross dependency)
           a, b = name            ->  a = name[0]; b = name[1]
  ifexp    t = A if C else B      ->  if C: t = A  else: t = B   (also return / augmented)
  comp     t = [E for v in I if C] -> t = []; for v in I: if C: t.append(E)
           return [..]            ->  __cN = []; ...; return __cN
           T[...] = [..] / T.a = [..]   likewise through a fresh local
           t = {K: V for ..}      ->  t = {}; for ..: t[K] = V
           x.extend(E for v in I) ->  for v in I: x.append(E)
           x.extend([a, b])       ->  x.append(a); x.append(b)
           d.setdefault(k, []).append(v) -> if k not in d: d[k] = []
                                            d[k].append(v)
  unroll   for v in (p.a, q, r.b): BODY  ->  BODY[v:=p.a]; BODY[v:=q]; BODY[v:=r.b]
           (a literal tuple/list of at most 8 names or attribute paths, v not assigned in BODY,
           no break/continue in BODY: a spelled-out list of actions)
  verdict  if X.compare(a, b) OP lit: ..  ->  __fN = X.compare(a, b); if __fN OP lit: ..
           (a comparator verdict tested in place gets the name the rest of the code base gives it)
"""
import ast
import copy
import os

from .astutil import access_path, access_paths_in, paths_overlap, root_name

ENABLED = os.environ.get("VERIF_NORM", "1") != "0"
STATS = {"tuple": 0, "ifexp": 0, "comp": 0, "extend": 0, "setdefault": 0, "functions": 0}


def _loc(new, old):
    ast.copy_location(new, old)
    for n in ast.walk(new):
        if not hasattr(n, "lineno") and isinstance(n, (ast.expr, ast.stmt)):
            ast.copy_location(n, old)
    ast.fix_missing_locations(new)
    return new


class _Fn:
    """Per-function context: the set of names in use and a fresh-name counter."""

    def __init__(self, fn):
        self.names = {n.id for n in ast.walk(fn) if isinstance(n, ast.Name)}
        self.names |= {a.arg for a in ast.walk(fn) if isinstance(a, ast.arg)}
        self.k = 0

    def fresh(self, stem="c"):
        while True:
            self.k += 1
            nm = "__%s%d" % (stem, self.k)
            if nm not in self.names:
                self.names.add(nm)
                return nm


def _name(id_, ctx, ref):
    return _loc(ast.Name(id=id_, ctx=ctx), ref)


def _rename(node, mapping):
    class R(ast.NodeTransformer):
        def visit_Name(self, n):
            if n.id in mapping:
                return ast.copy_location(ast.Name(id=mapping[n.id], ctx=n.ctx), n)
            return n
    return R().visit(node)


def _count_name_outside(fnctx_names_counter, name):
    return fnctx_names_counter.get(name, 0)


# ---------------------------------------------------------------------- tuple
def _split_tuple(st):
    if not (isinstance(st, ast.Assign) and len(st.targets) == 1
            and isinstance(st.targets[0], (ast.Tuple, ast.List))):
        return None
    T = st.targets[0].elts
    if any(isinstance(t, (ast.Starred, ast.Tuple, ast.List)) for t in T):
        return None
    V = st.value
    if isinstance(V, (ast.Tuple, ast.List)) and len(V.elts) == len(T) \
            and not any(isinstance(v, ast.Starred) for v in V.elts):
        stored = []
        for t, v in zip(T, V.elts):
            reads = set(access_paths_in(v))
            if isinstance(t, (ast.Subscript, ast.Attribute)):
                reads |= access_paths_in(t.value)
                if isinstance(t, ast.Subscript):
                    reads |= access_paths_in(t.slice)
            # a call on the right-hand side could read anything the earlier targets changed
            if stored and any(isinstance(n, ast.Call) for n in ast.walk(v)):
                return None
            if any(paths_overlap(s, r) for s in stored for r in reads):
                return None
            p = access_path(t)
            if p is None:
                r = root_name(t)
                if r is None:
                    return None
                p = r
            stored.append(p)
        STATS["tuple"] += 1
        return [_loc(ast.Assign(targets=[copy.deepcopy(t)], value=copy.deepcopy(v)), st)
                for t, v in zip(T, V.elts)]
    if isinstance(V, ast.Name) and all(isinstance(t, ast.Name) for t in T) \
            and V.id not in {t.id for t in T}:
        STATS["tuple"] += 1
        return [_loc(ast.Assign(targets=[copy.deepcopy(t)],
                                value=ast.Subscript(value=ast.Name(id=V.id, ctx=ast.Load()),
                                                    slice=ast.Constant(value=j), ctx=ast.Load())), st)
                for j, t in enumerate(T)]
    return None


# ---------------------------------------------------------------------- ifexp
def _split_ifexp(st):
    if isinstance(st, ast.Assign) and isinstance(st.value, ast.IfExp):
        e = st.value
        mk = lambda v: _loc(ast.Assign(targets=copy.deepcopy(st.targets), value=copy.deepcopy(v)), st)
    elif isinstance(st, ast.AugAssign) and isinstance(st.value, ast.IfExp):
        e = st.value
        mk = lambda v: _loc(ast.AugAssign(target=copy.deepcopy(st.target), op=st.op, value=copy.deepcopy(v)), st)
    elif isinstance(st, ast.Return) and isinstance(st.value, ast.IfExp):
        e = st.value
        mk = lambda v: _loc(ast.Return(value=copy.deepcopy(v)), st)
    else:
        return None
    STATS["ifexp"] += 1
    return [_loc(ast.If(test=copy.deepcopy(e.test), body=[mk(e.body)], orelse=[mk(e.orelse)]), st)]


# ----------------------------------------------------------------------- comp
def _comp_loops(generators, inner, ref):
    """nested For/If statements for the comprehension clauses around `inner`"""
    body = inner
    for g in reversed(generators):
        for cond in reversed(g.ifs):
            body = [_loc(ast.If(test=copy.deepcopy(cond), body=body, orelse=[]), ref)]
        body = [_loc(ast.For(target=copy.deepcopy(g.target), iter=copy.deepcopy(g.iter),
                             body=body, orelse=[]), ref)]
    return body


def _comp_vars(comp):
    out = set()
    for g in comp.generators:
        for n in ast.walk(g.target):
            if isinstance(n, ast.Name):
                out.add(n.id)
    return out


def _prepare_comp(comp, st, fx, occurrences):
    """deep copy of the comprehension with clashing variables renamed, or None"""
    if any(g.is_async for g in comp.generators):
        return None
    c = copy.deepcopy(comp)
    inside = {}
    for n in ast.walk(comp):
        if isinstance(n, ast.Name):
            inside[n.id] = inside.get(n.id, 0) + 1
    mapping = {}
    for v in _comp_vars(comp):
        if occurrences.get(v, 0) > inside.get(v, 0):
            mapping[v] = fx.fresh("v")
    if mapping:
        # the first iterable is evaluated in the enclosing scope
        first = copy.deepcopy(c.generators[0].iter)
        c = _rename(c, mapping)
        c.generators[0].iter = first
    return c


def _lower_comp(st, fx, occurrences):
    """statement-level comprehension -> explicit loop"""
    value = None
    kind = None
    if isinstance(st, ast.Assign) and len(st.targets) == 1 and isinstance(st.value, (ast.ListComp, ast.DictComp)):
        value, kind = st.value, "assign"
    elif isinstance(st, ast.Return) and isinstance(st.value, (ast.ListComp, ast.DictComp)):
        value, kind = st.value, "return"
    if value is None:
        return None
    comp = _prepare_comp(value, st, fx, occurrences)
    if comp is None:
        return None
    tgt = st.targets[0] if kind == "assign" else None
    direct = isinstance(tgt, ast.Name) and tgt.id not in {n.id for n in ast.walk(value) if isinstance(n, ast.Name)}
    acc = tgt.id if direct else fx.fresh("c")
    if isinstance(comp, ast.ListComp):
        init = ast.List(elts=[], ctx=ast.Load())
        inner = [_loc(ast.Expr(value=ast.Call(
            func=ast.Attribute(value=ast.Name(id=acc, ctx=ast.Load()), attr="append", ctx=ast.Load()),
            args=[comp.elt], keywords=[])), st)]
    else:
        init = ast.Dict(keys=[], values=[])
        inner = [_loc(ast.Assign(targets=[ast.Subscript(value=ast.Name(id=acc, ctx=ast.Load()),
                                                        slice=comp.key, ctx=ast.Store())],
                                 value=comp.value), st)]
    out = [_loc(ast.Assign(targets=[ast.Name(id=acc, ctx=ast.Store())], value=init), st)]
    out += _comp_loops(comp.generators, inner, st)
    if kind == "return":
        out.append(_loc(ast.Return(value=ast.Name(id=acc, ctx=ast.Load())), st))
    elif not direct:
        out.append(_loc(ast.Assign(targets=[copy.deepcopy(tgt)], value=ast.Name(id=acc, ctx=ast.Load())), st))
    STATS["comp"] += 1
    return out


def _lower_extend(st, fx, occurrences):
    if not (isinstance(st, ast.Expr) and isinstance(st.value, ast.Call)
            and isinstance(st.value.func, ast.Attribute) and st.value.func.attr == "extend"
            and len(st.value.args) == 1 and not st.value.keywords):
        return None
    recv = st.value.func.value
    if access_path(recv) is None:
        return None
    arg = st.value.args[0]

    def app(e):
        return _loc(ast.Expr(value=ast.Call(
            func=ast.Attribute(value=copy.deepcopy(recv), attr="append", ctx=ast.Load()),
            args=[e], keywords=[])), st)
    if isinstance(arg, (ast.GeneratorExp, ast.ListComp)):
        rp = access_path(recv)
        if any(paths_overlap(rp, p) for p in access_paths_in(arg)):
            return None
        comp = _prepare_comp(arg, st, fx, occurrences)
        if comp is None:
            return None
        STATS["extend"] += 1
        return _comp_loops(comp.generators, [app(comp.elt)], st)
    if isinstance(arg, (ast.List, ast.Tuple)) and arg.elts and not any(isinstance(e, ast.Starred) for e in arg.elts):
        STATS["extend"] += 1
        return [app(copy.deepcopy(e)) for e in arg.elts]
    return None


def _lower_setdefault(st):
    # d.setdefault(k, []).append(v)
    if not (isinstance(st, ast.Expr) and isinstance(st.value, ast.Call)
            and isinstance(st.value.func, ast.Attribute) and st.value.func.attr == "append"
            and len(st.value.args) == 1):
        return None
    inner = st.value.func.value
    if not (isinstance(inner, ast.Call) and isinstance(inner.func, ast.Attribute)
            and inner.func.attr == "setdefault" and len(inner.args) == 2
            and isinstance(inner.args[1], ast.List) and not inner.args[1].elts):
        return None
    d, k = inner.func.value, inner.args[0]
    if access_path(d) is None or any(isinstance(n, ast.Call) for n in ast.walk(k)):
        return None
    sub = lambda ctx: ast.Subscript(value=copy.deepcopy(d), slice=copy.deepcopy(k), ctx=ctx)
    STATS["setdefault"] += 1
    return [
        _loc(ast.If(test=ast.Compare(left=copy.deepcopy(k), ops=[ast.NotIn()], comparators=[copy.deepcopy(d)]),
                    body=[ast.Assign(targets=[sub(ast.Store())], value=ast.List(elts=[], ctx=ast.Load()))],
                    orelse=[]), st),
        _loc(ast.Expr(value=ast.Call(func=ast.Attribute(value=sub(ast.Load()), attr="append", ctx=ast.Load()),
                                     args=[copy.deepcopy(st.value.args[0])], keywords=[])), st),
    ]


def _unroll_literal(st):
    if not (isinstance(st, ast.For) and isinstance(st.target, ast.Name) and not st.orelse
            and isinstance(st.iter, (ast.Tuple, ast.List)) and 1 <= len(st.iter.elts) <= 8):
        return None
    if not all(isinstance(e, (ast.Name, ast.Attribute)) and access_path(e) is not None for e in st.iter.elts):
        return None
    v = st.target.id
    for n in ast.walk(ast.Module(body=st.body, type_ignores=[])):
        if isinstance(n, (ast.Break, ast.Continue, ast.FunctionDef, ast.Lambda, ast.AsyncFunctionDef)):
            return None
        if isinstance(n, ast.Name) and n.id == v and not isinstance(n.ctx, ast.Load):
            return None
    out = []
    for e in st.iter.elts:
        for b in st.body:
            c = copy.deepcopy(b)

            class S(ast.NodeTransformer):
                def visit_Name(self, n):
                    if n.id == v and isinstance(n.ctx, ast.Load):
                        return ast.copy_location(copy.deepcopy(e), n)
                    return n
            out.append(S().visit(c))
    STATS["unroll"] = STATS.get("unroll", 0) + 1
    return out


def _hoist_verdict(st, fx):
    if not (isinstance(st, ast.If) and isinstance(st.test, ast.Compare) and len(st.test.ops) == 1
            and isinstance(st.test.left, ast.Call) and isinstance(st.test.left.func, ast.Attribute)
            and st.test.left.func.attr == "compare" and isinstance(st.test.comparators[0], ast.Constant)):
        return None
    nm = fx.fresh("f")
    asg = _loc(ast.Assign(targets=[ast.Name(id=nm, ctx=ast.Store())], value=st.test.left), st)
    new_if = ast.If(test=ast.Compare(left=ast.Name(id=nm, ctx=ast.Load()), ops=st.test.ops,
                                     comparators=st.test.comparators), body=st.body, orelse=st.orelse)
    STATS["verdict"] = STATS.get("verdict", 0) + 1
    return [asg, _loc(new_if, st)]


# --------------------------------------------------------------------- driver
def _block(stmts, fx, occ):
    out = []
    for st in stmts:
        out.extend(_stmt(st, fx, occ))
    return out


def _stmt(st, fx, occ):
    if isinstance(st, (ast.FunctionDef, ast.AsyncFunctionDef)):
        normalize_function(st)
        return [st]
    if isinstance(st, ast.ClassDef):
        st.body = _class_body(st.body)
        return [st]
    for rewrite in (_split_tuple, _split_ifexp, _lower_setdefault):
        r = rewrite(st)
        if r is not None:
            return _block(r, fx, occ)
    for rewrite in ((_lower_comp, _lower_extend) if COMP[0] else ()):
        r = rewrite(st, fx, occ)
        if r is not None:
            return _block(r, fx, occ)
    r = _hoist_verdict(st, fx)
    if r is not None:
        return _block(r, fx, occ)
    r = _unroll_literal(st)
    if r is not None:
        return _block(r, fx, occ)
    for field in ("body", "orelse", "finalbody"):
        b = getattr(st, field, None)
        if isinstance(b, list) and b and isinstance(b[0], ast.stmt):
            setattr(st, field, _block(b, fx, occ))
    if isinstance(st, ast.Try):
        for h in st.handlers:
            h.body = _block(h.body, fx, occ)
    if hasattr(ast, "Match") and isinstance(st, ast.Match):
        for c in st.cases:
            c.body = _block(c.body, fx, occ)
    return [st]


COMP = [True]     # lower statement-level comprehensions (switched off for the rules that interpret them directly)


def normalize_function(fn):
    fx = _Fn(fn)
    occ = {}
    for n in ast.walk(fn):
        if isinstance(n, ast.Name):
            occ[n.id] = occ.get(n.id, 0) + 1
        elif isinstance(n, ast.arg):
            occ[n.arg] = occ.get(n.arg, 0) + 1
    fn.body = _block(fn.body, fx, occ)
    STATS["functions"] += 1
    return fn


def _class_body(body):
    out = []
    for st in body:
        if isinstance(st, (ast.FunctionDef, ast.AsyncFunctionDef)):
            normalize_function(st)
        elif isinstance(st, ast.ClassDef):
            st.body = _class_body(st.body)
        out.append(st)
    return out


def normalize_module(tree, comp=True):
    if not ENABLED:
        return tree
    COMP[0] = comp
    try:
        tree.body = _class_body(tree.body)
    finally:
        COMP[0] = True
    ast.fix_missing_locations(tree)
    return tree
