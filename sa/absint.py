"""A small abstract interpreter for the comparison-style functions of artap.

Domain (all values are hashable tuples):
  ('fin', c)            a literal number / the exact value c
  ('big', s)            a magnitude beyond every literal (s = +1 / -1)
  ('bool', b)           True / False
  ('none',)             None
  ('str', s)            a string literal
  ('sym', fam, side, sign, chain, weak)
                        the value of the `side` ('p' or 'q') operand of the
                        comparison family `fam`, possibly negated (sign) and
                        pushed through the same chain of monotone maps
                        (`/ eps`, `* c`, floor...).  Two syms of one family
                        and equal chain compare according to the current
                        letter sigma[fam] in {'<','=','>'} (D-ORD); a weakly
                        monotone chain turns '<' into {'<','='}.
  ('obj', tag)          an opaque object identified by tag (candidate #0 ...)
  TOP                   unknown

An interpreter run explores *all* abstract executions: a condition whose value
is a set of definite booleans forks without loss; a condition that is TOP
forks too but marks the execution `tainted`, so that a later disagreement
with the oracle is reported INCONCLUSIVE rather than VIOLATED.

Loops over abstract sequences are solved as finite automata: the states are
the abstract environments at the loop head (plus the client's reference
state), the letters are supplied by the client, and the reachable state graph
is built to a fixpoint; each state keeps a shortest witness word.
"""
import ast
import math

from .astutil import text, access_path
from .loader import AnalysisError

TOP = ("top",)
NONE = ("none",)


def fin(c):
    return ("fin", c)


def boolean(b):
    return ("bool", bool(b))


def big(s):
    return ("big", 1 if s > 0 else -1)


def sym(fam, side, sign=1, chain=(), weak=False):
    return ("sym", fam, side, sign, chain, weak)


def obj(tag):
    return ("obj", tag)


def is_fin(v):
    return v[0] == "fin"


def is_num(v):
    return v[0] in ("fin", "big")


class Unsupported(AnalysisError):
    pass


def _cmp_num(a, b):
    """order symbol of two fin/big values or None"""
    if a[0] == "big" and b[0] == "big":
        if a[1] != b[1]:
            return "<" if a[1] < b[1] else ">"
        return None
    if a[0] == "big":
        return ">" if a[1] > 0 else "<"
    if b[0] == "big":
        return "<" if b[1] > 0 else ">"
    try:
        if a[1] < b[1]:
            return "<"
        if a[1] > b[1]:
            return ">"
        if a[1] == b[1]:
            return "="
    except TypeError:
        return None
    return None  # NaN


_OPREL = {ast.Lt: {"<"}, ast.LtE: {"<", "="}, ast.Gt: {">"}, ast.GtE: {">", "="},
          ast.Eq: {"="}, ast.NotEq: {"<", ">"}}
_FLIPREL = {"<": ">", ">": "<", "=": "="}


class Evaluator:
    """Expression evaluation.  `positive` = access paths assumed > 0."""

    def __init__(self, positive=(), negative=(), hooks=None):
        self.positive = set(positive)
        self.negative = set(negative)
        self.hooks = hooks  # object with optional lookup(node, env), call(node, env, ev)
        self.notes = set()

    # every eval returns a list of possible values (definite alternatives)
    def eval(self, node, env):
        m = getattr(self, "e_" + type(node).__name__, None)
        if m is None:
            return [TOP]
        return m(node, env)

    def one(self, node, env):
        vs = self.eval(node, env)
        return vs[0] if len(vs) == 1 else TOP

    def sign_of(self, node, env):
        """+1 / -1 / 0 / None for the sign of an expression used as a scale factor."""
        p = access_path(node)
        if p is not None:
            if p in self.positive:
                return 1
            if p in self.negative:
                return -1
            v = env.get(p)
            if v is not None and is_fin(v) and isinstance(v[1], (int, float)):
                return (v[1] > 0) - (v[1] < 0)
            if v is not None and v[0] in ("pos", "neg"):
                return 1 if v[0] == "pos" else -1
        if isinstance(node, ast.UnaryOp) and isinstance(node.op, ast.USub):
            s = self.sign_of(node.operand, env)
            return None if s is None else -s
        if isinstance(node, ast.Call) and isinstance(node.func, ast.Name) and node.func.id == "float" and node.args:
            return self.sign_of(node.args[0], env)
        vs = self.eval(node, env)
        if len(vs) == 1:
            v = vs[0]
            if is_fin(v) and isinstance(v[1], (int, float)) and not isinstance(v[1], bool):
                return (v[1] > 0) - (v[1] < 0)
            if v[0] in ("pos", "neg"):
                return 1 if v[0] == "pos" else -1
        return None

    # -- leaves
    def e_Constant(self, node, env):
        v = node.value
        if v is None:
            return [NONE]
        if isinstance(v, bool):
            return [boolean(v)]
        if isinstance(v, (int, float)):
            return [fin(v)]
        if isinstance(v, str):
            return [("str", v)]
        return [TOP]

    def _lookup(self, node, env):
        p = access_path(node)
        if p is not None and p in env:
            return [env[p]]
        if self.hooks is not None and hasattr(self.hooks, "lookup"):
            r = self.hooks.lookup(node, env, self)
            if r is not None:
                return r
        if p is not None and p in self.positive:
            return [("pos",)]
        if p in ("math.inf", "np.inf", "numpy.inf", "inf"):
            return [big(1)]
        return [TOP]

    e_Name = _lookup
    e_Attribute = _lookup

    def e_Subscript(self, node, env):
        # D[k] for a dictionary display bound to a local, k a concrete key
        b = access_path(node.value)
        if b is not None and b in env and env[b][0] == "dict" and not isinstance(node.slice, ast.Slice):
            out = []
            for k in self.eval(node.slice, env):
                if k[0] not in ("fin", "str", "bool", "none"):
                    return [TOP]
                hit = [v for kk, v in env[b][1] if kk == k]
                out.append(hit[-1] if hit else TOP)      # a missing key raises: not modelled
            return _dedup(out)
        return self._lookup(node, env)

    def e_Dict(self, node, env):
        items = []
        for k, v in zip(node.keys, node.values):
            if k is None:
                return [TOP]
            ks, vs = self.eval(k, env), self.eval(v, env)
            if len(ks) != 1 or len(vs) != 1 or ks[0][0] not in ("fin", "str", "bool", "none"):
                return [TOP]
            items.append((ks[0], vs[0]))
        return [("dict", tuple(items))]

    # -- operators
    def e_UnaryOp(self, node, env):
        out = []
        for v in self.eval(node.operand, env):
            if isinstance(node.op, ast.Not):
                t = self.truth(v)
                out.extend(boolean(not b) for b in t) if t is not None else out.append(TOP)
            elif isinstance(node.op, ast.USub):
                if v[0] == "fin" and isinstance(v[1], (int, float)):
                    out.append(fin(-v[1]))
                elif v[0] == "big":
                    out.append(big(-v[1]))
                elif v[0] == "sym":
                    out.append(("sym", v[1], v[2], -v[3], v[4], v[5]))
                elif v[0] in ("pos", "neg"):
                    out.append(("neg" if v[0] == "pos" else "pos",) + tuple(v[1:]))
                else:
                    out.append(TOP)
            elif isinstance(node.op, ast.UAdd):
                out.append(v)
            else:
                out.append(TOP)
        return _dedup(out)

    def e_BinOp(self, node, env):
        out = []
        for a in self.eval(node.left, env):
            for b in self.eval(node.right, env):
                out.append(self.binop(node, a, b, env))
        return _dedup(out)

    def binop(self, node, a, b, env):
        op = type(node.op)
        if a[0] == "fin" and b[0] == "fin" and all(isinstance(x[1], (int, float)) for x in (a, b)):
            try:
                x, y = a[1], b[1]
                return fin({ast.Add: lambda: x + y, ast.Sub: lambda: x - y, ast.Mult: lambda: x * y,
                            ast.Div: lambda: x / y, ast.FloorDiv: lambda: x // y, ast.Mod: lambda: x % y,
                            ast.Pow: lambda: x ** y}[op]())
            except (ZeroDivisionError, OverflowError, KeyError, ValueError):
                return TOP
        # sym scaled / shifted by a common sub-expression
        if a[0] == "sym" and b[0] != "sym":
            return self._sym_map(a, op, node.right, b, env, left=True)
        if b[0] == "sym" and a[0] != "sym":
            return self._sym_map(b, op, node.left, a, env, left=False)
        if a[0] == "sym" and b[0] == "sym" and op is ast.Sub and a[1] == b[1] and a[4] == b[4] and a[3] == b[3] \
                and a[2] != b[2] and not a[5] and not b[5]:
            # p - q : a signed difference whose sign is the letter
            return ("diff", a[1], a[2], a[3])
        sc = self._scale_arith(op, a, b)
        if sc is not None:
            return sc
        if a[0] == "big" or b[0] == "big":
            return self._big_arith(op, a, b)
        return TOP

    @staticmethod
    def _scale_of(v):
        """(sign, token) of a value usable as a scale factor, or None"""
        if v[0] in ("pos", "neg"):
            return (1 if v[0] == "pos" else -1), (v[1] if len(v) > 1 else "?")
        if v[0] == "fin" and isinstance(v[1], (int, float)) and not isinstance(v[1], bool) and v[1] != 0:
            return (1 if v[1] > 0 else -1), ("lit", abs(v[1]))
        return None

    def _scale_arith(self, op, a, b):
        if a[0] not in ("pos", "neg") and b[0] not in ("pos", "neg"):
            return None
        sa, sb = self._scale_of(a), self._scale_of(b)
        if sa is None or sb is None:
            return None
        if op in (ast.Mult, ast.Div):
            sg = sa[0] * sb[0]
            return ("pos" if sg > 0 else "neg", ("mul" if op is ast.Mult else "div", sa[1], sb[1]))
        if op is ast.Add and sa[0] == sb[0]:
            return ("pos" if sa[0] > 0 else "neg", ("add", sa[1], sb[1]))
        return None

    def _big_arith(self, op, a, b):
        def sgn(v):
            if v[0] == "big":
                return v[1]
            if v[0] == "fin" and isinstance(v[1], (int, float)):
                return (v[1] > 0) - (v[1] < 0)
            return None
        if op is ast.Add:
            if a[0] == "big" and b[0] == "big":
                return a if a[1] == b[1] else TOP
            return a if a[0] == "big" else (b if b[0] == "big" and a[0] == "fin" else TOP)
        if op is ast.Sub:
            if a[0] == "big" and b[0] == "big":
                return a if a[1] != b[1] else TOP
            if a[0] == "big" and b[0] == "fin":
                return a
            if b[0] == "big" and a[0] == "fin":
                return big(-b[1])
            return TOP
        if op in (ast.Mult, ast.Div):
            sa, sb = sgn(a), sgn(b)
            if sa is None or sb is None:
                return TOP
            if op is ast.Div and b[0] == "big":
                return TOP
            if sa == 0 or sb == 0:
                return TOP if op is ast.Div and sb == 0 else (fin(0.0) if a[0] == "fin" and sa == 0 else TOP)
            return big(sa * sb)
        if op is ast.Pow and a[0] == "big" and b[0] == "fin" and isinstance(b[1], (int, float)):
            if b[1] > 0 and float(b[1]).is_integer():
                return big(1 if int(b[1]) % 2 == 0 else a[1])
        return TOP

    def _sym_map(self, s, op, other_node, other_val, env, left):
        """sym (op) other  /  other (op) sym  for a factor/offset common to both sides."""
        sg = self.sign_of(other_node, env)
        key = text(other_node)
        if other_val[0] in ("pos", "neg") and len(other_val) > 1:
            key = other_val[1]     # identity of the scale value, not its spelling
        elif other_val[0] == "fin":
            key = ("lit", other_val[1])
        elif other_val[0] == "top":
            return TOP
        _, fam, side, sign, chain, weak = s
        if op in (ast.Mult,) or (op is ast.Div and left):
            if sg is None or sg == 0:
                return TOP
            return ("sym", fam, side, sign * sg, chain + (("mul" if op is ast.Mult else "div", key),), weak)
        if op is ast.FloorDiv and left:
            if sg is None or sg == 0:
                return TOP
            return ("sym", fam, side, sign * sg, chain + (("floordiv", key),), True)
        if op is ast.Add:
            return ("sym", fam, side, sign, chain + (("add", key),), weak)
        if op is ast.Sub:
            if left:
                return ("sym", fam, side, sign, chain + (("sub", key),), weak)
            return ("sym", fam, side, -sign, chain + (("rsub", key),), weak)
        return TOP

    def e_BoolOp(self, node, env):
        is_and = isinstance(node.op, ast.And)
        results = []

        def rec(i, last):
            if i == len(node.values):
                results.append(last)
                return
            for v in self.eval(node.values[i], env):
                t = self.truth(v)
                if t is None:
                    results.append(TOP)
                    continue
                for b in t:
                    if b != is_and:
                        results.append(v)
                    else:
                        rec(i + 1, v)
        rec(0, boolean(is_and))
        return _dedup(results)

    def e_IfExp(self, node, env):
        out = []
        for c in self.eval(node.test, env):
            t = self.truth(c)
            if t is None:
                return [TOP]
            for b in t:
                out.extend(self.eval(node.body if b else node.orelse, env))
        return _dedup(out)

    def e_Compare(self, node, env):
        if len(node.ops) != 1:
            return [TOP]
        op = type(node.ops[0])
        out = []
        for a in self.eval(node.left, env):
            for b in self.eval(node.comparators[0], env):
                out.extend(self.compare(op, a, b, env))
        return _dedup(out)

    def rel(self, a, b, env):
        """set of possible order symbols of a vs b, or None if unknown"""
        if a == b and a[0] in ("fin", "sym", "obj", "str", "none", "bool"):
            if a[0] == "fin" and isinstance(a[1], float) and a[1] != a[1]:
                return None
            return {"="}
        if is_num(a) and is_num(b):
            r = _cmp_num(a, b)
            return {r} if r else None
        if a[0] == "sym" and b[0] == "sym" and a[1] == b[1] and a[2] != b[2] and (a[4] != b[4] or a[3] != b[3]):
            # the two operands of one coordinate went through different maps (scaled by
            # different values / one side unscaled): for suitable inputs every order is realisable
            self.notes.add("the two sides of one comparison are transformed differently (%s vs %s)"
                           % ([x for x in a[4]], [y for y in b[4]]))
            return {"<", "=", ">"}
        if a[0] == "sym" and b[0] == "sym" and a[1] == b[1] and a[4] == b[4] and a[3] == b[3]:
            sigma = env.get(("sigma", a[1]))
            if sigma is None:
                return None
            if a[2] == b[2]:
                return {"="}
            r = sigma if a[2] == "p" else _FLIPREL[sigma]
            if a[3] < 0:
                r = _FLIPREL[r]
            if a[5] or b[5]:
                return {r, "="}
            return {r}
        if a[0] == "agg" and b[0] == "agg" and a[1] == b[1]:
            # float sums of the two objective vectors: their relation is a parameter of the run
            if a[2] == b[2]:
                return {"="}
            r = env.get(("aggrel", a[1]))
            if r is None:
                return None
            return {r if a[2] == "p" else _FLIPREL[r]}
        if a[0] == "diff" and b[0] == "fin" and b[1] == 0:
            sigma = env.get(("sigma", a[1]))
            if sigma is None:
                return None
            r = sigma if a[2] == "p" else _FLIPREL[sigma]
            if a[3] < 0:
                r = _FLIPREL[r]
            return {r}
        if b[0] == "diff" and a[0] == "fin" and a[1] == 0:
            r = self.rel(b, a, env)
            return None if r is None else {_FLIPREL[x] for x in r}
        if a[0] == "str" and b[0] == "str":
            return {"="} if a[1] == b[1] else {"<" if a[1] < b[1] else ">"}
        if a[0] in ("pos", "posdiff") and b[0] == "fin" and isinstance(b[1], (int, float)) and b[1] <= 0:
            return {">"}
        if b[0] in ("pos", "posdiff") and a[0] == "fin" and isinstance(a[1], (int, float)) and a[1] <= 0:
            return {"<"}
        return None

    def compare(self, op, a, b, env):
        if op in (ast.In, ast.NotIn) and b[0] == "dict":
            if a[0] in ("fin", "str", "bool", "none"):
                return [boolean(any(kk == a for kk, _ in b[1]) == (op is ast.In))]
            return [TOP]
        if op in (ast.Is, ast.IsNot):
            if a[0] == "top" or b[0] == "top":
                return [TOP]
            same = (a == b) if (a[0] in ("none", "bool", "obj") or b[0] in ("none", "bool", "obj")) else None
            if same is None:
                return [TOP]
            return [boolean(same if op is ast.Is else not same)]
        if op in (ast.Eq, ast.NotEq):
            kinds = {a[0], b[0]}
            if "top" not in kinds and (("none" in kinds and kinds != {"none"}) or
                                       ("str" in kinds and kinds - {"str"} and not kinds & {"sym", "diff"}) or
                                       (kinds == {"obj"} and a != b)):
                return [boolean(op is ast.NotEq)]
            if kinds == {"bool"} or kinds == {"bool", "fin"}:
                return [boolean((a[1] == b[1]) == (op is ast.Eq))]
        if op not in _OPREL:
            return [TOP]
        r = self.rel(a, b, env)
        if r is None:
            return [TOP]
        want = _OPREL[op]
        out = [boolean(x in want) for x in r]
        return _dedup(out)

    # -- calls
    def e_Call(self, node, env):
        name = access_path(node.func)
        short = name.split(".")[-1] if name else None
        if self.hooks is not None and hasattr(self.hooks, "call"):
            r = self.hooks.call(node, env, self)
            if r is not None:
                return r
        if node.keywords:
            return [TOP]
        args = [self.eval(a, env) for a in node.args]
        if short in ("abs", "fabs") and len(args) == 1:
            out = []
            for v in args[0]:
                if v[0] == "fin" and isinstance(v[1], (int, float)):
                    out.append(fin(abs(v[1])))
                elif v[0] == "big":
                    out.append(big(1))
                elif v[0] == "diff":
                    sigma = env.get(("sigma", v[1]))
                    out.append(("absdiff", v[1]) if sigma is None else (fin(0.0) if sigma == "=" else ("posdiff", v[1])))
                else:
                    out.append(TOP)
            return _dedup(out)
        if short in ("float",) and len(args) == 1:
            return [v if v[0] in ("fin", "big", "sym", "pos") else TOP for v in args[0]]
        if short in ("int", "round", "floor", "ceil", "trunc", "rint") and len(args) >= 1:
            out = []
            for v in args[0]:
                if v[0] == "fin" and isinstance(v[1], (int, float)) and len(args) == 1:
                    try:
                        f = {"int": int, "round": round, "floor": math.floor, "ceil": math.ceil,
                             "trunc": math.trunc, "rint": round}[short]
                        out.append(fin(f(v[1])))
                    except (ValueError, OverflowError):
                        out.append(TOP)
                elif v[0] == "sym":
                    out.append(("sym", v[1], v[2], v[3], v[4] + ((short, ""),), True))
                elif v[0] == "big":
                    out.append(v)
                else:
                    out.append(TOP)
            return _dedup(out)
        if short in ("max", "min") and len(args) >= 2:
            cur = args[0]
            for nxt in args[1:]:
                new = []
                for a in cur:
                    for b in nxt:
                        if a == b and a[0] != "top":
                            new.append(a)
                            continue
                        r = self.rel(a, b, env)
                        if r is None:
                            new.append(TOP)
                        else:
                            for x in r:
                                if short == "max":
                                    new.append(a if x in (">", "=") else b)
                                else:
                                    new.append(a if x in ("<", "=") else b)
                cur = _dedup(new)
            return cur
        if short in ("pow",) and len(args) == 2:
            out = []
            for a in args[0]:
                for b in args[1]:
                    out.append(self.binop(ast.BinOp(left=node.args[0], op=ast.Pow(), right=node.args[1]), a, b, env))
            return _dedup(out)
        return [TOP]

    # -- truthiness
    def truth(self, v):
        k = v[0]
        if k == "bool":
            return {v[1]}
        if k == "none":
            return {False}
        if k == "fin":
            return {bool(v[1])}
        if k in ("big", "pos", "posdiff"):
            return {True}
        if k == "str":
            return {bool(v[1])}
        if k == "obj":
            return {True}
        return None


def _dedup(vs):
    out = []
    for v in vs:
        if v not in out:
            out.append(v)
    return out


# ------------------------------------------------------------------ interpreter
STATS = {"states": 0, "transitions": 0, "runs": 0}


class Outcome:
    def __init__(self, kind, value, env, ref, tainted, word, node=None):
        self.kind = kind      # 'return' | 'fall' | 'raise'
        self.value = value
        self.env = env
        self.ref = ref
        self.tainted = tainted
        self.word = word
        self.node = node

    def __repr__(self):
        return "<%s %r ref=%r tainted=%s word=%s>" % (self.kind, self.value, self.ref, self.tainted, self.word)


class Interp:
    """Statement interpreter over the Evaluator's domain.

    client hooks (all optional unless a construct needs them):
      loop(node, env)        -> ('letters', [letter...]) | ('unroll', [binding dict...]) | None
      bind(node, letter, env, ref) -> (env2, ref2)   bind loop targets / sigma for a letter
      assign_hook(stmt, env) -> env2 | None           special assignments
      expr_hook(stmt, env, ref) -> [(env2, ref2)] | None   effects of expression statements
    """

    def __init__(self, evaluator, client, max_states=20000):
        self.ev = evaluator
        self.client = client
        self.max_states = max_states
        self.states = 0
        self.transitions = 0

    # state = (env(dict), ref, tainted, word)
    def run(self, body, env, ref=None):
        outs = []
        STATS["runs"] += 1
        for env2, ref2, taint, word, oc in self.block(body, dict(env), ref, False, ()):
            if oc[0] == "return":
                outs.append(Outcome("return", oc[1], env2, ref2, taint, word, oc[2]))
            elif oc[0] == "raise":
                outs.append(Outcome("raise", oc[1], env2, ref2, taint, word, oc[2]))
            else:
                outs.append(Outcome("fall", NONE, env2, ref2, taint, word))
        return outs

    def cond(self, test, env, taint):
        vs = self.ev.eval(test, env)
        seen = set()
        for v in vs:
            t = self.ev.truth(v)
            if t is None:
                for b in (True, False):
                    if (b, True) not in seen:
                        seen.add((b, True))
                        yield b, True
            else:
                for b in t:
                    if (b, taint) not in seen:
                        seen.add((b, taint))
                        yield b, taint

    def block(self, stmts, env, ref, taint, word):
        if not stmts:
            yield env, ref, taint, word, ("next",)
            return
        for env2, ref2, t2, w2, oc in self.stmt(stmts[0], env, ref, taint, word):
            if oc[0] == "next" and len(stmts) > 1:
                yield from self.block(stmts[1:], env2, ref2, t2, w2)
            else:
                yield env2, ref2, t2, w2, oc

    def assign(self, target, values, env):
        """yield envs with target bound to each possible value"""
        p = access_path(target)
        for v in values:
            e2 = dict(env)
            if p is None:
                if isinstance(target, (ast.Tuple, ast.List)):
                    raise Unsupported("tuple assignment target " + text(target))
                raise Unsupported("assignment target " + text(target))
            e2[p] = v
            # a write to x[...] / x.a invalidates nothing else we track by text
            yield e2

    def stmt(self, node, env, ref, taint, word):
        c = self.client
        if isinstance(node, ast.Assign):
            if hasattr(c, "assign_hook"):
                r = c.assign_hook(node, env, ref, self)
                if r is not None:
                    for env2, ref2 in r:
                        yield env2, ref2, taint, word, ("next",)
                    return
            if len(node.targets) != 1:
                raise Unsupported("chained assignment " + text(node))
            tgt = node.targets[0]
            if isinstance(tgt, (ast.Tuple, ast.List)) and isinstance(node.value, (ast.Tuple, ast.List)) \
                    and len(tgt.elts) == len(node.value.elts):
                vals = [self.ev.eval(v, env) for v in node.value.elts]
                envs = [dict(env)]
                for t, vs in zip(tgt.elts, vals):
                    envs = [e2 for e in envs for e2 in self.assign(t, vs, e)]
                for e in envs:
                    yield e, ref, taint, word, ("next",)
                return
            vs = self.ev.eval(node.value, env)
            for e2 in self.assign(tgt, vs, env):
                yield e2, ref, taint, word, ("next",)
        elif isinstance(node, ast.AnnAssign):
            if node.value is None:
                yield env, ref, taint, word, ("next",)
            else:
                for e2 in self.assign(node.target, self.ev.eval(node.value, env), env):
                    yield e2, ref, taint, word, ("next",)
        elif isinstance(node, ast.AugAssign):
            if hasattr(c, "augassign_hook"):
                r = c.augassign_hook(node, env, ref, self)
                if r is not None:
                    for env2, ref2 in r:
                        yield env2, ref2, taint, word, ("next",)
                    return
            fake = ast.BinOp(left=_load(node.target), op=node.op, right=node.value)
            for e2 in self.assign(node.target, self.ev.eval(fake, env), env):
                yield e2, ref, taint, word, ("next",)
        elif isinstance(node, ast.If):
            for b, t2 in self.cond(node.test, env, taint):
                yield from self.block(node.body if b else node.orelse, dict(env), ref, t2, word)
        elif isinstance(node, ast.Return):
            vs = [NONE] if node.value is None else self.ev.eval(node.value, env)
            for v in vs:
                yield env, ref, taint, word, ("return", v, node)
        elif isinstance(node, ast.Raise):
            yield env, ref, taint, word, ("raise", text(node.exc) if node.exc else "", node)
        elif isinstance(node, ast.Pass):
            yield env, ref, taint, word, ("next",)
        elif isinstance(node, ast.Break):
            yield env, ref, taint, word, ("break",)
        elif isinstance(node, ast.Continue):
            yield env, ref, taint, word, ("continue",)
        elif isinstance(node, ast.Expr):
            if isinstance(node.value, ast.Constant):
                yield env, ref, taint, word, ("next",)
                return
            if hasattr(c, "expr_hook"):
                r = c.expr_hook(node, env, ref, self)
                if r is not None:
                    for env2, ref2 in r:
                        yield env2, ref2, taint, word, ("next",)
                    return
            raise Unsupported("expression statement " + text(node))
        elif isinstance(node, (ast.For, ast.While)):
            yield from self.loop(node, env, ref, taint, word)
        elif isinstance(node, ast.Assert):
            for b, t2 in self.cond(node.test, env, taint):
                if b:
                    yield env, ref, t2, word, ("next",)
                else:
                    yield env, ref, t2, word, ("raise", "AssertionError", node)
        else:
            raise Unsupported("statement kind %s: %s" % (type(node).__name__, text(node).split("\n")[0]))

    # ---------------------------------------------------------------- loops
    def loop(self, node, env, ref, taint, word):
        env = dict(env)
        spec = self.client.loop(node, env, ref) if hasattr(self.client, "loop") else None
        if spec is None:
            raise Unsupported("loop " + text(node).split("\n")[0])
        kind, items = spec
        if kind == "unroll":
            yield from self._unroll(node, items, 0, env, ref, taint, word)
            return
        # automaton: BFS over (env, ref, taint) at the loop head
        def key(e, r, t):
            return (frozenset(e.items()), r, t)
        start = (dict(env), ref, taint, word)
        seen = {key(env, ref, taint): start}
        todo = [start]
        exits = []
        while todo:
            e0, r0, t0, w0 = todo.pop(0)
            self.states += 1
            STATS["states"] += 1
            if self.states > self.max_states:
                raise Unsupported("state space of loop at line %d exceeds %d" % (node.lineno, self.max_states))
            # the sequence may end here
            exits.append((e0, r0, t0, w0))
            if getattr(self, "max_word", None) is not None and len(w0) >= self.max_word:
                continue          # bounded mode: sequences up to this length only
            for letter in items:
                e1, r1 = self.client.bind(node, letter, dict(e0), r0)
                for e2, r2, t2, w2, oc in self.block(node.body, e1, r1, t0, w0 + (letter,)):
                    self.transitions += 1
                    STATS["transitions"] += 1
                    if oc[0] in ("next", "continue"):
                        k = key(e2, r2, t2)
                        if k not in seen:
                            seen[k] = (e2, r2, t2, w2)
                            todo.append(seen[k])
                    elif oc[0] == "break":
                        yield e2, r2, t2, w2, ("next",)
                    else:
                        yield e2, r2, t2, w2, oc
        for e0, r0, t0, w0 in exits:
            w0 = w0 + ("$",)          # the abstract sequence was consumed to its end
            if node.orelse:
                yield from self.block(node.orelse, dict(e0), r0, t0, w0)
            else:
                yield e0, r0, t0, w0, ("next",)

    def _unroll(self, node, items, i, env, ref, taint, word):
        if i == len(items):
            if node.orelse:
                yield from self.block(node.orelse, env, ref, taint, word)
            else:
                yield env, ref, taint, word, ("next",)
            return
        e1 = dict(env)
        e1.update(items[i])
        for e2, r2, t2, w2, oc in self.block(node.body, e1, ref, taint, word):
            if oc[0] in ("next", "continue"):
                yield from self._unroll(node, items, i + 1, e2, r2, t2, w2)
            elif oc[0] == "break":
                yield e2, r2, t2, w2, ("next",)
            else:
                yield e2, r2, t2, w2, oc


def _load(target):
    import copy
    t = copy.deepcopy(target)
    for n in ast.walk(t):
        if hasattr(n, "ctx"):
            n.ctx = ast.Load()
    return t
