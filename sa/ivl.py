"""Outward-rounded float intervals (D-IVL).

Every operation returns an interval that contains the exact real result for
all real arguments in the operand intervals; rounding is outward through
math.nextafter.  Possible domain errors (division by an interval containing
zero, sqrt/log of a possibly negative interval, non-integer power of a possibly
negative base) raise DomainError: the caller reports them as "possible domain
error", never silently.
"""
import math

INF = math.inf


class DomainError(Exception):
    pass


def _dn(x, n=1):
    for _ in range(n):
        x = math.nextafter(x, -INF)
    return x


def _up(x, n=1):
    for _ in range(n):
        x = math.nextafter(x, INF)
    return x


class I:
    __slots__ = ("lo", "hi")

    def __init__(self, lo, hi=None):
        if hi is None:
            hi = lo
        self.lo = float(lo)
        self.hi = float(hi)
        if self.lo > self.hi:
            raise ValueError("empty interval %r %r" % (lo, hi))

    def __repr__(self):
        return "[%.17g, %.17g]" % (self.lo, self.hi)

    @property
    def width(self):
        return self.hi - self.lo

    @property
    def mid(self):
        m = 0.5 * (self.lo + self.hi)
        if math.isinf(m):
            m = 0.5 * self.lo + 0.5 * self.hi
        return m

    def contains(self, x):
        return self.lo <= x <= self.hi

    def is_point(self):
        return self.lo == self.hi

    # ------------------------------------------------------------ arithmetic
    def __neg__(self):
        return I(-self.hi, -self.lo)

    def __add__(self, o):
        o = lift(o)
        lo = self.lo + o.lo
        hi = self.hi + o.hi
        if not _exact_add(self.lo, o.lo):
            lo = _dn(lo)
        if not _exact_add(self.hi, o.hi):
            hi = _up(hi)
        return I(lo, hi)

    __radd__ = __add__

    def __sub__(self, o):
        return self + (-lift(o))

    def __rsub__(self, o):
        return lift(o) + (-self)

    def __mul__(self, o):
        o = lift(o)
        ps = [(_mul(x, y), x == 0.0 or y == 0.0) for x in (self.lo, self.hi) for y in (o.lo, o.hi)]
        lo = min(ps, key=lambda t: t[0])
        hi = max(ps, key=lambda t: t[0])
        if self.is_point() and o.is_point() and _exact_mul(self.lo, o.lo):
            return I(lo[0], hi[0])
        # an endpoint that is an exact zero (one factor is zero) is not widened
        lo_exact = any(v == lo[0] and ex for v, ex in ps)
        hi_exact = any(v == hi[0] and ex for v, ex in ps)
        return I(lo[0] if lo_exact else _dn(lo[0]), hi[0] if hi_exact else _up(hi[0]))

    __rmul__ = __mul__

    def recip(self):
        if self.lo <= 0.0 <= self.hi:
            raise DomainError("division by an interval containing zero %r" % self)
        return I(_dn(1.0 / self.hi), _up(1.0 / self.lo))

    def __truediv__(self, o):
        o = lift(o)
        if o.lo <= 0.0 <= o.hi:
            raise DomainError("division by an interval containing zero %r" % o)
        if o.is_point() and o.lo in (1.0, -1.0):
            return self if o.lo == 1.0 else -self
        ps = [(x / y, x == 0.0) for x in (self.lo, self.hi) for y in (o.lo, o.hi)]
        lo = min(ps, key=lambda t: t[0])[0]
        hi = max(ps, key=lambda t: t[0])[0]
        lo_exact = any(v == lo and ex for v, ex in ps)
        hi_exact = any(v == hi and ex for v, ex in ps)
        return I(lo if lo_exact else _dn(lo), hi if hi_exact else _up(hi))

    def __rtruediv__(self, o):
        return lift(o) / self

    def __abs__(self):
        if self.lo >= 0:
            return self
        if self.hi <= 0:
            return -self
        return I(0.0, max(-self.lo, self.hi))

    def sqr(self):
        a = abs(self)
        return I(_dn(a.lo * a.lo) if a.lo > 0 else 0.0, _up(a.hi * a.hi))

    def ipow(self, n):
        """integer power"""
        if n == 0:
            return I(1.0)
        if n < 0:
            return self.ipow(-n).recip()
        if n == 1:
            return self
        if n % 2 == 0:
            a = abs(self)
            return I(max(0.0, _dn(_pw(a.lo, n))) if a.lo > 0 else 0.0, _up(_pw(a.hi, n)))
        return I(_dn(_pw(self.lo, n)), _up(_pw(self.hi, n)))

    def __pow__(self, e):
        if isinstance(e, I) and e.is_point():
            e = e.lo
        if isinstance(e, (int, float)) and float(e).is_integer() and abs(e) < 1e6:
            return self.ipow(int(e))
        e = lift(e)
        # general: exp(e * log(self)), base must be positive (or zero with positive exponent)
        if self.lo < 0:
            raise DomainError("non-integer power of a possibly negative base %r ** %r" % (self, e))
        if self.lo == 0.0:
            if e.lo <= 0:
                raise DomainError("zero base with non-positive exponent %r ** %r" % (self, e))
            if self.hi == 0.0:
                return I(0.0)
            hi = I(self.hi) ** e
            return I(0.0, max(hi.hi, 0.0) if e.lo > 0 else hi.hi)
        return (e * self.log()).exp()

    def __rpow__(self, b):
        return lift(b) ** self

    # ------------------------------------------------------------ functions
    def sqrt(self):
        if self.lo < 0:
            raise DomainError("sqrt of a possibly negative interval %r" % self)
        return I(max(0.0, _dn(math.sqrt(self.lo))), _up(math.sqrt(self.hi)))

    def exp(self):
        return I(max(0.0, _dn(_exp(self.lo), 2)), _up(_exp(self.hi), 2))

    def log(self):
        if self.lo <= 0:
            raise DomainError("log of a possibly non-positive interval %r" % self)
        return I(_dn(math.log(self.lo), 2), _up(math.log(self.hi), 2))

    def cos(self):
        return _trig(self, math.cos, 0.0)

    def sin(self):
        # sin(x) = cos(x - pi/2): extrema of sin at pi/2 + 2 pi n (max), -pi/2 + 2 pi n (min)
        if self.lo == 0.0 and self.hi == 0.0:
            return I(0.0)           # sin(+-0) is +-0 exactly (IEEE 754 / C99): the program sees a zero, e.g. in a truth test
        return _trig(self, math.sin, math.pi / 2)

    def hull(self, o):
        o = lift(o)
        return I(min(self.lo, o.lo), max(self.hi, o.hi))

    def split(self):
        m = self.mid
        return I(self.lo, m), I(m, self.hi)


def _exact_add(a, b):
    if a == 0.0 or b == 0.0:
        return True
    s = a + b
    return math.isfinite(s) and (s - a == b) and (s - b == a)


def _exact_mul(a, b):
    if a == 0.0 or b == 0.0:
        return True
    p = a * b
    if not math.isfinite(p) or p == 0.0:
        return False
    fa, fb = math.frexp(a)[0], math.frexp(b)[0]
    # products of short mantissas are exact; cheap sufficient test via integers
    try:
        return float(int(fa * 2 ** 26)) == fa * 2 ** 26 and float(int(fb * 2 ** 26)) == fb * 2 ** 26
    except (OverflowError, ValueError):
        return False


def _mul(a, b):
    if a == 0.0 or b == 0.0:
        return 0.0
    return a * b


def _pw(x, n):
    try:
        return x ** n
    except OverflowError:
        return INF if (x > 0 or n % 2 == 0) else -INF


def _exp(x):
    try:
        return math.exp(x)
    except OverflowError:
        return INF


TWO_PI = 2 * math.pi


def _trig(iv, f, max_at):
    """range of a 2pi-periodic function f with maxima (=1) at max_at + 2 pi n and minima (=-1) at max_at + pi + 2 pi n"""
    a, b = iv.lo, iv.hi
    if not (math.isfinite(a) and math.isfinite(b)):
        return I(-1.0, 1.0)
    if b - a >= TWO_PI:
        return I(-1.0, 1.0)
    # error margin on the position of the extrema (pi is rounded; arguments may be large)
    eps = 4e-16 * (abs(a) + abs(b) + 8.0)
    fa, fb = f(a), f(b)
    lo = min(fa, fb)
    hi = max(fa, fb)

    def has(point0):
        n = math.ceil((a - eps - point0) / TWO_PI)
        return point0 + n * TWO_PI <= b + eps
    if has(max_at):
        hi = 1.0
    if has(max_at + math.pi):
        lo = -1.0
    return I(max(-1.0, _dn(lo, 3)), min(1.0, _up(hi, 3)))


def lift(x):
    if isinstance(x, I):
        return x
    if isinstance(x, bool):
        return I(float(x))
    if isinstance(x, (int, float)):
        return I(float(x))
    raise TypeError("cannot lift %r to an interval" % (x,))


PI = I(_dn(math.pi), _up(math.pi))
E = I(_dn(math.e), _up(math.e))
