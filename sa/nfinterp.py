"""D-NF: abstract interpretation of a numeric function in the domain of exact rational normal forms.

The interpreter of ivlinterp is run with the coordinates bound to *atoms* x0, x1, ... instead of
intervals; every arithmetic result is a rational function over these atoms (sa/poly.py: Fraction
coefficients, float literals converted exactly), calls of cos / sin / exp / sqrt / log / abs become new
atoms named by the canonical key of their argument.  Loop bounds, indices and sizes stay concrete
Python integers, so for a *fixed* instance size (number of objectives, number of variables) the loops
unroll and the function's value is one closed-form term per output, independent of how the source
spells it (helpers, accumulators, comprehensions, caches).

Two terms with the same normal form are equal as functions on the whole box.  `pythagoras` rewrites
sin(K)^2 to 1 - cos(K)^2, which decides the sphere identities of the DTLZ family.  Different normal
forms prove nothing (other identities may relate them): the caller must not report a violation from
them.  Nothing is executed and no solver is involved: this is term rewriting to a canonical form.
"""
import ast
import math
from fractions import Fraction

from . import poly
from .astutil import access_path, text
from .ivlinterp import Interp, Unsupported, Obj, Ret


class NF:
    __slots__ = ("r",)

    def __init__(self, r):
        self.r = r

    def __repr__(self):
        return "NF%s" % canon_key(self.r)


def const(v):
    if isinstance(v, bool):
        v = int(v)
    if isinstance(v, float):
        if math.isinf(v) or math.isnan(v):
            raise Unsupported("non-finite constant in a normal form")
        return poly.R(poly.P(Fraction(v)))
    return poly.R(poly.P(Fraction(v)))


def lift(v):
    if isinstance(v, NF):
        return v.r
    if isinstance(v, (int, float, bool)):
        return const(v)
    raise Unsupported("operand %r has no normal form" % (v,))


def _scale(p, k):
    return {m: c * k for m, c in p.items()}


def canon(r):
    """same rational function with a normalised denominator (constant denominators are divided out)"""
    if not r.den:
        raise Unsupported("zero denominator")
    if all(m == () for m in r.den):
        k = 1 / r.den[()]
        return poly.R(_scale(r.num, k), poly.P(1))
    lead = sorted(r.den.items(), key=lambda kv: str(kv[0]))[0][1]
    return poly.R(_scale(r.num, 1 / lead), _scale(r.den, 1 / lead))


def canon_key(r):
    return poly.key_of(canon(r))


FUNCS = {"cos": "cos", "sin": "sin", "exp": "exp", "sqrt": "sqrt", "log": "log", "abs": "abs", "fabs": "abs", "absolute": "abs"}


def fatom(f, r):
    return NF(poly.R(poly.atom("%s<%s>" % (f, canon_key(r)))))


def pythagoras(p):
    """polynomial p with every sin<K>^e (e >= 2) rewritten through sin^2 = 1 - cos^2"""
    out = {}
    for m, c in p.items():
        acc = {(): c}
        for k, e in m:
            if k.startswith("sin<") and e >= 2:
                ck = "cos<" + k[4:]
                one_minus = poly.padd(poly.P(1), poly.ppow(poly.atom(ck), 2), -1)
                acc = poly.pmul(acc, poly.ppow(one_minus, e // 2))
                if e % 2:
                    acc = poly.pmul(acc, poly.atom(k))
            else:
                acc = poly.pmul(acc, {((k, e),): Fraction(1)})
        out = poly.padd(out, acc)
    return out


def equal_mod_pythagoras(a, b):
    """a == b as functions, using field axioms and sin^2 + cos^2 = 1 only"""
    left = pythagoras(poly.pmul(a.num, b.den))
    right = pythagoras(poly.pmul(b.num, a.den))
    return left == right


class NFInterp(Interp):
    """Interp over normal forms; `methods` (name -> FunctionDef) are callable on the bound self object"""

    def __init__(self, funcs, methods=None, selfo=None):
        super().__init__(funcs)
        self.methods_ = methods or {}
        self.selfo = selfo

    def binop(self, op, a, b, n=None):
        if isinstance(a, NF) or isinstance(b, NF):
            if op is ast.Pow:
                if isinstance(b, NF):
                    try:
                        b = b.r.const()
                    except poly.NotPolynomial:
                        raise Unsupported("symbolic exponent")
                if isinstance(b, float) and b.is_integer():
                    b = int(b)
                if isinstance(b, Fraction) and b.denominator == 1:
                    b = int(b)
                if not isinstance(b, int) or isinstance(b, bool) or abs(b) > 400:
                    if isinstance(b, (float, Fraction)) and Fraction(b) == Fraction(1, 2):
                        return fatom("sqrt", lift(a))
                    raise Unsupported("power %r of a normal form" % (b,))
                A = lift(a)
                out = const(1)
                base = A if b >= 0 else const(1) / A
                for _ in range(abs(b)):
                    out = out * base
                return NF(out)
            A, B = lift(a), lift(b)
            try:
                if op is ast.Add:
                    return NF(A + B)
                if op is ast.Sub:
                    return NF(A - B)
                if op is ast.Mult:
                    return NF(A * B)
                if op is ast.Div:
                    return NF(A / B)
            except poly.NotPolynomial as e:
                raise Unsupported(str(e))
            raise Unsupported("operator %s on normal forms" % op.__name__)
        return super().binop(op, a, b, n)

    def e_BinOp(self, n, env):
        a = self.ev(n.left, env)
        b = self.ev(n.right, env)
        return self.binop(type(n.op), a, b, n)

    def e_UnaryOp(self, n, env):
        if isinstance(n.op, (ast.USub, ast.UAdd)):
            v = self.ev(n.operand, env)
            if isinstance(v, NF):
                return NF(-v.r) if isinstance(n.op, ast.USub) else v
            if isinstance(v, (int, float)) and not isinstance(v, bool):
                return -v if isinstance(n.op, ast.USub) else v
        return super().e_UnaryOp(n, env)

    def e_Compare(self, n, env):
        vals = [self.ev(n.left, env)] + [self.ev(c, env) for c in n.comparators]
        if len(n.ops) == 1 and isinstance(n.ops[0], (ast.Is, ast.IsNot)) and isinstance(n.comparators[0], ast.Constant) and n.comparators[0].value is None \
                and isinstance(vals[0], NF):
            return isinstance(n.ops[0], ast.IsNot)          # a computed value is not None
        if any(isinstance(v, NF) for v in vals):
            raise Unsupported("comparison of a coordinate-dependent value: %s" % text(n))
        return super().e_Compare(n, env)

    def e_Call(self, n, env):
        nm = access_path(n.func) or ""
        short = nm.split(".")[-1]
        if isinstance(n.func, ast.Attribute) and isinstance(n.func.value, ast.Name) and self.selfo is not None \
                and env.get(n.func.value.id) is self.selfo and n.func.attr in self.methods_:
            args = [self.ev(a, env) for a in n.args]
            kw = {k.arg: self.ev(k.value, env) for k in n.keywords}
            fn = self.methods_[n.func.attr]
            static = any(isinstance(d, ast.Name) and d.id == "staticmethod" for d in fn.decorator_list)
            return self.call_function(fn, args, kw, self_obj=None if static else self.selfo)
        if short in FUNCS or nm in ("float", "pow", "abs") or short == "pow":
            args = [self.ev(a, env) for a in n.args]
            if any(isinstance(a, NF) for a in args):
                if n.keywords:
                    raise Unsupported("keyword arguments in %s" % text(n))
                if (short == "pow" or nm == "pow") and len(args) == 2:
                    return self.binop(ast.Pow, args[0], args[1], n)
                if nm == "float" and len(args) == 1:
                    return args[0]
                if short in FUNCS and len(args) == 1 and (nm == short or nm.startswith(("np.", "numpy.", "math."))):
                    return fatom(FUNCS[short], lift(args[0]))
                raise Unsupported("call %s on a normal form" % text(n.func))
            # concrete arguments: fall through to the ordinary evaluation (re-evaluates pure arguments)
        return super().e_Call(n, env)

    def truth(self, v):
        if isinstance(v, NF):
            raise Unsupported("branch on a coordinate-dependent value")
        return super().truth(v)


def run_method(cls_methods, funcs, fn, selfo, xs):
    """normal forms of fn(self, Individual-like(vector=xs)); raises Unsupported outside the fragment"""
    it = NFInterp(funcs, cls_methods, selfo)
    params = [a.arg for a in fn.args.args]
    env = {params[0]: selfo, params[1]: Obj(vector=list(xs))}
    try:
        it.block(fn.body, env)
    except Ret as r:
        return r.value
    return None


def coords(n):
    return [NF(poly.R(poly.atom("x%d" % i))) for i in range(n)]
