"""What MANIFEST.json claims, per property (consumed by tools/gen_manifest.py)."""

CLAIMS = {
    "C20": {
        "category": "other",
        "technique": "abstract interpretation of __eq__ to a finite automaton over coordinate-difference letters; affine range check; access-path provenance of __hash__",
        "text": "Decides, for every vector length n>=1 and every pattern of differing coordinates, that Individual.__eq__ (and any "
                "overriding subclass) returns True exactly when no coordinate differs: the coordinate loop is solved as a finite "
                "automaton over the letters {equal, differs by +, differs by -}, so the verdict covers all lengths and all subsets of "
                "differing coordinates, which the test-suite samples at a handful of points. Also decides that __hash__ is a function "
                "of the vector only and that tolerance literals are at most 1e-10.",
        "note": "Trusts: Python's list/tuple hashing; abstraction of a coordinate difference as zero or beyond-every-tolerance "
                "(differences inside (0,1e-10) are not modelled); equal vector lengths.",
    },
}

CLAIMS["C14"] = {
        "category": "other",
        "technique": "typestate of evaluator work lists over enumerated paths; structural/affine rules on neighbour construction; formula-shape and write-once path rules",
        "text": "Decides on every control-flow path of the worst-case and gradient evaluators that (1) the work lists filled per batch are "
                "emptied after their last use (the stability clause: no re-processing, cost vector length fixed, for any number of batches), "
                "(2) neighbours are fresh copies displaced at the axis index by +/- the tolerance of the same-index parameter, one per "
                "(axis, sign), (3) the extra objective is sum |f0(x)-f0(neighbour)| written once into costs and signed costs before the marker, "
                "(4) the gradient is the forward quotient with the displacement step 1e-4 and n extra evaluations. The tests run one or two "
                "batches of one problem; the path rules cover every batch sequence and dimension.",
        "note": "Trusts: list.copy/list() make independent lists; each design object is evaluated in one batch only; evaluate_scalar is outside the claim.",
    }

CLAIMS["C19"] = {
    "category": "other",
    "technique": "exhaustive path enumeration (callee inlined, guard feasibility) with value-provenance tracking and effect counting per path",
    "text": "Enumerates every control-flow path of SurrogateModelPredict.evaluate (evaluate_individual inlined) and of the pass-through "
            "surrogate over the atoms {trained, hook present, hook result None, train_step=-1, counter divisible} and decides per path: "
            "exactly one counter increment; a hook result is returned only under trained & hook & not-None; otherwise one objective call, "
            "returned unmodified (provenance), add_data(vector,value) once after it, increment before the modulo, train() iff enabled and "
            "divisible; every train() leaves trained True. Because requests are independent given the state atoms, the per-path table "
            "covers every request sequence and every hook decision pattern, which the tests never assert.",
    "note": "Trusts: self.problem.surrogate aliases the surrogate; objective/hook do not touch the bookkeeping; loops in callee train() bounded 0/1.",
}

CLAIMS["C06"] = {
    "category": "other",
    "technique": "path enumeration of Job.evaluate with exception edges; handler classification (retry / re-raise / swallow) by the paths of each handler body; event-order rules per path",
    "text": "Decides on every control-flow path of Job.evaluate (exception edge from every call-bearing statement of the try body to every "
            "handler that may match; attempt loop unrolled 1-2 times, bound folded to a literal) that: the bound is 5 and exhaustion raises "
            "RuntimeError; the handlers that retry catch exactly {TimeoutError, RuntimeError} and on each of their paths log a fresh copy "
            "of the failing vector before re-sampling from gen_vector(parameters) and leave the design non-EVALUATED; every other handler "
            "re-raises; EVALUATED is only written after the attempt's objective call completed, with the vector untouched until the "
            "return. This constrains every failure pattern (which calls fail, with which type), including the 4/5-in-a-row boundary the "
            "randomised test cannot reach.",
    "note": "Trusts: gen_vector samples in bounds (C08); Individual(vector) copies the vector (checked in C05/C08 rules); pumping argument for attempts > 2.",
}

CLAIMS["C01"] = {
    "category": "model_checking",
    "technique": "finite automaton extracted from both compare() bodies by abstract interpretation in the order-symbol domain; exhaustive product with the reference automaton of textbook dominance",
    "text": "Both comparators touch costs only through comparisons, so their verdict is a function of the marker case and the word of "
            "per-coordinate order symbols {<,=,>}. The check extracts that function from the source as a finite automaton (abstract "
            "environments at the loop head = states; scale factors tracked by value identity so both sides must be scaled by the same "
            "positive epsilon) and explores the product with the reference automaton exhaustively for 25 marker pairs: agreement on every "
            "reachable state means agreement for every vector length and every pair of cost vectors, hence the strict-partial-order laws "
            "of the reference transfer; the epsilon comparator must additionally name a loser on the all-equal word. Exact for the "
            "abstraction (total order on finite floats), which is why this is model checking of a static abstraction rather than testing.",
    "note": "Trusts: finite floats without NaN; positive epsilons; x/eps order-preserving up to rounding (granted by the property); markers "
            "represented by {0,+-1,+-2}, which realise every truth assignment of the cascade's atoms. No trace is replayed against the running implementation.",
}

CLAIMS["C17"] = {
    "category": "other",
    "technique": "path rules over Results/Problem query methods (filter equality, lock-step appends, sort-before-reorder typestate), decision table of find_optimum, reduction-structure rules for the indicators, numpy API existence query",
    "text": "Decides the structural clauses behind the result views: tag filters use equality while iterating the record in order and the "
            "default is the maximum tag; parallel lists are filled in lock-step from one individual on every path; a key list is sorted "
            "in place only after its partner was reordered with the still-unsorted keys (typestate on every path of the three sorting "
            "queries), and sort_list returns the partner components; find_optimum maps minimise/absent to min and anything else to max, "
            "keyed by the named cost; gd reduces over the reference axis and averages over the computed set, epsilon_add is the "
            "max-min-max nest from a zero start; and every numpy attribute used exists in the repository's numpy. These hold for all "
            "recorded data sets because they are statements about the code paths, not about sample data. Indicator *values* are not decided.",
    "note": "Trusts: sorted/zip/min/max builtins, scipy cdist orientation; one `hasattr(numpy, name)` query against /venv's numpy (inspects numpy, not artap).",
}

CLAIMS["C04"] = {
    "category": "other",
    "technique": "path enumeration of Archive.add with a finite verdict domain (decision table per scanned member, effect counting, index-correction tracking); order algebra for truncate; ownership scan of the content list",
    "text": "Decides on every path of Archive.add (scan loop unrolled 0-2 members, comparator verdict restricted to {0,1,2}) the per-member "
            "action table - newcomer dominates: that member and only it is deleted (index into the live list corrected by the running "
            "deletion count, scan over a snapshot, scan continues); member dominates or equal vector: rejected; otherwise nothing - and that "
            "the newcomer is appended exactly once iff never rejected, with the success flag equal to that. truncate is decided by an order "
            "algebra over sorted/reverse/slice (largest feature values survive). Only add/truncate/remove mutate the content list. With "
            "C01 these local rules give the global invariant for every add sequence by induction; the induction itself is the usual "
            "argument and is not re-proved.",
    "note": "Trusts: comparator verdicts in {0,1,2} and a strict partial order (C01); list snapshot semantics; scan of 0-2 members is representative (uniform loop body).",
}

CLAIMS["C03"] = {
    "category": "other",
    "technique": "decision tables by abstract interpretation in the order-symbol domain (nondominated_cmp, tournament); provenance/order algebra (set -> sort -> prefix); affine stencil rules for crowding distance",
    "text": "Decides: the comparison key of truncation by a complete 9-row decision table (front order x crowding order) extracted from "
            "nondominated_cmp; that truncation is sorted(set(population), that key)[:size] by value provenance; the crowding-distance "
            "stencil (small fronts infinite; zero-init outside and accumulation across the objective loop; marker excluded; per-objective "
            "sort; boundary positions infinite; interior range(1,n-1) with neighbours i+-1 and normalisation by the same objective's range) "
            "by affine/structural rules; and the tournament by a table over (front order, comparator verdict) showing it never returns the "
            "worse front nor the dominated candidate and only returns population members. Tables are complete for their abstraction, so "
            "they cover all populations, which tests sample once. The numeric side-clauses for tied objective values are not decided.",
    "note": "Trusts: set() de-duplication through Individual.__eq__/__hash__ (C20), sorted() ascending and stable, random.sample distinctness, comparator semantics (C01).",
}

CLAIMS["C05"] = {
    "category": "other",
    "technique": "path enumeration of Job.evaluate (guard precedence, per-attempt call counting, value provenance of costs, freshness of the constraint values feeding the marker); shape rules for calc_signed_costs and the sign table; bridge/wiring rules",
    "text": "Decides on all paths of Job.evaluate that the EVALUATED-guard precedes every objective-reaching call, that each attempt calls "
            "the objective at most once, that the success path stores the call's result unmodified as costs, then calls "
            "calc_signed_costs(problem.signs), then marks EVALUATED, and that whenever the feasibility marker is derived it uses "
            "constraints evaluated on the currently stored vector (after the last re-sample). calc_signed_costs is sign*round(cost, "
            "stored precision) with `not feasible` appended last; feasible = all(g<0); the sign table maps minimise/absent to +1 and "
            "anything else to -1 (complete decision table). evaluate_serial calls the job once per EMPTY member; the scalar bridge "
            "records, evaluates once and returns costs_signed[0], and SciPy/NLopt are wired to it; the sweep builds, records and "
            "evaluates one individual per generated vector. Purity of the user's objective is assumed.",
    "note": "Trusts: objective/constraint functions are pure in the vector; np.round semantics; the default surrogate passes through (C19).",
}

CLAIMS["C18"] = {
    "category": "other",
    "technique": "decision table by abstract interpretation (personal best); bounded-by facts through min/max (velocity clamp) plus call-site argument resolution; path rules on the three update_position / update_global_best overrides; reuse of the archive action-table rules",
    "text": "Decides: the personal-best update by a complete table over the comparator verdict (both fields replaced from the same particle "
            "unless the old best dominates the new position); the velocity clamp by bounded-by facts propagated through min/max with the "
            "affine definition of the half range, and that every velocity component written by both update_velocity implementations is that "
            "function's result called with the bounds of the same-index parameter in the right order; for each of the three update_position "
            "overrides, on every path of the per-coordinate body, that a violated bound resets the coordinate to that bound and scales the "
            "velocity component by the documented factor on exactly those paths; and for each update_global_best that the leaders are "
            "truncated to the population-size option after the last insertion on every path, with insertions only through Archive.add whose "
            "action table (C04 rules, re-run here) gives mutual non-dominance.",
    "note": "Trusts: lower <= upper bounds; comparator semantics (C01); the induction from the per-insertion action table to the global invariant.",
}

CLAIMS["C11"] = {
    "category": "other",
    "technique": "event-order rules over enumerated paths (Job.evaluate success paths; sync_individual with exception edges; conn(); _create_structure), SQL/PRAGMA literal parsing",
    "text": "Decides the code-shape conditions under which SQLite's atomic-commit guarantee yields the property at every crash point: "
            "(1) on every success path of Job.evaluate the store call follows the final writes of costs, signed costs and state and nothing "
            "persistent is written after it; (2) on every non-exceptional write path of sync_individual exactly one upsert statement is "
            "executed and committed on the same connection before returning, and an OperationalError is retried, never swallowed - so a "
            "returned synchronisation is durable and a row is never assembled by several statements; (3) the default thread-safe conn() "
            "creates a fresh exclusive connection per call, caches nothing on the store and keeps a rollback journal (journal_mode not "
            "OFF/MEMORY); (4) the structure and problem rows are committed before the constructor returns. Crash points are covered because "
            "the rules constrain every path, not sampled kill times. SQLite's own recovery is an axiom.",
    "note": "Trusts: SQLite atomic commit and rollback-journal recovery; process death only (no power loss; synchronous=0 is outside the fault model).",
}
CLAIMS["C10"] = {
    "category": "other",
    "technique": "writer/reader field-table agreement (to_dict vs from_dict by access-path provenance), SQL constant parsing (primary key, upsert conflict clause, bound values), reader coverage, dirty/clean typestate over the paths of every store-touching run()",
    "text": "Decides the structural conditions of the round trip: for each claimed field the writer takes the whole attribute of that name "
            "and the reader restores it to that attribute (nested individuals replaced by ids); the individuals table has a primary key "
            "and the statement used by sync_individual and sync_all is an upsert on it that overwrites the payload (last wins), bound to "
            "(id, json.dumps(to_dict())); the reader selects all four tables and rebuilds through from_dict, and the view opens read-only; "
            "and in every run() method that records individuals or tags generations (19 today) every recording/tagging is followed on every "
            "normal path by a synchronisation of that individual, by Job.evaluate's store call, or by sync_all over problem.individuals. "
            "Bit-exactness of floats through JSON and SQLite's conflict handling are axioms.",
    "note": "Trusts: json round-trip of floats/inf/bool/np.float64; SQLite ON CONFLICT semantics; loops of run() unrolled 0/1 (typestate has 2 states).",
}

CLAIMS["C02"] = {
    "category": "other",
    "technique": "schema conformance with Deb's counter/peeling algorithm: affine loop-range rules (pair coverage), per-verdict effect table over enumerated body paths, affine index tracking of the peel, ownership scan of the bookkeeping features",
    "text": "Shows that fast_nondominated_sorting is an instance of Deb's algorithm, which ranks correctly for every strict partial order: "
            "the loops enumerate each unordered pair once and every visited pair reaches the comparator exactly once on every path; the "
            "bookkeeping effects per verdict are the mirror-symmetric ones; counters, ranks and dominated-lists are reset with a fresh list "
            "per member; the first-front test sits after a member's inner loop; the peel iterates the front just tested non-empty, "
            "decrements each recorded id exactly once, ranks a member when its counter reaches zero with previous+1 into the list of that "
            "index; nothing else writes the bookkeeping. Because the argument is about the algorithm's shape it covers every population, "
            "order and objective count; termination and 'nobody unranked' follow from the theorem, not from a separate proof.",
    "note": "Trusts: the textbook theorem for the schema; unique ids; the comparator is a strict partial order with verdicts {0,1,2} (C01).",
}

CLAIMS["C09"] = {
    "category": "other",
    "technique": "affine tag algebra over the generation loop; abstract interpretation of the offspring-list length relative to N (finite length classes, fixpoint over the while loop); evaluate-site counting and ordering over enumerated paths; decision table of pop_acceptance",
    "text": "Decides, for NSGA-II, EpsMOEA, OMOPSO and SMPSO: the generation tags are exactly {1..G} resp. {0..G} (literal initial tag + affine "
            "tag over the loop range, for-range and counter-while idioms); generate() can only return exactly N offspring for every N>=2 "
            "(fixpoint over the length classes 0, 1..N-2, N-1, N, >N); the copy selector returns one copy per member; each run evaluates "
            "the initial batch once and exactly one offspring batch per generation on every path, NSGA-II adding the parent copies only "
            "after that evaluate - hence N*G resp. N*(G+1) evaluations; survivors are tagged and recorded once each; the NSGA-II pool is N "
            "offspring plus a copy of every parent carrying costs and signed costs, sorted then truncated to N (with C03/C02/C01 this "
            "gives generational elitism); and pop_acceptance follows the size-preserving table of the property. Distinctness of the 2N "
            "pool and the no-regression corollary as a run-time fact are not decided.",
    "note": "Trusts: each evaluate of N fresh designs costs N successful objective calls (C05/C06); N>=2, G>=1; user-supplied generators return N vectors.",
}

CLAIMS["C16"] = {
    "category": "other",
    "technique": "schema conformance with the telescoping product form (rational normal forms for index and angle equality), interval/affine abstract interpretation of evaluate() over the whole box, rational-normal-form equality for ZDT1 and the bi-objective identity",
    "text": "Shows that each DTLZ evaluate() is an instance of the telescoping product form whose sum (DTLZ1) resp. sum of squares (DTLZ2-4) "
            "equals the common factor by a two-line algebraic theorem: objective i multiplies C(x_j) for j<m-i-1 and, for i>0, S(x_{m-i-1}) "
            "with the same index expression (equality of normal forms), C/S are cos/sin of the same normalised inner angle (or t/1-t), the "
            "common factor is applied once, and the distance function reads exactly the last k variables; interval evaluation over the box "
            "with the distance variables fixed at 0.5 and the position variables ranging over [0,1] shows the factor is exactly 1 (1/2) on "
            "the Pareto set; ZDT1 and the bi-objective identities hold as equalities of rational normal forms; and interval/affine "
            "evaluation over the whole box proves every objective non-negative (m in {2,3}). This covers every point of the box rather "
            "than the single 0.5 point the tests use. The identities as floating-point facts at concrete points are not decided.",
    "note": "Trusts: the telescoping identity (stated in the evidence), libm within a few ulps (intervals are widened accordingly), m in {2,3} for the interval clauses.",
}

CLAIMS["C15"] = {
    "category": "other",
    "technique": "abstract interpretation of every benchmark evaluate() in an outward-rounded interval domain with affine forms; configuration folded from set(); interval branch-and-bound over the declared box (16 processes)",
    "text": "For each of the 23 single-objective benchmark classes the box, criteria, documented optimum and coordinates are folded from the "
            "literals of set(), and evaluate() is interpreted over interval boxes (abstractly, by the checker's own interpreter): the root box and every "
            "visited sub-box must be free of possible domain errors and float-incompatible method calls; the enclosure on the degenerate box "
            "of the documented coordinates must lie within 1e-3 of the documented value (n in {1,2,3,5,10} where accepted); and a best-first "
            "interval branch-and-bound proves f >= f* - 1e-3 (<= for maximised) on the whole box at n=2 (plus every dimension up to 5 that has its "
            "own documented value; thorough: n in {1,2,3,5}). A sub-box whose entire enclosure beats the optimum is a definite violation reported "
            "with its coordinates; so is a corner of the box or the centre of a visited sub-box, taken as a degenerate box, whose enclosure beats "
            "it (a point of the declared box). A structural rule flags integer-array powers that wrap around in high dimensions, another one "
            "per-instance state kept in class-level containers. Sub-boxes still undecided when "
            "the budget ends are counted in the evidence and never alarm. Unlike the tests (one point per function) a proved bound covers "
            "every point of the box. Known findings: EqualityConstr (float method, bound), ModifiedEasom for odd n (documented value).",
    "note": "Trusts: libm within a few ulps (enclosures widened), IEEE double arithmetic; Schwefel, Six-hump and Shubert are only partly proved "
            "within the budget with the natural interval extension (counted as undecided boxes); dimensions above 3 are not decided for R5.",
}

CLAIMS["C08"] = {
    "category": "other",
    "technique": "InBox qualifier inference with bounded-by facts through min/max and branch refinement; per-path element provenance in the operators; rational normal forms for the unit-affine generators; source classification of every vector write in the closure of the five run() methods",
    "text": "Infers an in-the-box qualifier for every vector the five algorithms can evaluate: clip() is proved within [lo,hi] from its "
            "min/max nest; SBX and the three mutators put into a child only the parent's own coordinate or clip(.., bounds[0], bounds[1]) "
            "of the parameter with the same index, exactly one element per parameter on every path; gen_number is lo + u*(hi-lo) then "
            "rounded to the nearest multiple of the precision (truncation is rejected), gen_vector draws once per parameter with its bounds, "
            "the LHS/Halton scaling and the grid levels are unit-affine by normal-form equality, and the factorial builders only select "
            "from level lists made of the bounds; each update_position leaves both bound facts on every path; and every Individual "
            "constructor call / vector write in the methods of NSGA-II, EpsMOEA, OMOPSO, SMPSO, PSOGA and Job.evaluate takes its source "
            "from those proved producers or a copy, with only R2-proved operators wired in and clamping before evaluation. This covers all "
            "boxes, parents, probabilities and iteration numbers at once. 'Real-valued' (no NaN/complex) is not decided.",
    "note": "Trusts: lo <= hi; parents in the box (induction over generations); random()/uniform ranges; default pass-through evaluator; float rounding within the 1e-12 tolerance.",
}

CLAIMS["C07"] = {
    "category": "other",
    "technique": "effect analysis of the worker closure: stores and loads on access paths rooted at shared objects (Job, surrogate, data store, class attributes), lock-scope check; dispatch shape rule; thread-safe store rules reused from C11",
    "text": "Decides the part of the property that is visible in the shape of the code and holds for every schedule: the parallel "
            "dispatcher creates exactly one Job.evaluate task per design of the batch with shared memory, and no attribute of an object "
            "shared between workers (the Job, the surrogate, the store, class attributes) is both rebound and read inside the closure of "
            "Job.evaluate outside a common lock - so a design can only be completed from its own locals and its own fields; the shared "
            "accesses that remain (an evaluation counter updated by += 1 only, the atomic append to problem.failed, the id counter read "
            "into a freshly constructed object) are listed in the evidence. The thread-safe store uses a fresh connection per call and "
            "retries on contention. This is a necessary condition for schedule-independence; equality with serial results as such needs a "
            "thread-safe objective and is not decided.",
    "note": "Trusts: joblib runs each task once; GIL atomicity of list.append; user objective/constraints thread-safe; predicting surrogates outside the claim.",
}

CLAIMS["C12"] = {
    "category": "other",
    "technique": "structure rules over the sampler sources: affine/rational normal forms (grid levels, stratum draw, sequence length), statement-order rules (radical-inverse recurrence), path rule (bases checked before use), argument wiring",
    "text": "Decides the structural clauses of the samplers, each a necessary condition of the coverage property: the random generator "
            "appends exactly one gen_vector per requested design; the grid has k levels lo+i(hi-lo)/(k-1) per parameter and is the full "
            "itertools.product; Halton uses the first `dimension` sieve primes with the count checked on every path before use, takes "
            "num_points+1 terms per base and drops term 0, and its digit loop is the radical-inverse recurrence with the denominator "
            "multiplied before the digit is added; classic LHS cuts [0,1] with linspace(0,1,N+1), draws a+u(b-a) once per stratum and "
            "column, and permutes every column independently, and is what the default criterion uses; all scalings are the unit-affine map "
            "with the bounds of the same column (C08). Array contents as numeric facts, primality of the sieve and the optimised LHS "
            "variants are not decided.",
    "note": "Trusts: numpy linspace/rand/permutation/stack and itertools.product semantics; the pattern-to-theorem step (recurrence = radical inverse).",
}
CLAIMS["C13"] = {
    "category": "other",
    "technique": "constant-table check of the literal Plackett-Burman seeds (Hadamard test of the bordered Toeplitz/Hankel matrices they define), structure and statement-order rules (Sylvester doubling, mixed-radix update order, Box-Behnken block tiling by rational normal forms)",
    "text": "Decides: fullfact is the mixed-radix enumeration (tile count divided before, repeat count multiplied after, each level repeated "
            "`repeat` times) and construct_df pairs each column with its own factor; the 12- and 20-run Plackett-Burman seed vectors in the "
            "source define Hadamard matrices (checked like a CRC table), doubling is Sylvester's [[H,H],[H,-H]], the run count is the next "
            "multiple of four strictly above the factor count, the all-ones column is dropped and exactly `keep` columns kept, and codes map "
            "to the two bounds only; Box-Behnken visits every pair i<j once, writes the two columns of the +-1 two-factor design into the "
            "row block [(k-1)s, ks) of columns i and j over a matrix of centre codes with s*n(n-1)/2 factorial rows, and the generator adds "
            "exactly one centre run and maps codes to (lo, mid, hi). With the stated theorems these give balance/orthogonality and "
            "'every combination once' for all factor counts. The generalized subset design clause is NOT decided.",
    "note": "Trusts: Hadamard => balanced orthogonal columns; Sylvester doubling; scipy toeplitz/hankel index conventions (re-implemented for the table check); the frexp-based seed selection is not decided.",
}

NOT_APPLICABLE = {}
