"""What MANIFEST.json claims, per property (consumed by tools/gen_manifest.py)."""

CLAIMS = {
    "C20": {
        "category": "other",
        "technique": "abstract interpretation of __eq__ to a finite automaton over coordinate-difference letters; affine range check; access-path provenance of __hash__",
        "text": "Decides, for every vector length n>=1 and every pattern of differing coordinates, that Individual.__eq__ (and any "
                "overriding subclass) returns True exactly when no coordinate differs: the coordinate loop is solved as a finite "
                "automaton over the letters {equal, differs by +, differs by -}, so the verdict covers all lengths and all subsets of "
                "differing coordinates, which the test-suite samples at a handful of points. Also decides that __hash__ is a function "
                "of the vector only and that tolerance literals are at most 1e-10.",
        "note": "Trusts: Python's list/tuple hashing; abstraction of a coordinate difference as zero or beyond-every-tolerance "
                "(differences inside (0,1e-10) are not modelled); equal vector lengths.",
    },
}

NOT_APPLICABLE = {}
