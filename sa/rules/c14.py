"""C14 - worst-case and gradient evaluators.

R1  typestate of the evaluator work lists: every list attribute that `add`
    appends to is emptied on every normal path of the batch method `run`
    after its last use (siblings must agree).
R2  neighbour construction in `add`: axis loop over [0, len(vector)); for the
    worst-case evaluator an inner loop over exactly {-1, +1}; each child is a
    fresh copy of the parent vector made in the innermost loop, displaced at
    the axis index by sign * tolerance of the parameter *with the same index*
    (gradient: by the step attribute); one child appended per innermost
    iteration; the children list is reset per design; parent and children are
    queued for evaluation.
R3  worst-case `run`: sensitivity = sum over the children of
    |f0(parent) - f0(child)|, written once into costs and once into
    costs_signed before the feasibility marker, on every path.
R4  gradient `run`: component k = (f0(child k) - f0(parent)) / step with the
    same step attribute as the displacement; the step literal is 1e-4; the
    batch method evaluates the queued list exactly once.
R5  `evaluate` queues every design of the batch once and calls `run` once.
"""
import ast

from ..astutil import (text, access_path, access_paths_in, single_defs, canon, canon_text, stmts_of,
                       enclosing_loops, range_bounds, is_len_of, is_fresh_copy_of, fold, is_method_call,
                       method_call, func_params, calls_in, const_value, is_const)
from ..loader import where, AnalysisError
from ..paths import Enumerator
from ..terms import Terms, PathEnv


def worklists(cls):
    """list attributes of self appended/extended in `add`"""
    add = cls.methods.get("add")
    out = []
    if add is None:
        return out
    selfn = func_params(add)[0]
    for c in calls_in(add):
        mc = method_call(c)
        if mc and mc[1] in ("append", "extend", "insert"):
            p = access_path(mc[0])
            if p and p.startswith(selfn + ".") and p.count(".") == 1 and p not in out:
                out.append(p)
    return out


def is_reset(stmt, path):
    if isinstance(stmt, ast.Assign) and any(access_path(t) == path for t in stmt.targets):
        v = stmt.value
        if isinstance(v, ast.List) and not v.elts:
            return True
        if isinstance(v, ast.Call) and access_path(v.func) == "list" and not v.args:
            return True
    if isinstance(stmt, ast.Expr) and is_method_call(stmt.value, "clear") and access_path(stmt.value.func.value) == path:
        return True
    if isinstance(stmt, ast.Delete):
        for t in stmt.targets:
            if isinstance(t, ast.Subscript) and access_path(t.value) == path and isinstance(t.slice, ast.Slice) \
                    and t.slice.lower is None and t.slice.upper is None:
                return True
    return False


def reads(node, path):
    if isinstance(node, (ast.For, ast.While)):
        node = node.iter if isinstance(node, ast.For) else node.test
    return any(p == path or p.startswith(path + ".") or p.startswith(path + "[") for p in access_paths_in(node))


def r1_typestate(ctx, repo, cls):
    mod = cls.module
    run = cls.methods.get("run")
    construct = "%s.run" % cls.name
    if run is None:
        ctx.inconclusive("R1", construct, where(mod, cls.node), "no own batch method `run`")
        return
    wl = worklists(cls)
    if not wl:
        ctx.inconclusive("R1", construct, where(mod, cls.node), "no work list found in add()")
        return
    # the work lists are different lists: binding one of them to another (self.a = self.b = []) makes every later add()
    # fill both at once
    for meth in cls.methods.values():
        for s_ in stmts_of(meth):
            if isinstance(s_, ast.Assign) and len(s_.targets) == 1 and access_path(s_.targets[0]) in wl and access_path(s_.value) in wl \
                    and access_path(s_.value) != access_path(s_.targets[0]):
                ctx.violated("R1", construct, where(mod, s_),
                             "work list %s is bound to the list object of %s (%s): from then on add() fills both with every design and every neighbour, so designs are "
                             "post-processed twice and neighbours are treated as designs" % (access_path(s_.targets[0]), access_path(s_.value), text(s_).strip()),
                             key="worklist-reset", facts={"worklist": access_path(s_.targets[0])})
                return
    paths = Enumerator(loop_counts=(0, 1, 2)).function_paths(run)
    ctx.count("paths_enumerated", len(paths))
    bad = None
    for p in paths:
        if p.outcome == "raise":
            continue
        for w in wl:
            last_read, last_reset = -1, -1
            for i, e in enumerate(p.events):
                if e.kind in ("stmt", "return") and is_reset(e.node, w):
                    last_reset = i
                elif e.kind in ("stmt", "iter", "guard", "return") and reads(e.node, w):
                    last_read = i
            if last_reset < 0 or last_read > last_reset:
                bad = (w, p, last_reset)
                break
        if bad:
            break
    if bad:
        w, p, lr = bad
        ctx.violated("R1", construct, where(mod, run),
                     "work list %s filled by add() is %s on the path [%s]: designs of earlier batches stay queued and are "
                     "evaluated and post-processed again with every later batch"
                     % (w, "never emptied" if lr < 0 else "used again after being emptied", p.describe(6)),
                     key="worklist-reset", facts={"worklist": w})
    else:
        ctx.holds("R1", construct, where(mod, run),
                  "work lists %s emptied after their last use on all %d normal paths" % (wl, sum(1 for p in paths if p.outcome != "raise")),
                  key="worklist-reset")


def find_axis_loop(fn, ind):
    """outermost `for v in range(len(<ind>.vector))` -> (loop, var) or None"""
    for s in stmts_of(fn):
        if isinstance(s, ast.For) and isinstance(s.target, ast.Name):
            rb = range_bounds(s.iter)
            if rb and is_len_of(canon(rb[1], single_defs(fn)), ind + ".vector") or (rb and is_len_of(rb[1], ind + ".vector")):
                return s, s.target.id, rb
    return None


def _ctor_copies_vector(repo):
    """does Individual.__init__ store a copy of its vector argument (self.vector = vector.copy() / list(vector) / vector[:])?"""
    if not repo.has_cls("Individual"):
        return False
    r = repo.find_method(repo.cls("Individual", "individual"), "__init__")
    if not r:
        return False
    init = r[1]
    ps = func_params(init)
    if len(ps) < 2:
        return False
    me, v = ps[0], ps[1]
    for s_ in ast.walk(init):
        if isinstance(s_, ast.Assign) and any(access_path(t) == me + ".vector" for t in s_.targets) and is_fresh_copy_of(s_.value, v):
            return True
    return False


def _canon_child_copy(add, ind, repo):
    """c = Individual(P.vector); c.vector[i] += E   ->   v = P.vector.copy(); v[i] += E; c = Individual(v)
    (the constructor stores a copy of its argument, so displacing the child's own vector is displacing a fresh copy)"""
    import copy as _copy
    if not _ctor_copies_vector(repo):
        return add
    add = _copy.deepcopy(add)
    k = [0]

    def rewrite(body):
        i = 0
        while i + 1 < len(body):
            a, b = body[i], body[i + 1]
            if isinstance(a, ast.Assign) and len(a.targets) == 1 and isinstance(a.targets[0], ast.Name) and isinstance(a.value, ast.Call) \
                    and (access_path(a.value.func) or "").split(".")[-1].startswith("Individual") and len(a.value.args) == 1 and access_path(a.value.args[0]) == ind + ".vector" \
                    and isinstance(b, ast.AugAssign) and isinstance(b.target, ast.Subscript) and access_path(b.target.value) == a.targets[0].id + ".vector":
                k[0] += 1
                v = "__vcopy%d" % k[0]
                cp = ast.Assign(targets=[ast.Name(id=v, ctx=ast.Store())],
                                value=ast.Call(func=ast.Attribute(value=a.value.args[0], attr="copy", ctx=ast.Load()), args=[], keywords=[]))
                b2 = ast.AugAssign(target=ast.Subscript(value=ast.Name(id=v, ctx=ast.Load()), slice=b.target.slice, ctx=ast.Store()), op=b.op, value=b.value)
                a2 = ast.Assign(targets=a.targets, value=ast.Call(func=a.value.func, args=[ast.Name(id=v, ctx=ast.Load())], keywords=[]))
                for n_ in (cp, b2, a2):
                    ast.copy_location(n_, a)
                    ast.fix_missing_locations(n_)
                body[i:i + 2] = [cp, b2, a2]
                i += 3
                continue
            i += 1
        for st in body:
            for f_, v_ in ast.iter_fields(st):
                if isinstance(v_, list) and v_ and isinstance(v_[0], ast.stmt):
                    rewrite(v_)
    rewrite(add.body)
    return add


def r2_neighbours(ctx, repo, cls, kind):
    mod = cls.module
    add = cls.methods.get("add")
    construct = "%s.add" % cls.name
    if add is None:
        raise AnalysisError("%s.add not found" % cls.name)
    add = _canon_child_copy(add, func_params(add)[1], repo)
    params = func_params(add)
    selfn, ind = params[0], params[1]
    defs = single_defs(add)
    loops = enclosing_loops(add)
    axis = find_axis_loop(add, ind)
    if axis is None:
        # maybe a shifted/short range: look for any range loop mentioning the vector length
        for s in stmts_of(add):
            if isinstance(s, ast.For) and range_bounds(s.iter) and ("len(%s.vector)" % ind) in text(s.iter):
                ctx.violated("R2", construct, where(mod, s), "axis loop %s does not cover [0, len(vector)): some axes get no neighbour" % text(s.iter), key="axis-range")
                return
        ctx.inconclusive("R2", construct, where(mod, add), "axis loop over range(len(%s.vector)) not found" % ind, key="axis-range")
        return
    aloop, avar, rb = axis
    start_ok = rb[0] is None or (is_const(rb[0]) and const_value(rb[0]) == 0)
    if not start_ok or rb[2] is not None:
        ctx.violated("R2", construct, where(mod, aloop), "axis loop %s does not cover every axis" % text(aloop.iter), key="axis-range")
        return
    ctx.holds("R2", construct, where(mod, aloop), "axis loop covers [0, len(vector))", key="axis-range")

    # sign loop (worst case only)
    inner = aloop
    svar = None
    if kind == "worst":
        sl = [s for s in stmts_of(aloop) if isinstance(s, ast.For) and s is not aloop]
        sl = [s for s in sl if isinstance(s.iter, (ast.List, ast.Tuple))]
        if len(sl) != 1 or not isinstance(sl[0].target, ast.Name):
            ctx.inconclusive("R2", construct, where(mod, aloop), "sign loop over a literal list not found", key="sign-set")
            return
        sloop = sl[0]
        try:
            signs = sorted(fold(e) for e in sloop.iter.elts)
        except ValueError:
            ctx.inconclusive("R2", construct, where(mod, sloop), "sign list is not literal", key="sign-set")
            return
        if signs != [-1, 1]:
            ctx.violated("R2", construct, where(mod, sloop), "sign set is %r, expected exactly {-1, +1}: not 2n neighbours at +/- tolerance" % signs, key="sign-set")
            return
        ctx.holds("R2", construct, where(mod, sloop), "inner loop over exactly {-1, +1}", key="sign-set")
        inner, svar = sloop, sloop.target.id

    # statements of the innermost body
    body = inner.body
    body_stmts = []
    for s in body:
        body_stmts.append(s)
    # fresh copy in the innermost loop
    copies = [s for s in body_stmts if isinstance(s, ast.Assign) and len(s.targets) == 1 and isinstance(s.targets[0], ast.Name)
              and is_fresh_copy_of(s.value, ind + ".vector")]
    any_copy = [s for s in stmts_of(add) if isinstance(s, ast.Assign) and len(s.targets) == 1 and isinstance(s.targets[0], ast.Name)
                and is_fresh_copy_of(s.value, ind + ".vector")]
    alias = [s for s in stmts_of(add) if isinstance(s, ast.Assign) and len(s.targets) == 1 and isinstance(s.targets[0], ast.Name)
             and access_path(s.value) == ind + ".vector"]
    if not copies:
        moved = [s for s in body_stmts if (isinstance(s, ast.AugAssign) and isinstance(s.target, ast.Subscript) and access_path(s.target.value) == ind + ".vector")
                 or (isinstance(s, ast.Assign) and len(s.targets) == 1 and isinstance(s.targets[0], ast.Subscript) and access_path(s.targets[0].value) == ind + ".vector")]
        # a numpy working copy without a float dtype, displaced in place: for a design whose coordinates are all Python
        # ints (integer parameters) the array is an integer array and `+= step` is truncated back to the integer
        nparr = [s for s in stmts_of(add) if isinstance(s, ast.Assign) and len(s.targets) == 1 and isinstance(s.targets[0], ast.Name)
                 and isinstance(s.value, ast.Call) and (access_path(s.value.func) or "").split(".")[-1] in ("array", "asarray")
                 and s.value.args and access_path(s.value.args[0]) == ind + ".vector"
                 and not any(k.arg == "dtype" for k in s.value.keywords) and len(s.value.args) == 1]
        inplace = [s for s in body_stmts if nparr and isinstance(s, ast.AugAssign) and isinstance(s.target, ast.Subscript)
                   and access_path(s.target.value) == nparr[0].targets[0].id]
        if inplace:
            ctx.violated("R2", construct, where(mod, inplace[0]), "the displacement %s is applied in place to %s = %s: for a design with integer coordinates the array has an integer dtype "
                         "and the step is truncated away, so every neighbour coincides with the design" % (text(inplace[0]).strip(), nparr[0].targets[0].id, text(nparr[0].value)), key="fresh-copy")
        elif moved:
            ctx.violated("R2", construct, where(mod, moved[0]), "the displacement is applied to the parent's own vector (the child vector is an alias, not a copy): displacing it moves the parent", key="fresh-copy")
        elif alias:
            ctx.violated("R2", construct, where(mod, alias[0]), "child vector is an alias of the parent's vector, not a copy: displacing it moves the parent", key="fresh-copy")
        elif any_copy:
            ctx.violated("R2", construct, where(mod, any_copy[0]), "the parent vector is copied outside the innermost loop: successive children share one vector and accumulate displacements", key="fresh-copy")
        else:
            ctx.inconclusive("R2", construct, where(mod, inner), "no copy of the parent vector found in the innermost loop", key="fresh-copy")
        return
    vname = copies[0].targets[0].id
    ctx.holds("R2", construct, where(mod, copies[0]), "each child starts from a fresh copy of the parent vector made in the innermost loop", key="fresh-copy")

    # displacement statement
    disp = None
    for s in body_stmts:
        if isinstance(s, ast.AugAssign) and isinstance(s.target, ast.Subscript) and access_path(s.target.value) == vname:
            disp = (s, s.target.slice, type(s.op), s.value)
        elif isinstance(s, ast.Assign) and len(s.targets) == 1 and isinstance(s.targets[0], ast.Subscript) \
                and access_path(s.targets[0].value) == vname and isinstance(s.value, ast.BinOp) \
                and text(s.value.left) == text(s.targets[0]).replace("Store", "Load"):
            disp = (s, s.targets[0].slice, type(s.value.op), s.value.right)
    if disp is None:
        # a displaced coordinate that is post-processed (clipped, rounded, min/max-ed) is not displaced by exactly the tolerance
        for s in body_stmts:
            if isinstance(s, ast.Assign) and len(s.targets) == 1 and isinstance(s.targets[0], ast.Subscript) \
                    and access_path(s.targets[0].value) == vname and isinstance(s.value, ast.Call):
                inner_sum = [n for n in ast.walk(s.value) if isinstance(n, ast.BinOp) and isinstance(n.op, (ast.Add, ast.Sub))
                             and any(access_path(x) in (text(s.targets[0]), "%s.vector[%s]" % (ind, text(s.targets[0].slice))) for x in (n.left, n.right))]
                if inner_sum:
                    ctx.violated("R2", construct, where(mod, s),
                                 "the displaced coordinate is passed through %s(...): the neighbour is not displaced by exactly +/- the tolerance "
                                 "(e.g. for designs closer to a bound than the tolerance)" % text(s.value.func), key="displacement")
                    return
        ctx.inconclusive("R2", construct, where(mod, inner), "displacement statement `%s[axis] += ...` not found" % vname, key="displacement")
        return
    dstmt, didx, dop, dval = disp
    if access_path(didx) != avar:
        ctx.violated("R2", construct, where(mod, dstmt), "the displaced coordinate is %s, not the axis variable %s" % (text(didx), avar), key="displacement")
        return
    if dop is not ast.Add:
        ctx.inconclusive("R2", construct, where(mod, dstmt), "displacement operator is not +", key="displacement")
        return
    dv = canon(dval, defs)
    if kind == "worst":
        ok = False
        if isinstance(dv, ast.BinOp) and isinstance(dv.op, ast.Mult):
            for s_, t_ in ((dv.left, dv.right), (dv.right, dv.left)):
                if access_path(s_) == svar:
                    tt = text(t_)
                    want_sfx = "parameters[%s]['tol']" % avar
                    if tt.endswith(want_sfx) and ".problem.parameters" in tt:
                        ok = True
                    elif "['tol']" in tt and ".parameters[" in tt:
                        ctx.violated("R2", construct, where(mod, dstmt),
                                     "axis %s is displaced by %s: the tolerance of a different parameter" % (avar, tt), key="displacement")
                        return
        if not ok:
            if svar not in {n.id for n in ast.walk(dv) if isinstance(n, ast.Name)}:
                ctx.violated("R2", construct, where(mod, dstmt), "displacement %s does not use the sign %s: both neighbours lie on one side" % (text(dv), svar), key="displacement")
            else:
                ctx.inconclusive("R2", construct, where(mod, dstmt), "displacement %s is not sign * parameters[axis]['tol']" % text(dv), key="displacement")
            return
        ctx.holds("R2", construct, where(mod, dstmt), "coordinate %s displaced by %s * tolerance of parameter %s" % (avar, svar, avar), key="displacement")
    else:
        if access_path(dv) is None or not access_path(dv).startswith(selfn + "."):
            ctx.inconclusive("R2", construct, where(mod, dstmt), "gradient displacement %s is not a step attribute" % text(dv), key="displacement")
            return
        ctx.extra.setdefault("gradient_step_attr", access_path(dv))
        ctx.holds("R2", construct, where(mod, dstmt), "coordinate %s displaced by step attribute %s" % (avar, access_path(dv)), key="displacement")

    # one child per innermost iteration, built from the displaced copy, after the displacement
    en = Enumerator(loop_counts=(0, 1))
    fake = ast.FunctionDef(name="body", args=add.args, body=body, decorator_list=[], returns=None, type_comment=None, lineno=inner.lineno, col_offset=0)
    npaths = 0
    for p in en.function_paths(fake):
        npaths += 1
        apps = [i for i, e in enumerate(p.events) if e.kind == "stmt" and any(
            is_method_call(c, "append") and access_path(c.func.value) == ind + ".children" for c in calls_in(e.node))]
        dpos = [i for i, e in enumerate(p.events) if e.kind == "stmt" and e.node is dstmt]
        if len(apps) != 1:
            ctx.violated("R2", construct, where(mod, inner), "%d children appended per neighbour iteration (expected exactly 1)" % len(apps), key="child-count")
            return
        call = [c for c in calls_in(p.events[apps[0]].node) if is_method_call(c, "append")][0]
        arg = call.args[0] if call.args else None
        create_pos = apps[0]
        if isinstance(arg, ast.Name):
            # child = Individual(vector); ...children.append(child): the child is created where the local is bound
            binds = [i for i, e in enumerate(p.events[:apps[0]]) if e.kind == "stmt" and isinstance(e.node, ast.Assign)
                     and any(access_path(t) == arg.id for t in e.node.targets)]
            if binds:
                create_pos = binds[-1]
                arg = p.events[create_pos].node.value
        if not (isinstance(arg, ast.Call) and arg.args and access_path(arg.args[0]) == vname):
            ctx.inconclusive("R2", construct, where(mod, p.events[apps[0]].node), "appended child is not built from the displaced copy %s" % vname, key="child-count")
            return
        if not dpos or dpos[0] > create_pos:
            ctx.violated("R2", construct, where(mod, p.events[apps[0]].node), "child is created before the displacement is applied (constructor copies the vector)", key="child-count")
            return
    ctx.holds("R2", construct, where(mod, inner), "exactly one child per neighbour iteration, built from the displaced copy (%d body paths)" % npaths, key="child-count")

    # children reset per design before the loops
    resets = [s for s in add.body if is_reset(s, ind + ".children")]
    pos_loop = [i for i, s in enumerate(add.body) if s is aloop or aloop in list(ast.walk(s))]
    pos_reset = [i for i, s in enumerate(add.body) if s in resets]
    if not resets or not pos_loop or pos_reset[0] > pos_loop[0]:
        ctx.violated("R2", construct, where(mod, add), "the children list of the design is not reset before its neighbours are appended: a design evaluated twice accumulates 4n, 6n... neighbours", key="children-reset")
    else:
        ctx.holds("R2", construct, where(mod, resets[0]), "children list reset per design before the loops", key="children-reset")

    # queued: parent + children
    q_parent = q_children = False
    for c in calls_in(add):
        mc = method_call(c)
        if mc and access_path(mc[0]) and access_path(mc[0]).startswith(selfn + ".") and c.args:
            if mc[1] == "append" and access_path(c.args[0]) == ind and access_path(mc[0]) != selfn + ".individuals":
                q_parent = True
            if mc[1] == "extend" and access_path(c.args[0]) == ind + ".children":
                q_children = True
    if q_children and (q_parent or kind == "worst"):
        ctx.holds("R2", construct, where(mod, add), "parent and all children queued for evaluation", key="queued")
    else:
        ctx.violated("R2", construct, where(mod, add), "children%s are not queued for evaluation" % ("" if not q_children else " (parent missing)"), key="queued")


def r3_sensitivity(ctx, repo, cls):
    mod = cls.module
    run = cls.methods.get("run")
    construct = "%s.run" % cls.name
    if run is None:
        return
    # per-design loop
    wl = worklists(cls)
    ploops = [s for s in run.body if isinstance(s, ast.For) and access_path(s.iter) in wl and isinstance(s.target, ast.Name)]
    if len(ploops) != 1:
        ctx.inconclusive("R3", construct, where(mod, run), "per-design loop over a work list not found", key="formula")
        return
    ploop = ploops[0]
    ind = ploop.target.id
    # the sensitivity as a value term: sum([|f0(parent) - f0(child)| for child in parent.children]) however it is spelt
    # (accumulating loop, comprehension, cached in a local or not)
    state = _formula_by_term(ctx, mod, run, ploop, ind, construct)
    if state is False:
        return
    if state is not None:
        total, anchor = state
        ctx.holds("R3", construct, where(mod, anchor), "sensitivity = %s" % total, key="formula")
        _r3_writes(ctx, mod, run, ploop, ind, construct, total)
        return
    # child loop and the accumulated term
    cloops = [s for s in stmts_of(ploop) if isinstance(s, ast.For) and access_path(s.iter) == ind + ".children" and isinstance(s.target, ast.Name)]
    if len(cloops) != 1:
        ctx.inconclusive("R3", construct, where(mod, ploop), "loop over the children of a design not found", key="formula")
        return
    cloop = cloops[0]
    ch = cloop.target.id
    term, acc, acc_kind = None, None, None
    for s in cloop.body:
        if isinstance(s, ast.Expr) and is_method_call(s.value, "append") and s.value.args:
            term, acc, acc_kind = s.value.args[0], access_path(s.value.func.value), "list"
        elif isinstance(s, ast.AugAssign) and isinstance(s.op, ast.Add) and isinstance(s.target, ast.Name):
            term, acc, acc_kind = s.value, s.target.id, "sum"
        elif isinstance(s, ast.Assign) and len(s.targets) == 1 and isinstance(s.targets[0], ast.Name):
            # plain overwrite inside the children loop
            if any(isinstance(c, ast.Call) and access_path(c.func) in ("abs", "math.fabs", "np.abs", "fabs") for c in ast.walk(s.value)) \
                    and s.targets[0].id not in {n.id for n in ast.walk(s.value) if isinstance(n, ast.Name)}:
                ctx.violated("R3", construct, where(mod, s), "the per-child difference overwrites %s instead of being accumulated: only the last neighbour counts" % s.targets[0].id, key="formula")
                return
    if term is None:
        ctx.inconclusive("R3", construct, where(mod, cloop), "accumulation of the per-child term not found", key="formula")
        return
    t = term
    is_abs = isinstance(t, ast.Call) and access_path(t.func) in ("abs", "math.fabs", "np.abs", "np.fabs", "fabs") and len(t.args) == 1
    if not is_abs:
        ctx.violated("R3", construct, where(mod, term), "per-child term %s is not an absolute difference" % text(term), key="formula")
        return
    # the difference with the locals of the design loop looked through (a centre cost read once before the children loop)
    tstmt = next((s_ for s_ in cloop.body if any(x is term for x in ast.walk(s_))), cloop)
    d = Terms(run).expand(t.args[0], at=tstmt, skip=(ch, ind))
    want = {"%s.costs[0]" % ind, "%s.costs[0]" % ch}
    if not (isinstance(d, ast.BinOp) and isinstance(d.op, ast.Sub) and {text(d.left), text(d.right)} == want):
        loose = {n_.id for n_ in ast.walk(d) if isinstance(n_, ast.Name)} - {ind, ch, "abs"}
        if loose:
            ctx.inconclusive("R3", construct, where(mod, term), "per-child term |%s|: %s not resolved" % (text(d), sorted(loose)), key="formula")
        else:
            ctx.violated("R3", construct, where(mod, term), "per-child term is |%s|, expected |f0(parent) - f0(child)| i.e. %s" % (text(d), sorted(want)), key="formula")
        return
    # accumulator reset inside the per-design loop, before the child loop (in the block the child loop stands in)
    def block_of(node, target):
        for f_, v_ in ast.iter_fields(node):
            if isinstance(v_, list) and v_ and isinstance(v_[0], ast.stmt):
                if any(x is target for x in v_):
                    return v_
                for x in v_:
                    r_ = block_of(x, target)
                    if r_ is not None:
                        return r_
        return None
    blk = block_of(ploop, cloop) or ploop.body
    init_ok = False
    for blk_ in ([blk] if blk is ploop.body else [ploop.body, blk]):
        for s in blk_:
            if s is cloop or (blk_ is ploop.body and any(x is cloop for x in ast.walk(s))):
                break
            if isinstance(s, ast.Assign) and any(access_path(x) == acc for x in s.targets):
                if acc_kind == "list" and isinstance(s.value, ast.List) and not s.value.elts:
                    init_ok = True
                if acc_kind == "sum" and is_const(s.value) and const_value(s.value) == 0:
                    init_ok = True
    if not init_ok:
        inside = [s_ for s_ in stmts_of(ploop) if isinstance(s_, ast.Assign) and any(access_path(x) == acc for x in s_.targets)]
        if inside:
            ctx.inconclusive("R3", construct, where(mod, ploop), "where accumulator %s is reset inside the design loop is not recognised" % acc, key="formula")
        else:
            ctx.violated("R3", construct, where(mod, ploop), "accumulator %s is not reset per design inside the design loop: sensitivities of earlier designs leak into later ones" % acc, key="formula")
        return
    total = "sum(%s)" % acc if acc_kind == "list" else acc
    ctx.holds("R3", construct, where(mod, cloop), "sensitivity = %s over the children with term %s, reset per design" % (total, text(term)), key="formula")

    _r3_writes(ctx, mod, run, ploop, ind, construct, total)


ABS = ("abs", "math.fabs", "np.abs", "np.fabs", "fabs", "numpy.abs", "numpy.fabs", "np.absolute")


def _formula_by_term(ctx, mod, run, ploop, ind, construct):
    """(text of the total, anchor) when the sum is recognised and right, False when a violation was reported,
    None when the term-based reading does not apply"""
    TR = Terms(run)
    found = None
    for s in stmts_of(ploop):
        if isinstance(s, (ast.For, ast.While, ast.If)):
            continue
        for c in calls_in(s):
            if access_path(c.func) == "sum" and len(c.args) == 1 and not c.keywords:
                v = TR.expand(c, at=s)
                a = v.args[0] if isinstance(v, ast.Call) and v.args else None
                if isinstance(a, (ast.ListComp, ast.GeneratorExp)) and len(a.generators) == 1 and isinstance(a.generators[0].target, ast.Name):
                    found = (s, c, v, a)
                    break
        if found:
            break
    if found is None:
        return None
    s, c, v, comp = found
    g = comp.generators[0]
    ch = g.target.id
    it = g.iter
    if access_path(it) != ind + ".children":
        base = it
        while isinstance(base, ast.Subscript) and isinstance(base.slice, ast.Slice):
            base = base.value
        if base is not it and access_path(base) == ind + ".children":
            ctx.violated("R3", construct, where(mod, s), "the sum runs over %s, not over all children of the design" % text(it), key="formula")
            return False
        return None
    if g.ifs:
        ctx.violated("R3", construct, where(mod, s), "the sum skips children (%s): not every neighbour contributes" % " and ".join(text(i) for i in g.ifs), key="formula")
        return False
    t = comp.elt
    want = {"%s.costs[0]" % ind, "%s.costs[0]" % ch}
    is_abs = isinstance(t, ast.Call) and access_path(t.func) in ABS and len(t.args) == 1

    def cost_diff(d):
        return isinstance(d, ast.BinOp) and isinstance(d.op, ast.Sub) and all(
            isinstance(x, ast.Subscript) and (access_path(x.value) or "").endswith(".costs") or (access_path(x.value) or "").endswith(".costs_signed") for x in (d.left, d.right))
    if is_abs and isinstance(t.args[0], ast.BinOp) and isinstance(t.args[0].op, ast.Sub) and {text(t.args[0].left), text(t.args[0].right)} == want:
        return text(c), s
    if is_abs and cost_diff(t.args[0]):
        ctx.violated("R3", construct, where(mod, s), "per-child term is |%s|, expected |f0(parent) - f0(child)| i.e. %s" % (text(t.args[0]), sorted(want)), key="formula")
        return False
    if cost_diff(t):
        ctx.violated("R3", construct, where(mod, s), "per-child term %s is not an absolute difference: deviations of opposite sign cancel" % text(t), key="formula")
        return False
    return None


def _r3_writes(ctx, mod, run, ploop, ind, construct, total):
    # writes of the total into costs / costs_signed on every path of the design-loop body
    fake = ast.FunctionDef(name="body", args=run.args, body=ploop.body, decorator_list=[], returns=None, type_comment=None, lineno=ploop.lineno, col_offset=0)
    n = 0
    TR = Terms(run)
    total_node = ast.parse(total, mode="eval").body

    total_names = set()     # locals known to hold the sum on the current path (a later store may invalidate the *term*, not the local)

    def is_total(expr, at):
        # the written value is the accumulated sum, through whatever locals it was passed
        if isinstance(expr, ast.Name) and expr.id in total_names:
            return True
        ok_ = text(TR.expand(expr, at=at)) == text(TR.expand(total_node, at=at)) or text(expr) == total
        if ok_ and isinstance(expr, ast.Name):
            total_names.add(expr.id)
        return ok_
    for p in Enumerator(loop_counts=(0, 1, 2)).function_paths(fake):
        n += 1
        wc, ws, marker_bad = 0, 0, None
        total_names.clear()
        for e in p.events:
            if e.kind != "stmt":
                continue
            s = e.node
            if isinstance(s, (ast.Assign, ast.AugAssign)):
                for t_ in (s.targets if isinstance(s, ast.Assign) else [s.target]):
                    if isinstance(t_, ast.Name):
                        total_names.discard(t_.id)
                if isinstance(s, ast.Assign) and len(s.targets) == 1 and isinstance(s.targets[0], ast.Name) and is_total(s.value, s):
                    total_names.add(s.targets[0].id)
            if isinstance(s, ast.Expr) and isinstance(s.value, ast.Call):
                mc = method_call(s.value)
                if mc and access_path(mc[0]) == ind + ".costs" and mc[1] == "append" and is_total(s.value.args[0], s):
                    wc += 1
                elif mc and access_path(mc[0]) == ind + ".costs_signed":
                    if mc[1] == "insert" and len(s.value.args) == 2 and is_total(s.value.args[1], s):
                        ws += 1
                        try:
                            if fold(s.value.args[0]) != -1:
                                marker_bad = s
                        except ValueError:
                            marker_bad = s
                    elif mc[1] == "append" and s.value.args and is_total(s.value.args[0], s):
                        ws += 1
                        marker_bad = s
            elif isinstance(s, ast.Assign) and len(s.targets) == 1 and isinstance(s.targets[0], ast.Subscript) and is_total(s.value, s):
                base = access_path(s.targets[0].value)
                try:
                    idx = fold(s.targets[0].slice)
                except ValueError:
                    idx = None
                if base == ind + ".costs":
                    wc += 1
                    if idx != -1:
                        marker_bad = s
                elif base == ind + ".costs_signed":
                    ws += 1
                    if idx != -2:
                        marker_bad = s
        if marker_bad is not None:
            ctx.violated("R3", construct, where(mod, marker_bad), "the sensitivity is written at the wrong position (%s): it must be the last cost and sit just before the feasibility marker of the signed costs" % text(marker_bad).strip(), key="write-once")
            return
        if wc != 1 or ws != 1:
            ctx.violated("R3", construct, where(mod, ploop), "on the path [%s] the sensitivity is written %d time(s) into costs and %d time(s) into costs_signed (expected once each)" % (p.describe(5), wc, ws), key="write-once")
            return
    ctx.holds("R3", construct, where(mod, ploop), "on all %d paths of the design-loop body the sum is written once into costs and once into costs_signed before the marker" % n, key="write-once")


def r4_gradient(ctx, repo, cls):
    mod = cls.module
    run = cls.methods.get("run")
    construct = "%s.run" % cls.name
    if run is None:
        return
    selfn = func_params(run)[0]
    wl = worklists(cls)
    step_attr = ctx.extra.get("gradient_step_attr")
    ploops = [s for s in run.body if isinstance(s, ast.For) and access_path(s.iter) in wl and isinstance(s.target, ast.Name)]
    if len(ploops) != 1:
        ctx.inconclusive("R4", construct, where(mod, run), "per-design loop not found", key="quotient")
        return
    ploop = ploops[0]
    ind = ploop.target.id
    # the store of a gradient component, G[K] = V, inside a loop over the children of the design; K and V are read as
    # terms over the loop's index (whatever the loop is written like: range, enumerate, element loop with a counter)
    from .. import poly
    TT = Terms(run)
    cands = []
    for cl in [s for s in stmts_of(ploop) if isinstance(s, ast.For) and s is not ploop]:
        info = TT.loop_of(cl)
        if info is None:
            continue
        for s in stmts_of(cl):
            if isinstance(s, ast.Assign) and len(s.targets) == 1 and isinstance(s.targets[0], ast.Subscript) and isinstance(s.targets[0].value, ast.Name):
                V = TT.expand(s.value, at=s, elems=True, skip=(ind,))
                if ".costs[" in text(V) and (ind + ".children[") in text(V):
                    cands.append((cl, info, s, V))
    if len(cands) != 1:
        ctx.inconclusive("R4", construct, where(mod, ploop), "gradient component assignment inside a loop over the children not found", key="quotient")
        return
    cloop, info, q, v = cands[0]
    idx = info.index
    K = TT.expand(q.targets[0].slice, at=q, elems=True, skip=(ind,))
    lo = info.lo if info.lo is not None else ast.Constant(value=0)
    hi = TT.expand(info.hi, at=cloop, skip=(ind,)) if info.hi is not None else None
    rng_ok = None
    if hi is not None and info.step is None:
        e_lo, e_hi = poly.equal(lo, poly.parse("0")), poly.equal(hi, poly.parse("len(%s.children)" % ind))
        rng_ok = True if (e_lo and e_hi) else (False if (e_lo is False or e_hi is False) else None)
    if rng_ok is False:
        ctx.violated("R4", construct, where(mod, cloop), "the child loop visits children [%s, %s), not every child: some gradient components are never computed" % (text(lo), text(hi)), key="quotient")
        return
    if rng_ok is None:
        ctx.inconclusive("R4", construct, where(mod, cloop), "range of the child loop %s not recognised" % text(cloop.iter), key="quotient")
        return
    if not (isinstance(v, ast.BinOp) and isinstance(v.op, ast.Div)):
        cost_like = isinstance(v, ast.BinOp) and isinstance(v.op, ast.Sub) and all((access_path(x) or "").find(".costs[") >= 0 for x in (v.left, v.right))
        ctx.check3(False if cost_like else None, "R4", construct, where(mod, q), "", "gradient component %s is a plain difference: it is not divided by the step" % text(v),
                   "gradient component %s is not recognised as a difference quotient" % text(v), key="quotient")
        return
    num, den = v.left, v.right
    if not (isinstance(num, ast.BinOp) and isinstance(num.op, ast.Sub) and all((access_path(x) or "").find(".costs[") >= 0 for x in (num.left, num.right))):
        ctx.inconclusive("R4", construct, where(mod, q), "numerator %s is not recognised as a difference of two objective values" % text(num), key="quotient")
        return
    J = None
    if isinstance(num.left, ast.Subscript) and isinstance(num.left.value, ast.Attribute) and isinstance(num.left.value.value, ast.Subscript) \
            and access_path(num.left.value.value.value) == ind + ".children":
        J = num.left.value.value.slice
    if J is None or text(num.left) != "%s.children[%s].costs[0]" % (ind, text(J)) or text(num.right) != "%s.costs[0]" % ind:
        ctx.violated("R4", construct, where(mod, q), "numerator is %s, expected f0(child) - f0(parent) = %s.children[k].costs[0] - %s.costs[0] (forward difference of the first objective)" % (text(num), ind, ind), key="quotient")
        return
    same = poly.equal(K, J)
    only_idx = {n_.id for n_ in ast.walk(K) if isinstance(n_, ast.Name)} <= {idx}
    if same is not True:
        ctx.check3(False if (same is False and only_idx) else None, "R4", construct, where(mod, q), "",
                   "gradient component index %s does not run in step with the children (child %s): components are shifted or overwritten" % (text(K), text(J)),
                   "gradient component index %s is not recognised as the position of child %s" % (text(K), text(J)), key="quotient")
        return
    want_den = step_attr.replace(step_attr.split(".")[0], selfn, 1) if step_attr else None
    if step_attr is None:
        ctx.inconclusive("R4", construct, where(mod, q), "the displacement step of add() is not known", key="quotient")
        return
    if access_path(den) != want_den:
        recognised = access_path(den) is not None or is_const(den) or (isinstance(den, ast.BinOp) and want_den in text(den))
        ctx.check3(False if recognised else None, "R4", construct, where(mod, q), "", "divisor %s is not the displacement step %s used in add()" % (text(den), step_attr),
                   "divisor %s not recognised" % text(den), key="quotient")
        return
    ctx.holds("R4", construct, where(mod, q), "component[k] = (f0(child k) - f0(parent)) / %s" % text(den), key="quotient")
    # stored under features['gradient'] of the design
    stored = [s for s in ploop.body if isinstance(s, ast.Assign) and any(text(t) == "%s.features['gradient']" % ind for t in s.targets)
              and access_path(s.value) == access_path(q.targets[0].value)]
    ctx.check3(True if stored else None, "R4", construct, where(mod, ploop), "the computed vector is stored as features['gradient'] of its design",
               unknown_detail="storing of the gradient not recognised", key="stored")
    # step literal in __init__
    init = cls.methods.get("__init__")
    lit = None
    attr = step_attr.split(".", 1)[1] if step_attr else None
    if init is not None and attr:
        for s in stmts_of(init):
            if isinstance(s, ast.Assign) and any(access_path(t) == func_params(init)[0] + "." + attr for t in s.targets):
                try:
                    lit = fold(s.value)
                except ValueError:
                    lit = None
    if lit is None:
        ctx.inconclusive("R4", "%s.__init__" % cls.name, where(mod, cls.node), "step attribute has no literal value", key="step")
    else:
        ctx.check(lit == 1e-4, "R4", "%s.__init__" % cls.name, where(mod, init), "finite-difference step literal is %r (property: 1e-4)" % lit, key="step")
    # queued list evaluated exactly once per batch
    n_eval = 0
    for c in calls_in(run):
        if isinstance(c.func, ast.Attribute) and c.func.attr.startswith("evaluate") and c.args and access_path(c.args[0]) in wl:
            n_eval += 1
    ctx.check(n_eval == 1, "R4", construct, where(mod, run), "the queued list (parent + n children) is handed to the base evaluator %d time(s) per batch (expected 1: exactly n additional evaluations per design)" % n_eval, key="evaluated-once")


def r5_entry(ctx, repo, cls):
    mod = cls.module
    fn = cls.methods.get("evaluate")
    construct = "%s.evaluate" % cls.name
    if fn is None:
        ctx.inconclusive("R5", construct, where(mod, cls.node), "no own evaluate()")
        return
    selfn = func_params(fn)[0]
    batch = func_params(fn)[1]
    n = 0
    for p in Enumerator(loop_counts=(0, 1, 2)).function_paths(fn):
        if p.outcome == "raise":
            continue
        n += 1
        runs = p.count(lambda e: e.kind in ("stmt", "return") and any(access_path(c.func) == selfn + ".run" for c in calls_in(e.node)))
        adds = p.count(lambda e: e.kind == "stmt" and any(access_path(c.func) == selfn + ".add" for c in calls_in(e.node)))
        iters = [e for e in p.events if e.kind == "iter" and access_path(e.node.iter) == batch]
        if runs != 1:
            ctx.violated("R5", construct, where(mod, fn), "run() is called %d times on the path [%s] (expected once per batch)" % (runs, p.describe(5)))
            return
        if adds != len(iters):
            ctx.violated("R5", construct, where(mod, fn), "%d add() calls for %d designs of the batch on the path [%s]" % (adds, len(iters), p.describe(5)))
            return
        last_add = max([i for i, e in enumerate(p.events) if e.kind == "stmt" and any(access_path(c.func) == selfn + ".add" for c in calls_in(e.node))] or [-1])
        run_i = p.index(lambda e: e.kind in ("stmt", "return") and any(access_path(c.func) == selfn + ".run" for c in calls_in(e.node)))
        if run_i < last_add:
            ctx.violated("R5", construct, where(mod, fn), "run() is called before every design of the batch was queued")
            return
    ctx.holds("R5", construct, where(mod, fn), "every design of the batch is queued once, then run() once (%d paths)" % n)


def r6_evaluated_first(ctx, repo, cls):
    """the neighbours are displaced copies of the vector the design FINALLY holds: a design whose evaluation fails
    transiently is re-sampled (C06), so it must have been evaluated before add() copies its vector"""
    mod = cls.module
    fn = cls.methods.get("evaluate")
    construct = "%s.evaluate" % cls.name
    if fn is None:
        return
    selfn, batch = func_params(fn)[:2]
    bad = None
    n = 0
    for p in Enumerator(loop_counts=(0, 1, 2)).function_paths(fn):
        if p.outcome == "raise":
            continue
        adds = [i for i, e in enumerate(p.events) if e.kind == "stmt" and any(access_path(c.func) == selfn + ".add" for c in calls_in(e.node))]
        if not adds:
            continue
        n += 1
        evs = [i for i, e in enumerate(p.events) if e.kind == "stmt" and any(
            ((isinstance(c.func, ast.Attribute) and c.func.attr == "evaluate" and isinstance(c.func.value, ast.Call) and access_path(c.func.value.func) == "super")
             or access_path(c.func) in (selfn + ".evaluate_serial", selfn + ".evaluate_parallel"))
            and c.args and access_path(c.args[0]) == batch for c in calls_in(e.node))]
        if not evs or evs[0] > adds[0]:
            bad = bad or p
    if bad is not None:
        ctx.violated("R6", construct, where(mod, fn), "the neighbours of a design are built (add) before the design itself has been evaluated (path [%s]): when its evaluation fails transiently the "
                     "design is re-sampled, and the neighbours stay displaced from the discarded vector" % bad.describe(5), key="evaluated-first")
    elif n:
        ctx.holds("R6", construct, where(mod, fn), "the batch is evaluated before the neighbours are built (%d paths)" % n, key="evaluated-first")
    else:
        ctx.inconclusive("R6", construct, where(mod, fn), "no path queues a design", key="evaluated-first")


def r7_own_cost_lists(ctx, repo, wc):
    """the worst-case evaluator extends a design's cost lists IN PLACE (append / insert): every design must own its lists.
    `X.costs = Y.costs` (the bare attribute of another design, no copy) anywhere on the evaluator's side makes two designs
    share one list, and the extra objective of the one is appended to the other as well"""
    run = wc.methods.get("run")
    if run is None:
        return
    inplace = [c for c in ast.walk(run) if isinstance(c, ast.Call) and isinstance(c.func, ast.Attribute) and c.func.attr in ("append", "insert", "extend")
               and (access_path(c.func.value) or "").split(".")[-1] in ("costs", "costs_signed")]
    inplace += [s_ for s_ in ast.walk(run) if isinstance(s_, ast.AugAssign) and (access_path(s_.target) or "").split(".")[-1] in ("costs", "costs_signed")]
    C = "%s (cost lists)" % wc.name
    if not inplace:
        ctx.holds("R7", C, where(wc.module, run), "the extra objective is not written into the cost lists in place: sharing a list between designs would not double it")
        return
    # the evaluator's side: the evaluator classes and the Job they drive (Individual.sync, which adopts the fields of a design
    # that came back from another process, replaces one object by its own transferred copy and is not looked at)
    owners = [k for k in repo.mro(wc) if k.module.name in ("operators",)] + [repo.cls("Job", "job")]
    shared = None
    n = 0
    for k in owners:
        for mname, m in k.methods.items():
            for s_ in ast.walk(m):
                if not isinstance(s_, ast.Assign):
                    continue
                for t in s_.targets:
                    tp = access_path(t) or ""
                    if tp.split(".")[-1] not in ("costs", "costs_signed") or "." not in tp:
                        continue
                    n += 1
                    vp = access_path(s_.value) if isinstance(s_.value, ast.Attribute) else None
                    if vp and vp.split(".")[-1] in ("costs", "costs_signed") and vp.rsplit(".", 1)[0] != tp.rsplit(".", 1)[0]:
                        shared = shared or (k, m, s_, "%s.%s binds %s to the very list object of %s (no copy); %s.run then extends cost lists in place (%s): the extra objective of one design is "
                                            "appended to every design that shares the list, so a cost vector grows beyond one entry per objective plus one"
                                            % (k.name, mname, tp, vp, wc.name, text(inplace[0])[:80]))
    if shared:
        ctx.violated("R7", C, where(shared[0].module, shared[2]), shared[3])
    else:
        ctx.holds("R7", C, where(wc.module, run), "no design is given the cost list of another design (%d cost-list assignments on the evaluator's side looked at); in-place extension in run() "
                  "touches one design" % n)


def run(ctx):
    repo = ctx.repo
    ctx.rule("R6", "the designs are evaluated before their neighbours are built")
    ctx.rule("R7", "every design owns its cost lists (the worst-case evaluator extends them in place)")
    for rid, doc in (("R1", "work lists filled by add() are emptied after their last use on every normal path of run()"),
                     ("R2", "neighbour construction: axis range, sign set, fresh copy, same-index tolerance, one child per iteration, children reset, queued"),
                     ("R3", "worst-case sensitivity = sum |f0(parent)-f0(child)|, written once into costs and costs_signed before the marker"),
                     ("R4", "gradient component = (f0(child)-f0(parent))/step, same step as displacement, literal 1e-4, queue evaluated once"),
                     ("R5", "evaluate() queues each design once and calls run() once")):
        ctx.rule(rid, doc)
    ctx.assume("each design object is handed to the evaluator in one batch only (population algorithms evaluate fresh offspring)")
    ctx.assume("the scalar bridge evaluate_scalar is outside this property's quantifier (batches of population algorithms)")
    wc = repo.cls("WorstCaseEvaluator", "operators")
    gr = repo.cls("GradientEvaluator", "operators")
    subs = [c for c in repo.subclasses("Evaluator") if "add" in c.methods and worklists(c)]
    ctx.count("evaluator_subclasses_with_worklists", len(subs))
    if len(subs) < 2:
        raise AnalysisError("expected at least 2 Evaluator subclasses with work lists, found %d" % len(subs))
    for c in subs:
        r1_typestate(ctx, repo, c)
    r2_neighbours(ctx, repo, wc, "worst")
    r2_neighbours(ctx, repo, gr, "gradient")
    r3_sensitivity(ctx, repo, wc)
    r4_gradient(ctx, repo, gr)
    r5_entry(ctx, repo, wc)
    r5_entry(ctx, repo, gr)
    r6_evaluated_first(ctx, repo, wc)
    r6_evaluated_first(ctx, repo, gr)
    r7_own_cost_lists(ctx, repo, wc)
