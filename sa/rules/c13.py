"""C13 - factorial and screening designs have their defining combinatorial structure
(table and structure rules; the generalized subset design is not decided).

R1  fullfact is the mixed-radix construction: the tile count is divided by the
    factor's level count *before* the column is built, the repeat count is
    multiplied *after*; each level j is repeated `repeat` times; the row count
    is prod(levels); construct_df pairs column and factor index.
R2  Plackett-Burman: the literal seed vectors of the 12- and 20-run
    constructions define bordered Toeplitz / Hankel matrices that are Hadamard
    (constant-table check, like a CRC table); doubling has the Sylvester shape
    [[H, H], [H, -H]]; the first column is dropped and `keep` columns kept with
    keep = the factor count read before the run count overwrites it; the run
    count is the next multiple of four strictly above the factor count; codes
    map to the two bounds only.
R3  Box-Behnken: pair loops i < j; the counter is incremented once per pair
    before use; row blocks [(k-1)s, ks) for both columns of the pair take the
    two columns of the +-1 two-factor design; the matrix starts at the centre
    code; the number of factorial rows is s*n(n-1)/2; the generator adds one
    centre run and maps codes to (lo, mid, hi).
"""
import ast
from fractions import Fraction

from ..astutil import (text, access_path, calls_in, func_params, stmts_of, is_const, const_value, method_call, range_bounds, fold)
from ..loader import where, AnalysisError
from .. import poly


def is_method(node, name):
    return isinstance(node, ast.Call) and isinstance(node.func, ast.Attribute) and node.func.attr == name


def literal_vec(node):
    if isinstance(node, (ast.List, ast.Tuple)):
        try:
            return [fold(e) for e in node.elts]
        except ValueError:
            return None
    return None


def toeplitz(c, r):
    n, m = len(c), len(r)
    return [[c[i - j] if i >= j else r[j - i] for j in range(m)] for i in range(n)]


def hankel(c, r):
    n, m = len(c), len(r)
    vals = list(c) + list(r[1:])
    return [[vals[i + j] for j in range(m)] for i in range(n)]


def border(core):
    n = len(core) + 1
    return [[1] * n] + [[1] + row for row in core]


def is_hadamard(H):
    n = len(H)
    if any(len(r) != n for r in H) or any(x not in (1, -1) for r in H for x in r):
        return False
    for i in range(n):
        for j in range(i, n):
            d = sum(a * b for a, b in zip(H[i], H[j]))
            if d != (n if i == j else 0):
                return False
    return True


def r1_fullfact(ctx, repo):
    doe = repo.module("doe")
    fn = doe.functions.get("fullfact")
    if fn is None:
        raise AnalysisError("fullfact not found")
    C = "doe.fullfact"
    lv = func_params(fn)[0]
    loops = [s for s in fn.body if isinstance(s, ast.For) and range_bounds(s.iter)]
    if len(loops) != 1:
        ctx.inconclusive("R1", C, where(doe, fn), "factor loop not found")
        return
    lp = loops[0]
    i = lp.target.id
    body = lp.body
    problems = []
    tile = [k for k, s in enumerate(body) if isinstance(s, ast.AugAssign) and isinstance(s.op, (ast.FloorDiv, ast.Div)) and text(s.value) == "%s[%s]" % (lv, i)]
    rep = [k for k, s in enumerate(body) if isinstance(s, ast.AugAssign) and isinstance(s.op, ast.Mult) and text(s.value) == "%s[%s]" % (lv, i)]
    col = [k for k, s in enumerate(body) if isinstance(s, ast.Assign) and isinstance(s.targets[0], ast.Subscript) and text(s.targets[0]).endswith("[:, %s]" % i)]
    rng = [k for k, s in enumerate(body) if isinstance(s, ast.Assign) and isinstance(s.value, ast.BinOp) and isinstance(s.value.op, ast.Mult) and isinstance(s.targets[0], ast.Name)]
    inner = [k for k, s in enumerate(body) if isinstance(s, ast.For)]
    if not (tile and rep and col and rng and inner):
        ctx.inconclusive("R1", C, where(doe, lp), "mixed-radix statements not recognised")
        return
    tv, rv = access_path(body[tile[0]].target), access_path(body[rep[0]].target)
    if not (tile[0] < rng[0]):
        problems.append("the tile count is divided by the level count AFTER the column was built (the first factor is tiled too often)")
    if not (rep[0] > inner[0]):
        problems.append("the repeat count is multiplied BEFORE the levels of this factor are laid out")
    il = body[inner[0]]
    irb = range_bounds(il.iter)
    if not (irb and text(irb[1]) == "%s[%s]" % (lv, i) and (irb[0] is None or text(irb[0]) == "0")):
        problems.append("levels are enumerated over %s, not range(levels[i])" % text(il.iter))
    else:
        j = il.target.id
        acc = [s for s in il.body if isinstance(s, ast.AugAssign) and isinstance(s.op, ast.Add)]
        if not (acc and text(acc[0].value).replace(" ", "") in ("[%s]*%s" % (j, rv), "%s*[%s]" % (rv, j))):
            problems.append("level j is not repeated `repeat` times (%s)" % (text(acc[0].value) if acc else "missing"))
    rs = body[rng[0]]
    if tv not in text(rs.value):
        problems.append("the level block is not tiled by the tile count")
    # initial values
    init = {access_path(s.targets[0]): s.value for s in fn.body if isinstance(s, ast.Assign) and isinstance(s.targets[0], ast.Name)}
    if not (is_const(init.get(rv)) and const_value(init[rv]) == 1):
        problems.append("the repeat count does not start at 1")
    if not (isinstance(init.get(tv), ast.Call) and (access_path(init[tv].func) or "").endswith("prod") and access_path(init[tv].args[0]) == lv):
        problems.append("the tile count does not start at prod(levels)")
    rows = [v for k, v in init.items() if isinstance(v, ast.Call) and (access_path(v.func) or "").endswith("prod")]
    if problems:
        ctx.violated("R1", C, where(doe, lp), "; ".join(problems), key="mixed-radix")
    else:
        ctx.holds("R1", C, where(doe, lp), "mixed-radix enumeration: tile //= levels[i] before, repeat *= levels[i] after, level j repeated `repeat` times, block tiled `tile` times", key="mixed-radix")
    # construct_df index pairing
    cd = doe.functions.get("construct_df")
    x, fl = func_params(cd)[:2]
    apps = [c for c in calls_in(cd) if method_call(c) and method_call(c)[1] == "append" and c.args and isinstance(c.args[0], ast.Subscript) and isinstance(c.args[0].value, ast.Subscript)]
    ok = False
    if apps:
        a = apps[0].args[0]
        fidx = text(a.value.slice)
        inner_idx = [text(n.slice) for n in ast.walk(a.slice) if isinstance(n, ast.Subscript)]
        ok = access_path(a.value.value) == fl and inner_idx == [fidx]
    ctx.check(ok, "R1", "doe.construct_df", where(doe, cd), "value = factor_lists[k][code of column k]: column and factor index are the same variable" if ok else
              "the code of one column is looked up in the level list of another factor", key="index-pairing")
    bf = doe.functions.get("build_full_fact")
    t = text(bf)
    ok = "fullfact(factor_lvl_count)" in t and "construct_df(x, factor_lists)" in t and "factor_lvl_count.append(len(factor_level_ranges[key]))" in t
    ctx.check3(True if ok else None, "R1", "doe.build_full_fact", where(doe, bf), "level counts and level lists are collected in the same key order and passed to fullfact / construct_df",
               unknown_detail="builder shape not recognised", key="wiring")


def r2_pb(ctx, repo):
    doe = repo.module("doe")
    fn = doe.functions.get("pbdesign")
    if fn is None:
        raise AnalysisError("pbdesign not found")
    C = "doe.pbdesign"
    n = func_params(fn)[0]
    # seeds
    n_tables = 0
    for c in calls_in(fn):
        nm = (access_path(c.func) or "").split(".")[-1]
        if nm in ("toeplitz", "hankel") and len(c.args) == 2:
            cv, rv = literal_vec(c.args[0]), literal_vec(c.args[1])
            if cv is None or rv is None:
                ctx.inconclusive("R2", C, where(doe, c), "%s seed vectors are not literal" % nm, key="seed-" + nm)
                continue
            core = toeplitz(cv, rv) if nm == "toeplitz" else hankel(cv, rv)
            H = border(core)
            n_tables += 1
            if is_hadamard(H):
                ctx.holds("R2", C, where(doe, c), "the bordered %s matrix of order %d defined by the literal seed vectors is Hadamard (rows mutually orthogonal, entries +-1)" % (nm, len(H)), key="seed-" + nm)
            else:
                ctx.violated("R2", C, where(doe, c), "the bordered %s matrix of order %d defined by the literal seed vectors is NOT Hadamard: columns of the %d-run design are not balanced / orthogonal" % (nm, len(H), len(H)), key="seed-" + nm)
    if n_tables < 2:
        ctx.inconclusive("R2", C, where(doe, fn), "expected the 12- and 20-run seed constructions, found %d" % n_tables, key="seeds")
    # Sylvester doubling
    dbl = [s for s in stmts_of(fn) if isinstance(s, ast.For)]
    okd = False
    detail = "doubling loop not found"
    for lp in dbl:
        for s in lp.body:
            if isinstance(s, ast.Assign) and isinstance(s.value, ast.Call) and (access_path(s.value.func) or "").endswith("vstack"):
                t = text(s.value).replace(" ", "").replace("np.", "")
                hv = access_path(s.targets[0])
                shapes = ("vstack((hstack(({h},{h})),hstack(({h},-{h}))))".format(h=hv), "vstack([hstack([{h},{h}]),hstack([{h},-{h}])])".format(h=hv))
                okd = t in shapes
                detail = "doubling step %s is not the Sylvester construction [[H, H], [H, -H]]" % text(s.value)
    ctx.check(okd, "R2", C, where(doe, fn), "doubling H -> [[H, H], [H, -H]] (Sylvester; preserves the Hadamard property)" if okd else detail, key="doubling")
    # keep / run count / column slice
    assigns = [s for s in fn.body if isinstance(s, ast.Assign) and isinstance(s.targets[0], ast.Name)]
    names = [access_path(s.targets[0]) for s in assigns]
    keep_s = [s for s in assigns if text(s.value) in ("int(%s)" % n, n)]
    run_s = [s for s in assigns if access_path(s.targets[0]) == n]
    problems = []
    if not keep_s or not run_s or fn.body.index(keep_s[0]) > fn.body.index(run_s[0]):
        problems.append("the factor count is not saved before the run count overwrites it")
    if run_s:
        e = run_s[0].value
        # normalise floor forms
        import copy

        class F(ast.NodeTransformer):
            def visit_Call(self, c):
                self.generic_visit(c)
                nm = access_path(c.func) or ""
                if nm in ("int", "math.floor", "np.floor") and len(c.args) == 1 and isinstance(c.args[0], ast.BinOp) and isinstance(c.args[0].op, ast.Div) \
                        and access_path(c.args[0].left) == n and is_const(c.args[0].right) and const_value(c.args[0].right) == 4:
                    return ast.Name(id="FLOOR4", ctx=ast.Load())
                if nm in ("int",) and len(c.args) == 1:
                    return c.args[0]
                return c

            def visit_BinOp(self, b):
                self.generic_visit(b)
                if isinstance(b.op, ast.FloorDiv) and access_path(b.left) == n and is_const(b.right) and const_value(b.right) == 4:
                    return ast.Name(id="FLOOR4", ctx=ast.Load())
                if isinstance(b.op, ast.Mod) and access_path(b.left) == n and is_const(b.right) and const_value(b.right) == 4:
                    return ast.BinOp(left=ast.Name(id=n, ctx=ast.Load()), op=ast.Sub(), right=ast.BinOp(left=ast.Constant(value=4), op=ast.Mult(), right=ast.Name(id="FLOOR4", ctx=ast.Load())))
                return b
        e2 = F().visit(copy.deepcopy(e))
        eq = poly.equal(e2, poly.parse("4 * (FLOOR4 + 1)"))
        if eq is False or (eq is None) or any(isinstance(x, ast.Call) and (access_path(x.func) or "").split(".")[-1] in ("ceil",) for x in ast.walk(e2)):
            if any(isinstance(x, ast.Call) and (access_path(x.func) or "").split(".")[-1] == "ceil" for x in ast.walk(e)):
                problems.append("the run count %s rounds n/4 UP: for a factor count that is a multiple of four it equals the factor count, but the design needs the next multiple of four strictly above it (the first Hadamard column is dropped)" % text(e))
            elif eq is False:
                problems.append("the run count %s is not 4*(floor(n/4)+1), the next multiple of four above the factor count" % text(e))
            else:
                ctx.inconclusive("R2", C, where(doe, run_s[0]), "run count %s not normalisable" % text(e), key="run-count")
    sl = [s for s in stmts_of(fn) if isinstance(s, ast.Assign) and isinstance(s.value, ast.Subscript) and isinstance(s.value.slice, ast.Tuple)]
    ok_slice = False
    for s in sl:
        el = s.value.slice.elts
        if len(el) == 2 and isinstance(el[1], ast.Slice) and keep_s:
            kv = access_path(keep_s[0].targets[0])
            lo, hi = el[1].lower, el[1].upper
            if lo is not None and is_const(lo) and const_value(lo) == 1 and hi is not None and poly.equal(hi, poly.parse("%s + 1" % kv)):
                ok_slice = True
            else:
                problems.append("the column slice %s does not drop exactly the all-ones first column and keep `%s` columns" % (text(s.value), kv))
    if not sl:
        problems.append("column reduction not found")
    if problems:
        ctx.violated("R2", C, where(doe, fn), "; ".join(problems), key="size")
    elif ok_slice:
        ctx.holds("R2", C, where(doe, fn), "run count 4*(floor(n/4)+1); first (all-ones) column dropped, `keep` = factor count columns kept", key="size")
    # codes -> two bounds
    bp = doe.functions.get("build_plackett_burman")
    ic = [f for f in ast.walk(bp) if isinstance(f, ast.FunctionDef) and f.name == "index_change"]
    state = None
    bad_detail = ""
    if ic and "construct_df(x, factor_lists)" in text(bp) and "pbdesign(factor_count)" in text(bp):
        # decision table of the code map over the two codes -1 / +1
        f = ic[0]
        arg = func_params(f)[0]
        table = {}
        for code in (-1, 1):
            val = None
            for st in f.body:
                if isinstance(st, ast.If) and isinstance(st.test, ast.Compare) and access_path(st.test.left) == arg and is_const(st.test.comparators[0]) \
                        and isinstance(st.test.ops[0], ast.Eq):
                    br = st.body if code == const_value(st.test.comparators[0]) else st.orelse
                    rr = [x for x in br if isinstance(x, ast.Return)]
                    if rr:
                        val = code if access_path(rr[0].value) == arg else (const_value(rr[0].value) if is_const(rr[0].value) else None)
            table[code] = val
        if table == {-1: 0, 1: 1}:
            state = True
        elif None not in table.values():
            state, bad_detail = False, "codes -1/+1 are mapped to the level indices %s instead of 0/1: a design value is not the corresponding bound" % table
    ctx.check3(state, "R2", "doe.build_plackett_burman", where(doe, bp), "codes -1/+1 become indices 0/1 into [lo, hi]: only the two bounds occur", bad_detail,
               "code-to-bound mapping not recognised", key="codes")


def r3_bb(ctx, repo):
    doe = repo.module("doe")
    fn = doe.functions.get("bbdesign")
    if fn is None:
        raise AnalysisError("bbdesign not found")
    C = "doe.bbdesign"
    n = func_params(fn)[0]
    loops = [s for s in fn.body if isinstance(s, ast.For)]
    if not loops or not [s for s in loops[0].body if isinstance(s, ast.For)]:
        ctx.inconclusive("R3", C, where(doe, fn), "pair loops not found")
        return
    ol = loops[0]
    il = [s for s in ol.body if isinstance(s, ast.For)][0]
    i, j = ol.target.id, il.target.id
    orb, irb = range_bounds(ol.iter), range_bounds(il.iter)
    problems = []
    if not (orb and (orb[0] is None or text(orb[0]) == "0") and poly.equal(orb[1], poly.parse("%s - 1" % n))):
        problems.append("outer loop %s is not range(n-1)" % text(ol.iter))
    if not (irb and irb[0] is not None and poly.equal(irb[0], poly.parse("%s + 1" % i)) and access_path(irb[1]) == n):
        problems.append("inner loop %s is not range(i+1, n): not every factor pair i<j gets a block" % text(il.iter))
    body = il.body
    inc = [k for k, s in enumerate(body) if (isinstance(s, ast.Assign) and isinstance(s.value, ast.BinOp) and access_path(s.targets[0]) == access_path(s.value.left)
                                             and isinstance(s.value.op, ast.Add) and is_const(s.value.right) and const_value(s.value.right) == 1)
           or (isinstance(s, ast.AugAssign) and isinstance(s.op, ast.Add) and is_const(s.value) and const_value(s.value) == 1)]
    blocks = [(k, s) for k, s in enumerate(body) if isinstance(s, ast.Assign) and isinstance(s.targets[0], ast.Subscript) and isinstance(s.targets[0].slice, ast.Tuple)]
    if len(inc) != 1 or len(blocks) != 2:
        ctx.inconclusive("R3", C, where(doe, il), "block counter / two block assignments not recognised")
        return
    cnt = access_path(body[inc[0]].targets[0] if isinstance(body[inc[0]], ast.Assign) else body[inc[0]].target)
    if inc[0] > blocks[0][0]:
        problems.append("the block counter is incremented after the block was written")
    init = [s for s in fn.body if isinstance(s, ast.Assign) and access_path(s.targets[0]) == cnt]
    if not (init and is_const(init[0].value) and const_value(init[0].value) == 0):
        problems.append("the block counter does not start at 0")
    hf = None
    for s in fn.body:
        if isinstance(s, ast.Assign) and isinstance(s.value, ast.Call) and access_path(s.value.func) == "ff2n" and text(s.value.args[0]) == "2":
            hf = access_path(s.targets[0])
    if hf is None:
        problems.append("the +-1 two-factor design ff2n(2) is not used")
    else:
        S = "%s.shape[0]" % hf
        cols_seen = []
        for k, s in blocks:
            rows, col = s.targets[0].slice.elts
            lo, hi = rows.lower, rows.upper
            # max([0, e]) wrapper
            if isinstance(lo, ast.Call) and access_path(lo.func) == "max" and isinstance(lo.args[0], ast.List) and len(lo.args[0].elts) == 2:
                lo = lo.args[0].elts[1]
            from .c16 import subst
            lo2, hi2 = subst(lo, {S: "S"}), subst(hi, {S: "S"})
            if not (poly.equal(lo2, poly.parse("(%s - 1) * S" % cnt)) and poly.equal(hi2, poly.parse("%s * S" % cnt))):
                problems.append("row block %s is not [(k-1)s, ks): blocks of different pairs overlap or leave gaps" % text(s.targets[0]))
            cols_seen.append((access_path(col), text(s.value)))
        want = {(i, "%s[:, 0]" % hf), (j, "%s[:, 1]" % hf)}
        if set(cols_seen) != want:
            problems.append("the block columns receive %s, expected columns i and j to take the two columns of the two-factor design" % sorted(cols_seen))
        nb = [s for s in fn.body if isinstance(s, ast.Assign) and isinstance(s.value, ast.Call) and access_path(s.value.func) == "int"]
        okn = False
        for s in nb:
            e = subst(s.value.args[0], {S: "S"})
            if poly.equal(e, poly.parse("%s * (%s - 1) * S / 2" % (n, n))):
                okn = True
        if not okn:
            problems.append("the number of factorial rows is not s*n(n-1)/2")
        base = [s for s in fn.body if isinstance(s, ast.Assign) and isinstance(s.value, ast.Call) and access_path(s.value.func) == "repeat_center"]
        if not base:
            problems.append("the design does not start from the centre code")
    # centre rows appended
    cen = [s for s in fn.body if isinstance(s, ast.Assign) and "repeat_center(%s, center)" % n in text(s.value)]
    if not cen:
        problems.append("the centre runs repeat_center(n, center) are not appended")
    rc = doe.functions.get("repeat_center")
    if rc is None or "np.zeros((repeat, n))" not in text(rc):
        problems.append("repeat_center does not produce rows of the centre code 0")
    if problems:
        ctx.violated("R3", C, where(doe, il), "; ".join(problems), key="blocks")
    else:
        ctx.holds("R3", C, where(doe, il), "one block of the +-1 two-factor design per factor pair i<j in rows [(k-1)s, ks), other factors at the centre code, centre runs appended", key="blocks")
    # builder: one centre run, codes -> (lo, mid, hi)
    bb = doe.functions.get("build_box_behnken")      # the last definition wins
    t = text(bb)
    bcalls = [c for c in calls_in(bb) if access_path(c.func) == "bbdesign"]
    cstate, cval = None, None
    if bcalls:
        kw = {k.arg: k.value for k in bcalls[0].keywords}
        cv = kw.get("center", bcalls[0].args[1] if len(bcalls[0].args) > 1 else None)
        if cv is not None and is_const(cv):
            cval = const_value(cv)
            cstate = cval == 1
        elif cv is None:
            cstate, cval = False, "default (table value)"
    ctx.check3(cstate, "R3", "doe.build_box_behnken", where(doe, bb), "exactly one centre run (center=1)",
               "the Box-Behnken builder requests %r centre runs, the property requires exactly one" % (cval,), "centre-run argument not recognised", key="centre")
    shift = [s_ for s_ in stmts_of(bb) if isinstance(s_, ast.Assign) and isinstance(s_.value, ast.BinOp) and isinstance(s_.value.op, ast.Add)
             and access_path(s_.targets[0]) == access_path(s_.value.left) and is_const(s_.value.right)]
    mid = [s_ for s_ in stmts_of(bb) if isinstance(s_, ast.Expr) and is_method(s_.value, "append") and "/ 2" in text(s_.value)]
    mstate = None
    mbad = ""
    if shift and "construct_df(x, factor_lists)" in t:
        k_ = const_value(shift[0].value.right)
        if k_ != 1:
            mstate, mbad = False, "codes -1/0/+1 are shifted by %r instead of 1: they no longer index (lo, mid, hi)" % k_
        elif mid and ".sort()" in t:
            ok_mid = bool(poly.equal(mid[0].value.args[0], poly.parse("(factor_level_ranges[key][0] + factor_level_ranges[key][1]) / 2")))
            mstate = True if ok_mid else False
            mbad = "the middle level %s is not the mean of the two bounds" % text(mid[0].value.args[0])
    ctx.check3(mstate, "R3", "doe.build_box_behnken", where(doe, bb), "codes -1/0/+1 shifted to indices 0/1/2 of the sorted list [lo, mid, hi]", mbad, "code-to-level mapping not recognised", key="codes")


def r4_gsd_partial(ctx, repo):
    """generalized subset design: only the two structural ingredients that are visible in the code are decided"""
    doe = repo.module("doe")
    mp = doe.functions.get("_make_partitions")
    if mp is None:
        raise AnalysisError("_make_partitions not found")
    C = "doe._make_partitions"
    fl, P = func_params(mp)[:2]
    loops = [s for s in stmts_of(mp) if isinstance(s, ast.For)]
    ok = False
    detail = "loop nest not recognised"
    if len(loops) == 3:
        lp, lf, ll = loops
        rp, rl = range_bounds(lp.iter), range_bounds(ll.iter)
        pi, li = lp.target.id, ll.target.id
        nl = lf.target.id if isinstance(lf.target, ast.Name) else None
        idx = [s for s in ll.body if isinstance(s, ast.Assign) and isinstance(s.targets[0], ast.Name)]
        guard = [s for s in ll.body if isinstance(s, ast.If)]
        if rp and rl and idx and guard and nl and access_path(lf.iter) == fl:
            okp = rp[0] is not None and text(rp[0]) == "1" and poly.equal(rp[1], poly.parse("%s + 1" % P))
            okl = rl[0] is not None and text(rl[0]) == "1" and access_path(rl[1]) == nl
            oki = poly.equal(idx[0].value, poly.parse("%s + (%s - 1) * %s" % (pi, li, P)))
            t = guard[0].test
            okg = isinstance(t, ast.Compare) and access_path(t.left) == access_path(idx[0].targets[0]) and isinstance(t.ops[0], ast.LtE) and access_path(t.comparators[0]) == nl
            oka = any(method_call(c) and method_call(c)[1] == "append" and access_path(c.args[0]) == access_path(idx[0].targets[0]) for c in calls_in(guard[0]))
            ok = bool(okp and okl and oki and okg and oka)
            detail = "level index = partition + (k-1)*reduction <= number of levels: residue classes mod `reduction`, disjoint and covering 1..L (for L >= 2)" if ok else \
                "the partition of a factor's levels is not the residue-class partition index = p + (k-1)*reduction <= L (p-range ok=%s, k-range ok=%s, index ok=%s, guard ok=%s)" % (bool(okp), bool(okl), bool(oki), bool(okg))
    ctx.check(ok, "R4", C, where(doe, mp), detail, key="partitions")
    ls = doe.functions.get("_make_latin_square")
    t = text(ls) if ls else ""
    okls = "np.arange(n)" in t and "np.roll(numbers, -i) for i in range(n)" in t
    rolled = [c for c in calls_in(ls) if (access_path(c.func) or "").endswith("roll")] if ls else []
    lstate = True if okls else (False if (rolled and len(rolled[0].args) == 2 and text(rolled[0].args[1]) not in ("-i", "i")) else None)
    ctx.check3(lstate, "R4", "doe._make_latin_square", where(doe, ls or mp), "cyclic latin square: row i is the base row rolled by i",
               "row i is rolled by %s, not by i: the rows are not the n cyclic shifts, so symbols repeat within a column" % (text(rolled[0].args[1]) if rolled else "?"), "latin-square construction not recognised", key="latin-square")
    mpd = doe.functions.get("_map_partitions_to_design")
    t = text(mpd) if mpd else ""
    tt = t.replace("(", "").replace(")", "").replace(" ", "")
    okm = "itertools.product*partition_sets" in tt and "partitions[p][factor]forfactor,pinenumeraterow" in tt and "np.vstackmappings" in tt
    ctx.check3(True if okm else None, "R4", "doe._map_partitions_to_design", where(doe, mpd or mp), "each orthogonal-array row contributes the full product of its factors' partition sets",
               unknown_detail="row-to-design mapping not recognised", key="row-products")
    # orthogonal-array augmentation: matrix i is combined with the matrices selected by row i of the latin square
    oa = doe.functions.get("_make_orthogonal_arrays")
    if oa is not None:
        sel = [n_ for n_ in ast.walk(oa) if isinstance(n_, ast.Subscript) and "latin_square[" in text(n_.slice) and "A_matrices" in text(n_.value)]
        rolls = [c for c in calls_in(oa) if (access_path(c.func) or "").endswith("roll")]
        if sel:
            ctx.holds("R4", "doe._make_orthogonal_arrays", where(doe, sel[0]), "the matrices combined with constant c are selected as whole matrices by the latin-square row: %s" % text(sel[0]), key="oa-selection")
        elif rolls:
            c = rolls[0]
            has_axis = any(k.arg == "axis" for k in c.keywords) or len(c.args) >= 3
            stacked = c.args and any(isinstance(s_, ast.Assign) and access_path(s_.targets[0]) == access_path(c.args[0]) and "np.array(A_matrices)" in text(s_.value) for s_ in stmts_of(oa))
            if not has_axis and (stacked or "A_matrices" in text(c.args[0])):
                ctx.violated("R4", "doe._make_orthogonal_arrays", where(doe, c),
                             "%s rolls a stack of matrices without axis=0: numpy flattens the stack, so matrix *entries* are shifted instead of whole matrices; "
                             "from the second augmentation step on the complementary designs overlap and no longer cover the full factorial" % text(c), key="oa-selection")
            else:
                ctx.assume("orthogonal-array selection uses np.roll with an axis: not decided")
        else:
            ctx.assume("orthogonal-array selection has an unrecognised shape: not decided (this clause is outside the claim)")
    g = repo.cls("GSDGenerator", "operators")
    fn = g.methods.get("generate")
    t = text(fn)
    okg = "build_gsd(levels, self.reduction, self.n)" in t and "self.values[i][vector[i]]" in t and "levels.append(len(value))" in t
    look = [n_ for n_ in ast.walk(fn) if isinstance(n_, ast.Subscript) and isinstance(n_.value, ast.Subscript) and access_path(n_.value.value) == "self.values"]
    gstate = True if okg else None
    gbad = ""
    if not okg and look:
        outer_i, inner = text(look[0].value.slice), look[0].slice
        if text(inner) != "vector[%s]" % outer_i:
            gstate, gbad = False, "level looked up with %s: the code of factor %s must index that factor's own level list (self.values[%s][vector[%s]])" % (text(look[0]), outer_i, outer_i, outer_i)
    ctx.check3(gstate, "R4", "GSDGenerator.generate", where(g.module, fn), "codes index the supplied level lists factor by factor", gbad, "code-to-level mapping not recognised", key="codes")


def run(ctx):
    for rid, doc in (("R4", "generalized subset design (partial): residue-class partitions, cyclic latin square, row products, code mapping"), ("R1", "full factorial = mixed-radix enumeration"), ("R2", "Plackett-Burman: Hadamard seeds, Sylvester doubling, size and column slice, codes"),
                     ("R3", "Box-Behnken: pair blocks, centre, codes")):
        ctx.rule(rid, doc)
    ctx.axiom("Hadamard matrix => balanced, mutually orthogonal columns after dropping the all-ones column; Sylvester doubling preserves Hadamard; mixed-radix enumeration is a bijection onto the product")
    ctx.assume("generalized subset design: only its structural ingredients are decided (R4); that the r complementary designs are pairwise disjoint and together make up the full factorial depends on the orthogonal-array augmentation, which is NOT decided")
    ctx.assume("the frexp-based choice between the 1/12/20-run seeds and the number of doublings is not decided")
    r1_fullfact(ctx, ctx.repo)
    r2_pb(ctx, ctx.repo)
    r3_bb(ctx, ctx.repo)
    r4_gsd_partial(ctx, ctx.repo)
