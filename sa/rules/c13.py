"""C13 - factorial and screening designs have their defining combinatorial structure
(table and structure rules; the generalized subset design is not decided).

R1  fullfact is the mixed-radix construction: the tile count is divided by the
    factor's level count *before* the column is built, the repeat count is
    multiplied *after*; each level j is repeated `repeat` times; the row count
    is prod(levels); construct_df pairs column and factor index.
R2  Plackett-Burman: the literal seed vectors of the 12- and 20-run
    constructions define bordered Toeplitz / Hankel matrices that are Hadamard
    (constant-table check, like a CRC table); doubling has the Sylvester shape
    [[H, H], [H, -H]]; the first column is dropped and `keep` columns kept with
    keep = the factor count read before the run count overwrites it; the run
    count is the next multiple of four strictly above the factor count; codes
    map to the two bounds only.
R3  Box-Behnken: pair loops i < j; the counter is incremented once per pair
    before use; row blocks [(k-1)s, ks) for both columns of the pair take the
    two columns of the +-1 two-factor design; the matrix starts at the centre
    code; the number of factorial rows is s*n(n-1)/2; the generator adds one
    centre run and maps codes to (lo, mid, hi).
"""
import ast
import re
from fractions import Fraction

from ..astutil import (text, access_path, calls_in, func_params, stmts_of, is_const, const_value, method_call, range_bounds, fold)
from ..loader import where, AnalysisError
from .. import poly
from ..terms import Terms, PathEnv, fuse, alpha, canonical


def is_method(node, name):
    return isinstance(node, ast.Call) and isinstance(node.func, ast.Attribute) and node.func.attr == name


def literal_vec(node):
    if isinstance(node, (ast.List, ast.Tuple)):
        try:
            return [fold(e) for e in node.elts]
        except ValueError:
            return None
    return None


def toeplitz(c, r):
    n, m = len(c), len(r)
    return [[c[i - j] if i >= j else r[j - i] for j in range(m)] for i in range(n)]


def hankel(c, r):
    n, m = len(c), len(r)
    vals = list(c) + list(r[1:])
    return [[vals[i + j] for j in range(m)] for i in range(n)]


def border(core):
    n = len(core) + 1
    return [[1] * n] + [[1] + row for row in core]


def is_hadamard(H):
    n = len(H)
    if any(len(r) != n for r in H) or any(x not in (1, -1) for r in H for x in r):
        return False
    for i in range(n):
        for j in range(i, n):
            d = sum(a * b for a, b in zip(H[i], H[j]))
            if d != (n if i == j else 0):
                return False
    return True


def code_table(f, codes):
    """{code: returned value} of a one-argument code map, by evaluating its guards for each code; None where undecided"""
    from ..paths import Enumerator
    arg = func_params(f)[0]
    table = {}
    for code in codes:
        vals = set()
        for p in Enumerator(loop_counts=(0, 1)).function_paths(f):
            ok = True
            for e in p.events:
                if e.kind != "guard":
                    continue
                g = e.node
                tv = None
                if isinstance(g, ast.Compare) and len(g.ops) == 1:
                    try:
                        a, b = fold(g.left, {arg: code}), fold(g.comparators[0], {arg: code})
                        tv = {ast.Eq: a == b, ast.NotEq: a != b, ast.Lt: a < b, ast.LtE: a <= b, ast.Gt: a > b, ast.GtE: a >= b}.get(type(g.ops[0]))
                    except ValueError:
                        tv = None
                if tv is None:
                    vals.add(None)
                elif tv != bool(e.val):
                    ok = False
                    break
            if not ok:
                continue
            if p.outcome == "return" and p.node is not None and p.node.value is not None:
                try:
                    vals.add(fold(p.node.value, {arg: code}))
                except ValueError:
                    vals.add(None)
            else:
                vals.add(None)
        table[code] = vals.pop() if len(vals) == 1 else None
    return table


def r1_fullfact(ctx, repo):
    doe = repo.module("doe")
    fn = doe.functions.get("fullfact")
    if fn is None:
        raise AnalysisError("fullfact not found")
    C = "doe.fullfact"
    lv = func_params(fn)[0]
    # every array of fullfact holds level indices (0 .. levels[i]-1) or run counts, and the level counts are whatever the
    # caller passes: an element type that cannot hold them wraps (int8 at 128, uint8 at 256, int16 at 32768; float16 is exact
    # to 2048 only), the rows of the high levels then repeat the rows of other levels and combinations are missing
    NARROW = {"int8": 127, "uint8": 255, "int16": 32767, "uint16": 65535, "float16": 2048, "half": 2048, "byte": 127, "ubyte": 255, "short": 32767, "ushort": 65535}
    for c_ in ast.walk(fn):
        if not isinstance(c_, ast.Call):
            continue
        cands = [k.value for k in c_.keywords if k.arg == "dtype"]
        if isinstance(c_.func, ast.Attribute) and c_.func.attr in ("astype", "view") and c_.args:
            cands.append(c_.args[0])
        for d_ in cands:
            nm = (access_path(d_) or "").split(".")[-1] if not is_const(d_) else str(const_value(d_))
            if nm in NARROW:
                ctx.violated("R1", C, where(doe, c_), "an array of the full-factorial construction is given the element type %s (`%s`), which holds values up to %d only: the level "
                             "indices run to %s[i]-1 for whatever level counts the caller passes, so a factor with more levels than that wraps around, the runs of its "
                             "high levels coincide with (or index backwards into) other levels, and the design has duplicate runs and missing combinations"
                             % (nm, text(c_)[:70], NARROW[nm], lv), key="element-type")
    loops = [s for s in fn.body if isinstance(s, ast.For) and range_bounds(s.iter)]
    if len(loops) != 1:
        ctx.inconclusive("R1", C, where(doe, fn), "factor loop not found")
        return
    lp = loops[0]
    i = lp.target.id
    body = lp.body
    problems = []
    T = Terms(fn)
    LI = "%s[%s]" % (lv, i)
    # the column written for factor i, as a term over the loop-entry values of the two counters
    col = [s_ for s_ in body if isinstance(s_, ast.Assign) and isinstance(s_.targets[0], ast.Subscript) and text(s_.targets[0]).endswith("[:, %s]" % i)]
    inner = [s_ for s_ in body if isinstance(s_, ast.For)]
    if len(col) != 1 or len(inner) != 1 or not isinstance(inner[0].target, ast.Name):
        ctx.inconclusive("R1", C, where(doe, lp), "mixed-radix statements not recognised")
        return
    V = T.expand(col[0].value, at=col[0])
    if isinstance(V, ast.Name):
        # a local whose term was dropped because a counter it reads was updated later: take its value as of its definition
        dfn = [s_ for s_ in body[:body.index(col[0])] if isinstance(s_, ast.Assign) and access_path(s_.targets[0]) == V.id]
        if len(dfn) == 1:
            V = T.expand(dfn[0].value, at=dfn[0])
    il = inner[0]
    j = il.target.id
    # V = <block> * <tile>
    blockv = tilev = None
    if isinstance(V, ast.BinOp) and isinstance(V.op, ast.Mult):
        for a, b in ((V.left, V.right), (V.right, V.left)):
            if isinstance(a, ast.Name) and any(isinstance(x, ast.Name) and x.id == a.id for st_ in il.body for x in ast.walk(st_)):
                blockv, tilev = a.id, b
    if blockv is None:
        ctx.inconclusive("R1", C, where(doe, col[0]), "column value %s is not <level block> * <tile count>" % text(V)[:100])
        return
    # tile count: T // levels[i] with T the counter as it entered the iteration
    tv = None
    if isinstance(tilev, ast.BinOp) and isinstance(tilev.op, (ast.FloorDiv, ast.Div)) and isinstance(tilev.left, ast.Name) and text(tilev.right) == LI:
        tv = tilev.left.id
    elif isinstance(tilev, ast.Name):
        tv = tilev.id
        problems.append("the tile count is divided by the level count AFTER the column was built (the first factor is tiled too often)")
    else:
        ctx.inconclusive("R1", C, where(doe, col[0]), "tile count %s not recognised" % text(tilev)[:100])
        return
    # levels of the block: for j in range(levels[i]): block += [j] * R
    irb = range_bounds(T.expand(il.iter, at=il))
    rv = None
    if not (irb and text(irb[1]) == LI and (irb[0] is None or text(irb[0]) == "0") and irb[2] is None):
        problems.append("levels are enumerated over %s, not range(levels[i])" % text(il.iter))
    acc = []
    for s_ in il.body:
        if isinstance(s_, ast.AugAssign) and isinstance(s_.op, ast.Add) and access_path(s_.target) == blockv:
            acc.append(T.expand(s_.value, at=s_))
        elif isinstance(s_, ast.Expr) and is_method(s_.value, "extend") and access_path(s_.value.func.value) == blockv and len(s_.value.args) == 1:
            acc.append(T.expand(s_.value.args[0], at=s_))
        elif isinstance(s_, ast.For) and isinstance(s_.target, ast.Name) and len(s_.body) == 1 and not s_.orelse \
                and not any(isinstance(x, ast.Name) and x.id == s_.target.id for x in ast.walk(s_.body[0])) \
                and isinstance(s_.body[0], ast.Expr) and is_method(s_.body[0].value, "append") and access_path(s_.body[0].value.func.value) == blockv \
                and len(s_.body[0].value.args) == 1 and isinstance(s_.body[0].value.args[0], (ast.Name, ast.Constant)):
            # for _ in range(R): block.append(j)   is   block += [j] * R
            rb_ = range_bounds(T.expand(s_.iter, at=s_))
            if rb_ and (rb_[0] is None or text(rb_[0]) == "0") and rb_[2] is None:
                acc.append(ast.BinOp(left=ast.List(elts=[s_.body[0].value.args[0]], ctx=ast.Load()), op=ast.Mult(), right=rb_[1]))
    if len(acc) != 1 or not (isinstance(acc[0], ast.BinOp) and isinstance(acc[0].op, ast.Mult)):
        ctx.inconclusive("R1", C, where(doe, il), "level accumulation not recognised")
        return
    for a, b in ((acc[0].left, acc[0].right), (acc[0].right, acc[0].left)):
        if isinstance(a, ast.List) and len(a.elts) == 1 and access_path(a.elts[0]) == j:
            if isinstance(b, ast.Name):
                rv = b.id
            elif isinstance(b, ast.BinOp) and isinstance(b.op, ast.Mult) and LI in (text(b.left), text(b.right)):
                rv = (b.left if text(b.right) == LI else b.right)
                rv = rv.id if isinstance(rv, ast.Name) else None
                problems.append("the repeat count is multiplied BEFORE the levels of this factor are laid out")
    if rv is None:
        problems.append("level j is not repeated `repeat` times (%s)" % text(acc[0]))
    # the block starts empty in every iteration
    fresh = [s_ for s_ in body[:body.index(il)] if isinstance(s_, ast.Assign) and access_path(s_.targets[0]) == blockv and isinstance(s_.value, ast.List) and not s_.value.elts]
    if not fresh:
        problems.append("the level block is not started empty for each factor")
    # state after one iteration and before the loop
    end_env = T.after.get(id(body[-1]), ({}, set()))[0] or {}
    pre_env = T.before.get(id(lp), ({}, set()))[0]
    if tv is not None:
        te = end_env.get(tv)
        if not (te is not None and isinstance(te, ast.BinOp) and isinstance(te.op, (ast.FloorDiv, ast.Div)) and access_path(te.left) == tv and text(te.right) == LI):
            problems.append("the tile count is not divided by levels[i] once per factor (%s)" % (text(te) if te is not None else "unchanged"))
        t0 = pre_env.get(tv)
        if not (isinstance(t0, ast.Call) and (access_path(t0.func) or "").endswith("prod") and t0.args and access_path(t0.args[0]) == lv):
            problems.append("the tile count does not start at prod(levels)")
    if rv is not None:
        re_ = end_env.get(rv)
        if not (re_ is not None and isinstance(re_, ast.BinOp) and isinstance(re_.op, ast.Mult) and {text(re_.left), text(re_.right)} == {rv, LI}):
            problems.append("the repeat count is not multiplied by levels[i] once per factor (%s)" % (text(re_) if re_ is not None else "unchanged"))
        r0 = pre_env.get(rv)
        if not (r0 is not None and is_const(r0) and const_value(r0) == 1):
            problems.append("the repeat count does not start at 1")
    if problems:
        ctx.violated("R1", C, where(doe, lp), "; ".join(problems), key="mixed-radix")
    else:
        ctx.holds("R1", C, where(doe, lp), "mixed-radix enumeration: column i = (levels 0..L-1, each repeated R times) tiled T//L times; per factor T //= L, R *= L; T0 = prod(levels), R0 = 1", key="mixed-radix")
    # construct_df index pairing: the returned table as a canonical term
    cd = doe.functions.get("construct_df")
    x, fl = func_params(cd)[:2]
    rts = [t for _, t in Terms(cd).returns if t is not None]
    state, bad = None, ""
    if len(rts) == 1:
        ct = alpha(fuse(rts[0]))
        if isinstance(ct, ast.ListComp) and isinstance(ct.elt, ast.ListComp) and len(ct.generators) == 1 and len(ct.elt.generators) == 1:
            row, inner = ct.generators[0], ct.elt.generators[0]
            e = ct.elt.elt
            rowv = access_path(row.target)
            iv = access_path(inner.target)
            if access_path(row.iter) == x and isinstance(e, ast.Subscript) and isinstance(e.value, ast.Subscript) and access_path(e.value.value) == fl:
                fidx = text(e.value.slice)
                codes = [n_ for n_ in ast.walk(e.slice) if isinstance(n_, ast.Subscript) and access_path(n_.value) == rowv]
                full = range_bounds(inner.iter) and text(range_bounds(inner.iter)[1]) == "len(%s)" % rowv and range_bounds(inner.iter)[0] is None and not inner.ifs and not row.ifs
                if len(codes) == 1 and fidx == iv:
                    if text(codes[0].slice) == iv and full:
                        state = True
                    elif text(codes[0].slice) != iv:
                        state, bad = False, "the code of column %s is looked up in the level list of factor %s" % (text(codes[0].slice), iv)
    ctx.check3(state, "R1", "doe.construct_df", where(doe, cd), "value = factor_lists[k][code of column k] for every column k of every row", bad,
               "table construction not recognised", key="index-pairing")
    bf = doe.functions.get("build_full_fact")
    d = func_params(bf)[0]
    from ..astutil import loose_isclose
    li = loose_isclose(bf)
    if li:
        c_, relv, absv = li[0]
        ctx.violated("R1", "doe.build_full_fact", where(doe, c_), "levels of a factor are merged when they are close (%s, relative %g, absolute %g): two levels the user gave as different - small "
                     "magnitudes, or large values with a fine step - count as one, so the design no longer contains every combination of the given levels" % (text(c_)[:70], relv, absv), key="wiring")
        return
    rts = [canonical(t) for _, t in Terms(bf).returns if t is not None]
    want = "construct_df(fullfact([len({d}[_0]) for _0 in {d}]), [{d}[_1] for _1 in {d}])".format(d=d)
    ctx.check3(True if rts == [want] else None, "R1", "doe.build_full_fact", where(doe, bf), "level counts and level lists are collected in the same key order and passed to fullfact / construct_df",
               unknown_detail="builder value %s not recognised" % (rts[0][:120] if rts else "?"), key="wiring")


def r2_pb(ctx, repo):
    doe = repo.module("doe")
    fn = doe.functions.get("pbdesign")
    if fn is None:
        raise AnalysisError("pbdesign not found")
    C = "doe.pbdesign"
    n = func_params(fn)[0]
    # seeds
    n_tables = 0
    for c in calls_in(fn):
        nm = (access_path(c.func) or "").split(".")[-1]
        if nm in ("toeplitz", "hankel") and len(c.args) == 2:
            cv, rv = literal_vec(c.args[0]), literal_vec(c.args[1])
            if cv is None or rv is None:
                ctx.inconclusive("R2", C, where(doe, c), "%s seed vectors are not literal" % nm, key="seed-" + nm)
                continue
            core = toeplitz(cv, rv) if nm == "toeplitz" else hankel(cv, rv)
            H = border(core)
            n_tables += 1
            if is_hadamard(H):
                ctx.holds("R2", C, where(doe, c), "the bordered %s matrix of order %d defined by the literal seed vectors is Hadamard (rows mutually orthogonal, entries +-1)" % (nm, len(H)), key="seed-" + nm)
            else:
                ctx.violated("R2", C, where(doe, c), "the bordered %s matrix of order %d defined by the literal seed vectors is NOT Hadamard: columns of the %d-run design are not balanced / orthogonal" % (nm, len(H), len(H)), key="seed-" + nm)
    if n_tables < 2:
        ctx.inconclusive("R2", C, where(doe, fn), "expected the 12- and 20-run seed constructions, found %d" % n_tables, key="seeds")
    # Sylvester doubling
    dbl = [s for s in stmts_of(fn) if isinstance(s, ast.For)]
    TP = Terms(fn)
    okd = False
    detail = "doubling loop not found"
    for lp in dbl:
        for s in lp.body:
            if isinstance(s, ast.Assign) and isinstance(s.value, ast.Call) and (access_path(s.value.func) or "").endswith("vstack"):
                t = text(TP.expand(s.value, at=s)).replace(" ", "").replace("np.", "")
                hv = access_path(s.targets[0])
                shapes = ("vstack((hstack(({h},{h})),hstack(({h},-{h}))))".format(h=hv), "vstack([hstack([{h},{h}]),hstack([{h},-{h}])])".format(h=hv))
                okd = t in shapes
                detail = "doubling step %s is not the Sylvester construction [[H, H], [H, -H]]" % text(s.value)
    ctx.check(okd, "R2", C, where(doe, fn), "doubling H -> [[H, H], [H, -H]] (Sylvester; preserves the Hadamard property)" if okd else detail, key="doubling")
    # keep / run count / column slice
    assigns = [s for s in fn.body if isinstance(s, ast.Assign) and isinstance(s.targets[0], ast.Name)]
    names = [access_path(s.targets[0]) for s in assigns]
    keep_s = [s for s in assigns if text(s.value) in ("int(%s)" % n, n)]
    run_s = [s for s in assigns if access_path(s.targets[0]) == n]
    problems = []
    if not keep_s or not run_s or fn.body.index(keep_s[0]) > fn.body.index(run_s[0]):
        problems.append("the factor count is not saved before the run count overwrites it")
    if run_s:
        e = run_s[0].value
        # normalise floor forms
        import copy

        class F(ast.NodeTransformer):
            def visit_Call(self, c):
                self.generic_visit(c)
                nm = access_path(c.func) or ""
                if nm in ("int", "math.floor", "np.floor") and len(c.args) == 1 and isinstance(c.args[0], ast.BinOp) and isinstance(c.args[0].op, ast.Div) \
                        and access_path(c.args[0].left) == n and is_const(c.args[0].right) and const_value(c.args[0].right) == 4:
                    return ast.Name(id="FLOOR4", ctx=ast.Load())
                if nm in ("int",) and len(c.args) == 1:
                    return c.args[0]
                return c

            def visit_BinOp(self, b):
                self.generic_visit(b)
                if isinstance(b.op, ast.FloorDiv) and access_path(b.left) == n and is_const(b.right) and const_value(b.right) == 4:
                    return ast.Name(id="FLOOR4", ctx=ast.Load())
                if isinstance(b.op, ast.Mod) and access_path(b.left) == n and is_const(b.right) and const_value(b.right) == 4:
                    return ast.BinOp(left=ast.Name(id=n, ctx=ast.Load()), op=ast.Sub(), right=ast.BinOp(left=ast.Constant(value=4), op=ast.Mult(), right=ast.Name(id="FLOOR4", ctx=ast.Load())))
                return b
        e2 = F().visit(copy.deepcopy(e))
        eq = poly.equal(e2, poly.parse("4 * (FLOOR4 + 1)"))
        if eq is False or (eq is None) or any(isinstance(x, ast.Call) and (access_path(x.func) or "").split(".")[-1] in ("ceil",) for x in ast.walk(e2)):
            if any(isinstance(x, ast.Call) and (access_path(x.func) or "").split(".")[-1] == "ceil" for x in ast.walk(e)):
                problems.append("the run count %s rounds n/4 UP: for a factor count that is a multiple of four it equals the factor count, but the design needs the next multiple of four strictly above it (the first Hadamard column is dropped)" % text(e))
            elif eq is False:
                problems.append("the run count %s is not 4*(floor(n/4)+1), the next multiple of four above the factor count" % text(e))
            else:
                ctx.inconclusive("R2", C, where(doe, run_s[0]), "run count %s not normalisable" % text(e), key="run-count")
    sl = [n_ for st_ in stmts_of(fn) if isinstance(st_, (ast.Assign, ast.Return)) and st_.value is not None for n_ in ast.walk(st_.value)
          if isinstance(n_, ast.Subscript) and isinstance(n_.slice, ast.Tuple) and len(n_.slice.elts) == 2 and isinstance(n_.slice.elts[1], ast.Slice)
          and text(n_.slice.elts[0]) == ":"]
    ok_slice = False
    for nd in sl:
        el = nd.slice.elts
        if keep_s:
            kv = access_path(keep_s[0].targets[0])
            lo, hi = el[1].lower, el[1].upper
            if lo is not None and is_const(lo) and const_value(lo) == 1 and hi is not None and poly.equal(hi, poly.parse("%s + 1" % kv)):
                ok_slice = True
            else:
                problems.append("the column slice %s does not drop exactly the all-ones first column and keep `%s` columns" % (text(nd), kv))
    if problems:
        ctx.violated("R2", C, where(doe, fn), "; ".join(problems), key="size")
    elif ok_slice:
        ctx.holds("R2", C, where(doe, fn), "run count 4*(floor(n/4)+1); first (all-ones) column dropped, `keep` = factor count columns kept", key="size")
    else:
        ctx.inconclusive("R2", C, where(doe, fn), "column reduction not found", key="size")
    # codes -> two bounds
    bp = doe.functions.get("build_plackett_burman")
    ic = [f for f in ast.walk(bp) if isinstance(f, ast.FunctionDef) and f.name == "index_change"]
    state = None
    bad_detail = ""
    d_ = func_params(bp)[0]
    rts = [canonical(t) for _, t in Terms(bp).returns if t is not None]
    # the recoding function may be local to the builder or a function of the module; what matters is its code table
    m_ = re.match(r"construct_df\(np\.vectorize\((\w+)\)\(pbdesign\(len\(%s\)\)\), \[%s\[_0\] for _0 in %s\]\)$" % ((re.escape(d_),) * 3), rts[0]) if len(rts) == 1 else None
    wired = m_ is not None
    if wired:
        ic = [f for f in ast.walk(bp) if isinstance(f, ast.FunctionDef) and f.name == m_.group(1)] or \
             ([doe.functions[m_.group(1)]] if m_.group(1) in doe.functions else [])
    else:
        # the recoding written in place: np.vectorize(lambda c: <expr>)
        ml_ = re.match(r"construct_df\(np\.vectorize\((lambda \w+: .+)\)\(pbdesign\(len\(%s\)\)\), \[%s\[_0\] for _0 in %s\]\)$" % ((re.escape(d_),) * 3), rts[0]) if len(rts) == 1 else None
        if ml_ is not None:
            try:
                lam = ast.parse(ml_.group(1), mode="eval").body
                f_ = ast.FunctionDef(name="__recode", args=lam.args, body=[ast.Return(value=lam.body)], decorator_list=[], returns=None, type_comment=None)
                ast.copy_location(f_, bp)
                for n_ in ast.walk(f_):
                    if isinstance(n_, (ast.expr, ast.stmt)) and not hasattr(n_, "lineno"):
                        ast.copy_location(n_, bp)
                ast.fix_missing_locations(f_)
                from ..normalize import normalize_function
                ic = [normalize_function(f_)]
                wired = True
            except SyntaxError:
                pass
    if ic and wired:
        table = code_table(ic[0], (-1, 1))
        if table == {-1: 0, 1: 1}:
            state = True
        elif None not in table.values():
            state, bad_detail = False, "codes -1/+1 are mapped to the level indices %s instead of 0/1: a design value is not the corresponding bound" % table
    ctx.check3(state, "R2", "doe.build_plackett_burman", where(doe, bp), "codes -1/+1 become indices 0/1 into [lo, hi]: only the two bounds occur", bad_detail,
               "code-to-bound mapping not recognised", key="codes")


def r3_bb(ctx, repo):
    doe = repo.module("doe")
    fn = doe.functions.get("bbdesign")
    if fn is None:
        raise AnalysisError("bbdesign not found")
    C = "doe.bbdesign"
    n = func_params(fn)[0]
    loops = [s for s in fn.body if isinstance(s, ast.For)]
    if not loops or not [s for s in loops[0].body if isinstance(s, ast.For)]:
        ctx.inconclusive("R3", C, where(doe, fn), "pair loops not found")
        return
    ol = loops[0]
    il = [s for s in ol.body if isinstance(s, ast.For)][0]
    i, j = ol.target.id, il.target.id
    orb, irb = range_bounds(ol.iter), range_bounds(il.iter)
    problems = []
    if not (orb and (orb[0] is None or text(orb[0]) == "0") and poly.equal(orb[1], poly.parse("%s - 1" % n))):
        problems.append("outer loop %s is not range(n-1)" % text(ol.iter))
    if not (irb and irb[0] is not None and poly.equal(irb[0], poly.parse("%s + 1" % i)) and access_path(irb[1]) == n):
        problems.append("inner loop %s is not range(i+1, n): not every factor pair i<j gets a block" % text(il.iter))
    body = il.body
    T = Terms(fn)
    unknown = []
    blocks = [s_ for s_ in body if isinstance(s_, ast.Assign) and isinstance(s_.targets[0], ast.Subscript) and isinstance(s_.targets[0].slice, ast.Tuple)
              and len(s_.targets[0].slice.elts) == 2 and isinstance(s_.targets[0].slice.elts[0], ast.Slice)]
    if len(blocks) != 2:
        ctx.inconclusive("R3", C, where(doe, il), "two block assignments not recognised")
        return
    end_env = T.after.get(id(body[-1]), ({}, set()))[0] or {}
    pre_env = T.before.get(id(ol), ({}, set()))[0]
    # the block counter: a local that grows by one per pair and starts at 0
    counters = [k for k, v in end_env.items() if poly.equal(v, poly.parse("%s + 1" % k))]
    cnt = counters[0] if len(counters) == 1 else None
    if cnt is None:
        ctx.inconclusive("R3", C, where(doe, il), "block counter not recognised (%s)" % sorted(counters))
        return
    c0 = pre_env.get(cnt)
    if not (c0 is not None and is_const(c0) and isinstance(const_value(c0), int)):
        ctx.inconclusive("R3", C, where(doe, il), "start value of the block counter %s not recognised" % cnt)
        return
    c0 = const_value(c0)        # the k-th pair (k = 0, 1, ..) sees the counter at c0 + k (+1 when it is advanced before the blocks are written)
    matrix = access_path(blocks[0].targets[0].value)
    cols_seen = []
    S = None
    for s_ in blocks:
        tg = T.expand(s_.targets[0], at=s_)
        rows, colx = tg.slice.elts
        lo, hi = rows.lower, rows.upper
        if isinstance(lo, ast.Call) and access_path(lo.func) == "max" and len(lo.args) == 1 and isinstance(lo.args[0], ast.List) and len(lo.args[0].elts) == 2:
            lo = lo.args[0].elts[1]       # max([0, e])
        elif isinstance(lo, ast.Call) and access_path(lo.func) == "max" and len(lo.args) == 2 and is_const(lo.args[0]) and const_value(lo.args[0]) == 0:
            lo = lo.args[1]
        vx = T.expand(s_.value, at=s_)
        # the two-factor design and its number of rows
        src = vx.value if isinstance(vx, ast.Subscript) else None
        if not (isinstance(src, ast.Call) and access_path(src.func) == "ff2n" and src.args and text(src.args[0]) == "2"):
            unknown.append("block source %s is not a column of ff2n(2)" % text(vx)[:80])
            continue
        S = "ff2n(2).shape[0]"
        from .c16 import subst
        if lo is None or hi is None:
            unknown.append("row block %s has an open end" % text(s_.targets[0]))
            continue
        lo2, hi2 = subst(lo, {S: "S"}), subst(hi, {S: "S"})
        e_lo, e_hi = poly.equal(lo2, poly.parse("(%s - %d) * S" % (cnt, c0))), poly.equal(hi2, poly.parse("(%s - %d + 1) * S" % (cnt, c0)))
        if e_lo is None or e_hi is None:
            unknown.append("row block %s not normalisable" % text(s_.targets[0]))
        elif not (e_lo and e_hi):
            problems.append("row block %s is not [(k-1)s, ks) for the k-th pair: blocks of different pairs overlap or leave gaps" % text(s_.targets[0]))
        cols_seen.append((access_path(colx), text(vx.slice)))
    if len(cols_seen) == 2:
        norm = {(c_, t_.replace(" ", "").strip("()")) for c_, t_ in cols_seen}
        if norm != {(i, ":,0"), (j, ":,1")}:
            problems.append("the block columns receive %s, expected columns i and j to take the two columns of the two-factor design" % sorted(cols_seen))
    # the matrix the blocks are written into: repeat_center(n, s*n(n-1)/2) rows of the centre code
    h0 = T.origin(matrix, ol) if matrix else None
    if isinstance(h0, ast.Call) and access_path(h0.func) == "repeat_center" and len(h0.args) == 2 and S is not None:
        e = h0.args[1]
        if isinstance(e, ast.Call) and access_path(e.func) == "int" and len(e.args) == 1:
            e = e.args[0]
        from .c16 import subst
        eqn = poly.equal(subst(e, {S: "S"}), poly.parse("%s * (%s - 1) * S / 2" % (n, n)))
        if eqn is False:
            problems.append("the number of factorial rows %s is not s*n(n-1)/2" % text(h0.args[1]))
        elif eqn is None:
            unknown.append("number of factorial rows %s not normalisable" % text(h0.args[1]))
    elif h0 is not None and not (isinstance(h0, ast.Call) and access_path(h0.func) == "repeat_center"):
        problems.append("the design does not start from the centre code (%s)" % text(h0)[:60])
    else:
        unknown.append("initial design matrix not recognised")
    # centre rows appended
    rts = [text(t) for _, t in T.returns if t is not None]
    if not rts or any("repeat_center(%s, center)" % n not in t for t in rts):
        if rts and all("repeat_center" not in t for t in rts):
            problems.append("the centre runs repeat_center(n, center) are not appended")
        else:
            unknown.append("returned design %s not recognised" % (rts[0][:80] if rts else "?"))
    rc = doe.functions.get("repeat_center")
    rct = [canonical(t) for _, t in Terms(rc).returns if t is not None] if rc is not None else []
    if rct != ["np.zeros((repeat, n))"]:
        unknown.append("repeat_center value %s not recognised" % (rct[:1] or "?"))
    if problems:
        ctx.violated("R3", C, where(doe, il), "; ".join(problems), key="blocks")
    elif unknown:
        ctx.inconclusive("R3", C, where(doe, il), "; ".join(unknown), key="blocks")
    else:
        ctx.holds("R3", C, where(doe, il), "one block of the +-1 two-factor design per factor pair i<j in rows [(k-1)s, ks), other factors at the centre code, centre runs appended", key="blocks")
    # builder: one centre run, codes -> (lo, mid, hi)
    bb = doe.functions.get("build_box_behnken")      # the last definition wins
    d_ = func_params(bb)[0]
    TB = Terms(bb)
    rts = [alpha(fuse(t)) for _, t in TB.returns if t is not None]
    rt = rts[0] if len(rts) == 1 else None
    design = lists = None
    if isinstance(rt, ast.Call) and access_path(rt.func) == "construct_df" and len(rt.args) == 2:
        design, lists = rt.args
    bcalls = [c for c in ast.walk(design) if isinstance(c, ast.Call) and access_path(c.func) == "bbdesign"] if design is not None else []
    cstate, cval = None, None
    if bcalls:
        kw = {k.arg: k.value for k in bcalls[0].keywords}
        cv = kw.get("center", bcalls[0].args[1] if len(bcalls[0].args) > 1 else None)
        if cv is not None and is_const(cv):
            cval = const_value(cv)
            cstate = cval == 1
        elif cv is None:
            cstate, cval = False, "default (table value)"
    ctx.check3(cstate, "R3", "doe.build_box_behnken", where(doe, bb), "exactly one centre run (center=1)",
               "the Box-Behnken builder requests %r centre runs, the property requires exactly one" % (cval,), "centre-run argument not recognised", key="centre")
    mstate = None
    mbad = ""
    lists_ok = lists is not None and text(lists) == "[{d}[_0] for _0 in {d}]".format(d=d_)
    if bcalls and lists_ok and isinstance(design, ast.BinOp) and isinstance(design.op, ast.Add) and design.left is bcalls[0] and is_const(design.right) \
            and text(bcalls[0].args[0]) == "len(%s)" % d_:
        k_ = const_value(design.right)
        if k_ != 1:
            mstate, mbad = False, "codes -1/0/+1 are shifted by %r instead of 1: they no longer index (lo, mid, hi)" % k_
        else:
            # the middle level: for key in D: if len(D[key]) == 2: D[key].append(mean of the two); D[key].sort()
            for lp in [s_ for s_ in bb.body if isinstance(s_, ast.For) and access_path(s_.iter) == d_ and isinstance(s_.target, ast.Name)]:
                key = lp.target.id
                apps = [s_ for s_ in stmts_of(lp) if isinstance(s_, ast.Expr) and is_method(s_.value, "append") and len(s_.value.args) == 1
                        and text(TB.expand(s_.value.func.value, at=s_)) == "%s[%s]" % (d_, key)]
                sorts = [s_ for s_ in stmts_of(lp) if isinstance(s_, ast.Expr) and is_method(s_.value, "sort")]
                if len(apps) == 1 and sorts:
                    recv = text(TB.expand(apps[0].value.func.value, at=apps[0]))
                    srecv = text(TB.expand(sorts[0].value.func.value, at=sorts[0]))
                    mid = TB.expand(apps[0].value.args[0], at=apps[0])
                    if recv == srecv == "%s[%s]" % (d_, key):
                        eq = poly.equal(mid, poly.parse("({d}[{k}][0] + {d}[{k}][1]) / 2".format(d=d_, k=key)))
                        if eq is not None:
                            mstate = bool(eq)
                            mbad = "the middle level %s is not the mean of the two bounds" % text(mid)
    ctx.check3(mstate, "R3", "doe.build_box_behnken", where(doe, bb), "codes -1/0/+1 shifted to indices 0/1/2 of the sorted list [lo, mid, hi]", mbad, "code-to-level mapping not recognised", key="codes")


def _short_round_up(fn):
    """R = (A + c) // B with R * B (or a reshape to (R, B)) used afterwards is meant as "A rounded up to whole rows of B":
    that needs R * B >= A for all sizes; the quotient is evaluated over small integers (exact integer arithmetic on the
    expression) and a pair where the rows fall short is the witness"""
    import itertools as _it
    for st in [x for x in ast.walk(fn) if isinstance(x, ast.Assign) and len(x.targets) == 1 and isinstance(x.targets[0], ast.Name)]:
        v = st.value
        if not (isinstance(v, ast.BinOp) and isinstance(v.op, ast.FloorDiv) and isinstance(v.right, ast.Name) and isinstance(v.left, ast.BinOp)
                and isinstance(v.left.op, (ast.Add, ast.Sub))):
            continue
        R, B = st.targets[0].id, v.right.id
        names = {n.id for n in ast.walk(v.left) if isinstance(n, ast.Name)}
        if not all(isinstance(n, (ast.BinOp, ast.Name, ast.Constant, ast.Add, ast.Sub, ast.Mult, ast.Load)) for n in ast.walk(v.left)) or not (1 <= len(names - {B}) <= 1):
            continue
        A = next(iter(names - {B}))
        used = any(isinstance(m, ast.BinOp) and isinstance(m.op, ast.Mult) and {access_path(m.left), access_path(m.right)} == {R, B} for m in ast.walk(fn)) or \
            any(isinstance(c, ast.Call) and isinstance(c.func, ast.Attribute) and c.func.attr == "reshape" and [access_path(a) for a in c.args] == [R, B] for c in ast.walk(fn))
        if not used:
            continue
        code = compile(ast.Expression(body=v.left), "<quotient>", "eval")
        for a_, b_ in _it.product(range(2, 25), range(2, 9)):
            rows = eval(code, {"__builtins__": {}}, {A: a_, B: b_}) // b_      # integers only: names, literals, + - *
            if rows * b_ < a_:
                return ("`%s = %s` is used as the number of rows of %s that hold %s entries, but (%s) // %s rounds up only for %s = 2: with %s = %d and %s = %d it gives %d row(s), "
                        "%d places for %d entries - the top level(s) of the largest factor belong to no partition, so the complementary designs no longer cover the full factorial"
                        % (R, text(v), B, A, text(v.left), B, B, A, a_, B, b_, rows, rows * b_, a_))
    return None


def r4_gsd_partial(ctx, repo):
    """generalized subset design: only the two structural ingredients that are visible in the code are decided"""
    doe = repo.module("doe")
    mp = doe.functions.get("_make_partitions")
    if mp is None:
        raise AnalysisError("_make_partitions not found")
    C = "doe._make_partitions"
    fl, P = func_params(mp)[:2]
    rts = [alpha(fuse(t)) for _, t in Terms(mp).returns if t is not None]
    state, detail = None, "returned partition structure not recognised"
    if len(rts) == 1 and isinstance(rts[0], ast.ListComp) and isinstance(rts[0].elt, ast.ListComp) and isinstance(rts[0].elt.elt, ast.ListComp):
        c1, c2, c3 = rts[0], rts[0].elt, rts[0].elt.elt
        if all(len(c.generators) == 1 and isinstance(c.generators[0].target, ast.Name) for c in (c1, c2, c3)) and not c1.generators[0].ifs and not c2.generators[0].ifs:
            pi, nl, li = (c.generators[0].target.id for c in (c1, c2, c3))
            rp, rl = range_bounds(c1.generators[0].iter), range_bounds(c3.generators[0].iter)
            if rp and rl and access_path(c2.generators[0].iter) == fl:
                okp = rp[0] is not None and text(rp[0]) == "1" and bool(poly.equal(rp[1], poly.parse("%s + 1" % P))) and rp[2] is None
                # the members of one class, independent of how the inner counter is parametrised: an affine index that starts at
                # the partition number, advances by the reduction, for (number of levels - 1) candidates
                try:
                    a_ = rl[0] if rl[0] is not None else poly.parse("0")
                    first = poly.norm(c3.elt, {li: a_})
                    slope = poly.norm(c3.elt, {li: poly.parse("1")}) - poly.norm(c3.elt, {li: poly.parse("0")})
                    second = poly.norm(c3.elt, {li: poly.parse("2")}) - poly.norm(c3.elt, {li: poly.parse("1")})
                    count = poly.norm(rl[1]) - poly.norm(a_)
                    okl = rl[2] is None and count == poly.norm(poly.parse("%s - 1" % nl))
                    oki = first == poly.norm(poly.parse(pi)) and slope == poly.norm(poly.parse(P)) and second == slope
                except poly.NotPolynomial:
                    okl, oki = None, None
                ifs = c3.generators[0].ifs
                okg = None
                if len(ifs) == 1 and isinstance(ifs[0], ast.UnaryOp) and isinstance(ifs[0].op, ast.Not) and isinstance(ifs[0].operand, ast.Compare) \
                        and len(ifs[0].operand.ops) == 1 and type(ifs[0].operand.ops[0]) in (ast.Gt, ast.GtE, ast.Lt, ast.LtE):
                    # level indices are integers: not (a > b) is a <= b
                    c_ = ifs[0].operand
                    inv = {ast.Gt: ast.LtE, ast.GtE: ast.Lt, ast.Lt: ast.GtE, ast.LtE: ast.Gt}[type(c_.ops[0])]
                    ifs = [ast.Compare(left=c_.left, ops=[inv()], comparators=c_.comparators)]
                if len(ifs) == 1 and isinstance(ifs[0], ast.Compare) and len(ifs[0].ops) == 1:
                    t = ifs[0]
                    if not poly.equal(t.left, c3.elt) and poly.equal(t.comparators[0], c3.elt) and type(t.ops[0]) in (ast.Gt, ast.GtE, ast.Lt, ast.LtE):
                        mir = {ast.Gt: ast.Lt, ast.GtE: ast.LtE, ast.Lt: ast.Gt, ast.LtE: ast.GtE}[type(t.ops[0])]
                        t = ast.Compare(left=t.comparators[0], ops=[mir()], comparators=[t.left])
                    same = poly.equal(t.left, c3.elt)
                    if same and access_path(t.comparators[0]) == nl:
                        okg = isinstance(t.ops[0], ast.LtE)
                elif not ifs:
                    okg = False
                if oki is not None and okg is not None and okl is not None:
                    state = bool(okp and okl and oki and okg)
                    detail = "level index = partition + (k-1)*reduction <= number of levels: residue classes mod `reduction`, disjoint and covering 1..L (for L >= 2)" if state else \
                        "the partition of a factor's levels is not the residue-class partition index = p + (k-1)*reduction <= L (p-range ok=%s, k-range ok=%s, index ok=%s, guard ok=%s)" % (bool(okp), bool(okl), bool(oki), bool(okg))
    if state is None:
        ru = _short_round_up(mp)
        if ru:
            state, detail = False, ru
    ctx.check3(state, "R4", C, where(doe, mp), detail, detail, detail, key="partitions")
    ls = doe.functions.get("_make_latin_square")
    lrt = [alpha(fuse(t)) for _, t in Terms(ls).returns if t is not None] if ls else []
    lstate, shift = None, "?"
    if len(lrt) == 1:
        t = lrt[0]
        if isinstance(t, ast.Call) and (access_path(t.func) or "").endswith("vstack") and len(t.args) == 1 and isinstance(t.args[0], ast.ListComp) \
                and len(t.args[0].generators) == 1 and not t.args[0].generators[0].ifs:
            g = t.args[0].generators[0]
            e = t.args[0].elt
            nparam = func_params(ls)[0]
            if isinstance(e, ast.Call) and (access_path(e.func) or "").endswith("roll") and len(e.args) == 2 and not e.keywords \
                    and text(e.args[0]) in ("np.arange(%s)" % nparam, "numpy.arange(%s)" % nparam) and text(g.iter) == "range(%s)" % nparam and isinstance(g.target, ast.Name):
                shift = text(e.args[1])
                lstate = shift in ("-" + g.target.id, g.target.id)
    ctx.check3(lstate, "R4", "doe._make_latin_square", where(doe, ls or mp), "cyclic latin square: row i is the base row rolled by i",
               "row i is rolled by %s, not by i: the rows are not the n cyclic shifts, so symbols repeat within a column" % shift, "latin-square construction not recognised", key="latin-square")
    mpd = doe.functions.get("_map_partitions_to_design")
    mrt = [canonical(t) for _, t in Terms(mpd).returns if t is not None] if mpd else []
    pa, oa_ = func_params(mpd)[:2] if mpd else ("partitions", "ortogonal_array")
    wantm = "np.vstack([list(itertools.product(*[{p}[_0[_1]][_1] for _1 in range(len(_0))])) for _0 in {o} if not any((not {p}[_3][_2] for _2, _3 in enumerate(_0)))])".format(p=pa, o=oa_)
    mstate, mbad_ = (True if mrt == [wantm] else None), ""
    if mstate is None and mpd is not None:
        # a recognised contradiction: the row filter asks whether a partition is empty for ANY factor (all()/any() over a whole
        # element of the partition table) instead of for the factor the row pairs it with
        TM = Terms(mpd)
        for st_ in stmts_of(mpd):
            for n_ in ast.walk(st_):
                if isinstance(n_, ast.Call) and access_path(n_.func) in ("all", "any") and len(n_.args) == 1:
                    a_ = n_.args[0]
                    ax = TM.expand(a_, at=st_, elems=True) if not isinstance(st_, (ast.For, ast.While)) else a_
                    # an element of the partition table as a whole: partitions[p] / the loop variable of enumerate(partitions)
                    whole = isinstance(ax, ast.Subscript) and access_path(ax.value) == pa and not isinstance(ax.slice, ast.Slice)
                    if isinstance(a_, ast.Name):
                        for cg in [g_ for c_ in ast.walk(mpd) if isinstance(c_, (ast.SetComp, ast.ListComp, ast.GeneratorExp, ast.DictComp)) for g_ in c_.generators]:
                            names_ = [t_.id for t_ in ast.walk(cg.target) if isinstance(t_, ast.Name)]
                            if a_.id in names_ and pa in text(cg.iter):
                                whole = True
                    if whole:
                        mstate, mbad_ = False, ("rows are filtered by %s, i.e. by whether a partition has an empty level list for ANY factor, not for the factor the row pairs it with: "
                                                "rows whose own (partition, factor) pairs are all non-empty are dropped, so the complementary designs no longer cover the full factorial" % text(n_))
    ctx.check3(mstate, "R4", "doe._map_partitions_to_design", where(doe, mpd or mp), "each orthogonal-array row contributes the full product of its factors' partition sets",
               mbad_, "row-to-design mapping not recognised", key="row-products")
    # orthogonal-array augmentation: matrix i is combined with the matrices selected by row i of the latin square
    oa = doe.functions.get("_make_orthogonal_arrays")
    if oa is not None:
        sel = [n_ for n_ in ast.walk(oa) if isinstance(n_, ast.Subscript) and "latin_square[" in text(n_.slice) and "A_matrices" in text(n_.value)]
        rolls = [c for c in calls_in(oa) if (access_path(c.func) or "").endswith("roll")]
        if sel:
            ctx.holds("R4", "doe._make_orthogonal_arrays", where(doe, sel[0]), "the matrices combined with constant c are selected as whole matrices by the latin-square row: %s" % text(sel[0]), key="oa-selection")
        elif rolls:
            c = rolls[0]
            has_axis = any(k.arg == "axis" for k in c.keywords) or len(c.args) >= 3
            stacked = c.args and any(isinstance(s_, ast.Assign) and access_path(s_.targets[0]) == access_path(c.args[0]) and "np.array(A_matrices)" in text(s_.value) for s_ in stmts_of(oa))
            if not has_axis and (stacked or "A_matrices" in text(c.args[0])):
                ctx.violated("R4", "doe._make_orthogonal_arrays", where(doe, c),
                             "%s rolls a stack of matrices without axis=0: numpy flattens the stack, so matrix *entries* are shifted instead of whole matrices; "
                             "from the second augmentation step on the complementary designs overlap and no longer cover the full factorial" % text(c), key="oa-selection")
            else:
                ctx.assume("orthogonal-array selection uses np.roll with an axis: not decided")
        else:
            ctx.assume("orthogonal-array selection has an unrecognised shape: not decided (this clause is outside the claim)")
    g = repo.cls("GSDGenerator", "operators")
    fn = g.methods.get("generate")
    selfn = func_params(fn)[0]
    grt = [alpha(fuse(t)) for _, t in Terms(fn).returns if t is not None]
    gstate, gbad = None, ""
    if len(grt) == 1 and isinstance(grt[0], ast.ListComp) and isinstance(grt[0].elt, ast.ListComp) and len(grt[0].generators) == 1 and len(grt[0].elt.generators) == 1:
        outer, inner = grt[0].generators[0], grt[0].elt.generators[0]
        e = grt[0].elt.elt
        rowv, iv = access_path(outer.target), access_path(inner.target)
        src_ok = text(outer.iter) == "build_gsd([len(_2) for _2 in {s}.values], {s}.reduction, {s}.n)".format(s=selfn) and not outer.ifs and not inner.ifs \
            and text(inner.iter) == "range(len(%s))" % rowv
        if isinstance(e, ast.Subscript) and isinstance(e.value, ast.Subscript) and access_path(e.value.value) == selfn + ".values":
            outer_i = text(e.value.slice)
            if text(e.slice) == "%s[%s]" % (rowv, outer_i) and outer_i == iv:
                gstate = True if src_ok else None
            else:
                gstate, gbad = False, "level looked up with %s: the code of factor %s must index that factor's own level list (self.values[%s][row[%s]])" % (text(e), outer_i, outer_i, outer_i)
    ctx.check3(gstate, "R4", "GSDGenerator.generate", where(g.module, fn), "codes index the supplied level lists factor by factor", gbad, "code-to-level mapping not recognised", key="codes")


def run(ctx):
    for rid, doc in (("R4", "generalized subset design (partial): residue-class partitions, cyclic latin square, row products, code mapping"), ("R1", "full factorial = mixed-radix enumeration"), ("R2", "Plackett-Burman: Hadamard seeds, Sylvester doubling, size and column slice, codes"),
                     ("R3", "Box-Behnken: pair blocks, centre, codes")):
        ctx.rule(rid, doc)
    ctx.axiom("Hadamard matrix => balanced, mutually orthogonal columns after dropping the all-ones column; Sylvester doubling preserves Hadamard; mixed-radix enumeration is a bijection onto the product")
    ctx.assume("generalized subset design: only its structural ingredients are decided (R4); that the r complementary designs are pairwise disjoint and together make up the full factorial depends on the orthogonal-array augmentation, which is NOT decided")
    ctx.assume("the frexp-based choice between the 1/12/20-run seeds and the number of doublings is not decided")
    r1_fullfact(ctx, ctx.repo)
    r2_pb(ctx, ctx.repo)
    r3_bb(ctx, ctx.repo)
    r4_gsd_partial(ctx, ctx.repo)
    from .c12 import level_lists_fresh
    for gname, rule in (("PlackettBurmanGenerator", "R2"), ("BoxBehnkenGenerator", "R3")):
        if ctx.repo.has_cls(gname):
            level_lists_fresh(ctx, ctx.repo, rule, gname)
