"""C05 - each design is evaluated exactly once; stored costs belong to its vector.

R1  the EVALUATED-guard precedes every objective-reaching call of Job.evaluate;
    on the guard-true path nothing is evaluated or written.
R2  at most one objective call per attempt; on the success path the call's
    result reaches `costs` unmodified (provenance), then
    calc_signed_costs(problem.signs), then state = EVALUATED - in that order.
R3  calc_signed_costs: element-wise sign * round(cost, stored precision), marker
    appended last from `not feasible`; feasible = all(g < 0) computed from the
    constraints of the *currently stored* vector (after the last re-sample).
R4  Problem.signs table: minimize -> +1, other criteria -> -1, absent -> +1.
R5  evaluate_serial: one Job.evaluate per EMPTY member, none otherwise;
    evaluate_scalar records the design, evaluates once, returns
    costs_signed[0]; the callables handed to scipy.optimize.minimize and
    nlopt.set_min_objective resolve to it.
R6  sweep: one individual per generated vector in order, recorded in order,
    one evaluate of the batch.
"""
import ast

from ..astutil import (text, access_path, calls_in, func_params, stmts_of, is_const, const_value, store_targets, method_call)
from ..jobmodel import JobModel
from ..astutil import enclosing_loops, oriented
from ..loader import where, AnalysisError
from ..paths import Enumerator
from ..terms import Terms, PathEnv, fuse, alpha, canonical, self_effects_of


def r1_r2(ctx, jm):
    C = "Job.evaluate"
    ind = jm.ind
    # ---- R1
    bad = None
    n_guarded = 0
    for p in jm.paths:
        first_obj = p.index(jm.is_obj)
        gi = -1
        gval = None
        for i, e in enumerate(p.events):
            o_ = oriented(e.node, lambda n_: text(n_) == ind + ".state") if e.kind == "guard" else None
            if o_ is not None and text(o_[2]).endswith(".EVALUATED") and o_[1] in (ast.Eq, ast.Is, ast.NotEq, ast.IsNot):
                gi = i
                gval = e.val if o_[1] in (ast.Eq, ast.Is) else not e.val
                break
        if first_obj >= 0:
            if gi < 0 or gi > first_obj:
                bad = bad or (p, "the objective is reached without first testing whether the design is already EVALUATED")
            elif gval:
                bad = bad or (p, "the objective is evaluated although the design is already EVALUATED")
            else:
                n_guarded += 1
        if gval is True:
            writes = [e for e in p.events if e.kind == "stmt" and any((access_path(t) or "").startswith(ind + ".") for t in store_targets(e.node))]
            if writes:
                bad = bad or (p, "an already evaluated design is modified (%s)" % text(writes[0].node).strip())
    if bad:
        ctx.violated("R1", C, jm.where(), bad[1] + " (path [%s])" % bad[0].describe(6), key="evaluated-guard")
    elif n_guarded == 0:
        ctx.inconclusive("R1", C, jm.where(), "no path reaches the objective", key="evaluated-guard")
    else:
        ctx.holds("R1", C, jm.where(), "EVALUATED-guard precedes the objective on all %d evaluating paths; the guard-true path touches nothing" % n_guarded, key="evaluated-guard")

    # ---- R2
    bad = None
    succ = jm.success_paths()
    for p, last in succ:
        # one objective call per attempt
        cnt = 0
        for e in p.events:
            if e.kind == "iter" and e.node is jm.loop:
                cnt = 0
            if jm.is_obj(e):
                cnt += len([c for c in calls_in(e.node) if jm.obj_call(ast.Expr(value=c)) is not None]) or 1
                if cnt > 1:
                    bad = bad or (p, "the objective is called more than once in one attempt")
        # provenance of costs
        ev = p.events[last]
        tagged = set()
        node = ev.node
        costs_i = None
        if isinstance(node, ast.Assign) and isinstance(node.value, ast.Call) and jm.obj_call(ast.Expr(value=node.value)) is node.value:
            for t in node.targets:
                tp = access_path(t)
                if tp == ind + ".costs":
                    costs_i = last
                elif isinstance(t, ast.Name):
                    tagged.add(t.id)
        modified = None
        for i in range(last + 1, len(p.events)):
            e = p.events[i]
            if e.kind != "stmt":
                continue
            s = e.node
            if isinstance(s, ast.Assign):
                if any(access_path(t) == ind + ".costs" for t in s.targets):
                    if isinstance(s.value, ast.Name) and s.value.id in tagged:
                        costs_i = i
                    else:
                        modified = (i, s)
                        costs_i = i
                elif len(s.targets) == 1 and isinstance(s.targets[0], ast.Name):
                    if isinstance(s.value, ast.Name) and s.value.id in tagged:
                        tagged.add(s.targets[0].id)
                    else:
                        tagged.discard(s.targets[0].id)
            elif isinstance(s, ast.AugAssign) and isinstance(s.target, ast.Name):
                tagged.discard(s.target.id)
            else:
                # in-place mutation of the costs list / tagged value
                for c in calls_in(s):
                    mc = method_call(c)
                    if mc and (access_path(mc[0]) == ind + ".costs" or (isinstance(mc[0], ast.Name) and mc[0].id in tagged)) \
                            and mc[1] in ("append", "extend", "insert", "pop", "remove", "clear", "sort", "reverse"):
                        modified = (i, s)
        if costs_i is None:
            bad = bad or (p, "the objective's result is never stored as the design's costs")
        elif modified is not None:
            bad = bad or (p, "the stored costs are not the unmodified result of the objective call (%s)" % text(modified[1]).strip())
        calc = [i for i, e in enumerate(p.events) if i > last and jm.is_calc(e)]
        evald = [i for i, e in enumerate(p.events) if i > last and jm.state_written(e) == "EVALUATED"]
        if not calc:
            bad = bad or (p, "the signed costs are not computed on the success path")
        else:
            c = [c_ for c_ in calls_in(p.events[calc[0]].node) if (access_path(c_.func) or "") == ind + ".calc_signed_costs"][0]
            if not (c.args and (access_path(c.args[0]) or "").endswith(".problem.signs")):
                bad = bad or (p, "calc_signed_costs is not given the problem's sign table (%s)" % text(c))
            if costs_i is not None and calc[-1] < costs_i:
                bad = bad or (p, "signed costs are computed before the costs of this evaluation are stored")
        if not evald:
            bad = bad or (p, "the design is not marked EVALUATED on the success path")
        elif calc and evald[0] < calc[-1]:
            bad = bad or (p, "the design is marked EVALUATED before its signed costs are computed")
    if bad:
        ctx.violated("R2", C, jm.where(), bad[1] + " (path [%s])" % bad[0].describe(6), key="success-order")
    elif not succ:
        ctx.inconclusive("R2", C, jm.where(), "no success path found", key="success-order")
    else:
        ctx.holds("R2", C, jm.where(), "on all %d success paths: one objective call per attempt, costs = its result unmodified, then calc_signed_costs(problem.signs), then EVALUATED" % len(succ), key="success-order")

    # ---- R3 freshness of the feasibility marker (constraints of the stored vector)
    bad = None
    con_var = None
    for p, last in succ:
        t_vec = max([i for i, e in enumerate(p.events[:last]) if jm.is_vector_write(e)] or [-1])
        t_con = -1
        con_arg_ok = True
        t_feas = -1
        feas_node = None
        for i, e in enumerate(p.events[:last]):
            if e.kind == "stmt" and isinstance(e.node, ast.Assign) and isinstance(e.node.value, ast.Call) \
                    and (access_path(e.node.value.func) or "").endswith("evaluate_inequality_constraints"):
                t_con = i
                con_var = access_path(e.node.targets[0])
                a = e.node.value.args
                con_arg_ok = bool(a) and access_path(a[0]) == jm.ind + ".vector"
            if e.kind == "stmt" and isinstance(e.node, ast.Assign) and any(text(t) in (jm.ind + ".features['feasible']", jm.ind + '.features["feasible"]') for t in e.node.targets) \
                    and con_var and con_var in {n.id for n in ast.walk(e.node.value) if isinstance(n, ast.Name)}:
                t_feas = i
                feas_node = e.node
        if t_feas >= 0:
            if not con_arg_ok:
                bad = bad or (p, "the constraints are not evaluated on the design's vector", feas_node)
            elif t_con < t_vec:
                bad = bad or (p, "the feasibility marker is derived from constraints evaluated BEFORE the vector was re-sampled: it describes the failed vector, not the stored one", feas_node)
    if bad:
        ctx.violated("R3", C, jm.where(bad[2]), bad[1] + " (path [%s])" % bad[0].describe(6), key="marker-freshness")
    else:
        ctx.holds("R3", C, jm.where(), "whenever the marker is computed it uses constraints of the currently stored vector (evaluated after the last re-sample)", key="marker-freshness")

    # feasibility definition: all(v < eps) with eps = 0
    fn = jm.fn
    TFz = Terms(fn)
    feas = [s for s in stmts_of(fn) if isinstance(s, ast.Assign) and any("['feasible']" in text(t) for t in s.targets) and isinstance(TFz.expand(s.value, at=s), ast.Call)]
    okf = None
    for s in feas:
        v = TFz.expand(s.value, at=s)
        if access_path(v.func) in ("all", "any") and v.args and isinstance(v.args[0], ast.GeneratorExp):
            g = v.args[0]
            cmp_ = g.elt
            consts = {}
            for st in stmts_of(fn):
                if isinstance(st, ast.Assign) and len(st.targets) == 1 and isinstance(st.targets[0], ast.Name) and is_const(st.value):
                    consts[st.targets[0].id] = const_value(st.value)
            lv = g.generators[0].target
            o_ = oriented(cmp_, lambda n_: access_path(n_) == access_path(lv))
            if o_ is not None:
                l, r = o_[0], o_[2]
                rv = const_value(r) if is_const(r) else consts.get(access_path(r) or "")
                is_lt = o_[1] is ast.Lt and rv == 0
                if access_path(v.func) != "all":
                    okf = (s, "feasible is `any(...)`: one satisfied constraint makes the design feasible")
                elif not is_lt:
                    okf = (s, "feasibility test is `%s` (threshold %r), the property requires every g < 0" % (text(cmp_), rv))
                else:
                    okf = okf or True
    if okf is True:
        ctx.holds("R3", C, jm.where(feas[0]), "feasible = all(g < 0) over the inequality constraints", key="feasible-definition")
    elif okf is None:
        ctx.inconclusive("R3", C, jm.where(), "feasibility definition not recognised", key="feasible-definition")
    else:
        ctx.violated("R3", C, jm.where(okf[0]), okf[1], key="feasible-definition")


def r3_calc(ctx, repo):
    cls = repo.cls("Individual", "individual")
    mod = cls.module
    fn = cls.methods.get("calc_signed_costs")
    if fn is None:
        raise AnalysisError("Individual.calc_signed_costs not found")
    C = "Individual.calc_signed_costs"
    selfn, signs = func_params(fn)[:2]
    body = [s for s in fn.body if not (isinstance(s, ast.Expr) and isinstance(s.value, ast.Constant))]
    asg = [s for s in body if isinstance(s, ast.Assign) and any(access_path(t) == selfn + ".costs_signed" for t in s.targets)]
    ok = False
    detail = "assignment of costs_signed not recognised"
    if len(asg) == 1:
        v = Terms(fn).expand(asg[0].value, at=asg[0])
        # list(map(lambda x, y: x * round(y, prec), signs, self.costs))  |  [s * round(c, prec) for s, c in zip(signs, self.costs)]
        lam = seqs = None
        if isinstance(v, ast.Call) and access_path(v.func) == "list" and v.args and isinstance(v.args[0], ast.Call) and access_path(v.args[0].func) == "map":
            m = v.args[0]
            if isinstance(m.args[0], ast.Lambda) and len(m.args) == 3:
                lam = (m.args[0].args.args[0].arg, m.args[0].args.args[1].arg, m.args[0].body)
                seqs = (access_path(m.args[1]), access_path(m.args[2]))
        elif isinstance(v, ast.ListComp) and len(v.generators) == 1 and isinstance(v.generators[0].iter, ast.Call) \
                and access_path(v.generators[0].iter.func) == "zip" and isinstance(v.generators[0].target, ast.Tuple):
            z = v.generators[0]
            lam = (z.target.elts[0].id, z.target.elts[1].id, v.elt)
            seqs = (access_path(z.iter.args[0]), access_path(z.iter.args[1]))
        if lam and seqs:
            x, y, body_e = lam
            if set(seqs) != {signs, selfn + ".costs"}:
                detail = "signed costs are built from %s, expected the sign table and self.costs" % (seqs,)
            else:
                sx, cy = (x, y) if seqs[0] == signs else (y, x)
                if isinstance(body_e, ast.BinOp) and isinstance(body_e.op, ast.Mult):
                    parts = [body_e.left, body_e.right]
                    sign_part = [q for q in parts if access_path(q) == sx]
                    other = [q for q in parts if access_path(q) != sx]
                    if sign_part and other and isinstance(other[0], ast.Call) and (access_path(other[0].func) or "").split(".")[-1] in ("round", "around") \
                            and other[0].args and access_path(other[0].args[0]) == cy:
                        prec = [k.value for k in other[0].keywords if k.arg in ("decimals", "ndigits")] + list(other[0].args[1:])
                        if prec and text(prec[0]) in (selfn + ".features['precision']", selfn + '.features["precision"]'):
                            ok = True
                        else:
                            detail = "costs are not rounded to the stored precision feature"
                    elif sign_part and other and access_path(other[0]) == cy:
                        detail = "costs are multiplied by the sign but not rounded to the stored precision"
                    else:
                        detail = "element expression %s is not sign * round(cost, precision)" % text(body_e)
                else:
                    detail = "signs are not applied: element expression is %s" % text(body_e)
    if ok:
        ctx.holds("R3", C, where(mod, fn), "costs_signed[i] = sign[i] * round(costs[i], features['precision'])", key="signed-formula")
    elif "not recognised" in detail:
        ctx.inconclusive("R3", C, where(mod, fn), detail, key="signed-formula")
    else:
        ctx.violated("R3", C, where(mod, fn), detail, key="signed-formula")
    # marker appended after the objectives: the last write to costs_signed, its value read through the function's bindings
    TM = Terms(fn)
    feas = (selfn + ".features['feasible']", selfn + '.features["feasible"]')
    writes = [s_ for s_ in body if any(access_path(x) == selfn + ".costs_signed" or (access_path(x) or "").startswith(selfn + ".costs_signed[") for x in store_targets_of(s_))
              or (isinstance(s_, ast.Expr) and isinstance(s_.value, ast.Call) and method_call(s_.value) and access_path(method_call(s_.value)[0]) == selfn + ".costs_signed")]
    last = writes[-1] if writes else None
    state, md = None, "the feasibility marker is not recognised"
    if last is not None and isinstance(last, ast.Expr) and method_call(last.value)[1] == "append" and last.value.args and asg and body.index(asg[0]) < body.index(last):
        a = TM.expand(last.value.args[0], at=last)
        if isinstance(a, ast.UnaryOp) and isinstance(a.op, ast.Not) and text(a.operand) in feas:
            state = True
        elif text(a) in feas or (isinstance(a, ast.Call) and access_path(a.func) in ("int", "bool", "float") and a.args and text(a.args[0]) in feas):
            state, md = False, "marker is %s: designs that satisfy all constraints must get the smaller marker (not feasible -> 0 for feasible)" % text(a)
        elif isinstance(a, ast.Constant):
            state, md = False, "marker is the constant %s: feasible and infeasible designs are not told apart" % text(a)
        else:
            md = "marker %s not recognised" % text(a)
    elif last is not None and isinstance(last, ast.Expr) and method_call(last.value)[1] == "insert" and len(last.value.args) == 2 \
            and "feasible" in text(TM.expand(last.value.args[1], at=last)) and is_const(last.value.args[0]) and const_value(last.value.args[0]) in (0, -1):
        state, md = False, "the marker is inserted at position %s, not appended after the objectives: the comparators read the last component as the marker" % text(last.value.args[0])
    elif asg and not any(isinstance(s_, ast.Expr) and isinstance(s_.value, ast.Call) and method_call(s_.value) and method_call(s_.value)[1] in ("append", "extend", "insert")
                         for s_ in stmts_of(fn)) and len(writes) == 1:
        state, md = False, "no feasibility marker is appended after the objectives"
    elif last is not None and asg and last is asg[0] and len(writes) > 1:
        state, md = False, "the marker is appended before costs_signed is assigned: it is overwritten"
    ctx.check3(state, "R3", C, where(mod, last or fn), "marker = not features['feasible'], appended after the objectives", md, md, key="marker")


def store_targets_of(st):
    if isinstance(st, ast.Assign):
        return list(st.targets)
    if isinstance(st, (ast.AugAssign, ast.AnnAssign)):
        return [st.target]
    return []


def r4_signs(ctx, repo):
    cls = repo.cls("Problem", "problem")
    mod = cls.module
    init = cls.methods.get("__init__")
    C = "Problem.__init__(signs)"
    selfn = func_params(init)[0]
    loops = [s for s in init.body if isinstance(s, ast.For) and access_path(s.iter) == selfn + ".costs"]
    if len(loops) != 1:
        ctx.inconclusive("R4", C, where(mod, init), "loop over self.costs building the sign table not found")
        return
    lp = loops[0]
    cv = lp.target.id
    fake = ast.FunctionDef(name="b", args=init.args, body=lp.body, decorator_list=[], returns=None, type_comment=None, lineno=lp.lineno, col_offset=0)
    # finite case split over the cost entry: no criteria / minimize / maximize / any other text
    CASES = (("absent", {}, 1), ("minimize", {"criteria": "minimize"}, 1), ("maximize", {"criteria": "maximize"}, -1), ("other", {"criteria": "<other>"}, -1))
    from ..astutil import ceval, NotEvaluable
    table = []
    bad = unknown = None
    paths = Enumerator(loop_counts=(0, 1)).function_paths(fake)
    for cname_, cdict, want in CASES:
        got = []
        for p in paths:
            pe = PathEnv(init, p.events)
            feasible = True
            for k_, e in enumerate(p.events):
                if e.kind != "guard":
                    continue
                try:
                    tv = bool(ceval(pe.expand_at(e.node, k_), {cv: cdict}))
                except NotEvaluable as ex:
                    if "raises" in str(ex):
                        feasible = False       # the real program raises here: not a path of this case
                        break
                    unknown = unknown or "guard %s cannot be evaluated for a cost entry with %s criteria" % (text(e.node), cname_)
                    feasible = None
                    break
                if tv != bool(e.val):
                    feasible = False
                    break
            if feasible is not True:
                continue
            vals = []
            for k_, e in enumerate(p.events):
                if e.kind != "stmt":
                    continue
                for c in calls_in(e.node):
                    if method_call(c) and access_path(method_call(c)[0]) == selfn + ".signs" and method_call(c)[1] == "append" and c.args:
                        try:
                            vals.append(ceval(pe.expand_at(c.args[0], k_), {cv: cdict}))
                        except NotEvaluable:
                            vals.append(None)
            got.append(vals)
        table.append({"criteria": cname_, "appended": got})
        if not got:
            unknown = unknown or "no path of the loop body is consistent with a cost entry with %s criteria" % cname_
        for vals in got:
            if None in vals:
                unknown = unknown or "the appended sign is not evaluable for a cost entry with %s criteria" % cname_
            elif vals != [want]:
                bad = bad or "criteria %s -> signs gets %s (expected one entry %+d)" % (cname_, vals, want)
    ctx.extra["signs_table"] = table
    if bad:
        ctx.violated("R4", C, where(mod, lp), bad)
    elif unknown:
        ctx.inconclusive("R4", C, where(mod, lp), unknown)
    else:
        ctx.holds("R4", C, where(mod, lp), "minimize -> +1, other -> -1, absent -> +1; one sign per cost (4 cases of the cost entry)")


def r5_bridges(ctx, repo):
    cls = repo.cls("Evaluator", "operators")
    mod = cls.module
    fn = cls.methods.get("evaluate_serial")
    C = "Evaluator.evaluate_serial"
    if fn is None:
        raise AnalysisError("Evaluator.evaluate_serial not found")
    selfn, batch = func_params(fn)[:2]
    bad = None
    n = 0
    for p in Enumerator(loop_counts=(0, 1, 2)).function_paths(fn):
        n += 1
        cur_empty = None
        calls_this = 0

        def close():
            nonlocal bad
            if cur_empty is True and calls_this != 1:
                bad = bad or (p, "an EMPTY design gets %d Job.evaluate calls" % calls_this)
            if cur_empty is False and calls_this != 0:
                bad = bad or (p, "a non-EMPTY design is evaluated")
            if cur_empty is None and calls_this:
                bad = bad or (p, "a design is evaluated without testing its state")
        in_it = False
        for e in p.events:
            if e.kind == "iter":
                if in_it:
                    close()
                in_it, cur_empty, calls_this = True, None, 0
                if access_path(e.node.iter) != batch:
                    bad = bad or (p, "the loop does not run over the batch")
            elif e.kind == "exit" and in_it:
                close()
                in_it = False
            elif e.kind == "guard" and in_it and oriented(e.node, lambda n_: text(n_).endswith(".state")) is not None \
                    and text(oriented(e.node, lambda n_: text(n_).endswith(".state"))[2]).endswith(".EMPTY") \
                    and oriented(e.node, lambda n_: text(n_).endswith(".state"))[1] in (ast.Eq, ast.NotEq):
                cur_empty = e.val if oriented(e.node, lambda n_: text(n_).endswith(".state"))[1] is ast.Eq else not e.val
            elif e.kind in ("stmt", "return"):
                lv = None
                for c in calls_in(e.node):
                    if (access_path(c.func) or "") == selfn + ".job.evaluate":
                        calls_this += 1
    if bad:
        ctx.violated("R5", C, where(mod, fn), bad[1] + " (path [%s])" % bad[0].describe(6))
    else:
        ctx.holds("R5", C, where(mod, fn), "one Job.evaluate per EMPTY member of the batch, none otherwise (%d paths)" % n)

    fn = cls.methods.get("evaluate_scalar")
    C = "Evaluator.evaluate_scalar"
    if fn is None:
        raise AnalysisError("Evaluator.evaluate_scalar not found")
    selfn, vec = func_params(fn)[:2]
    # path by path: every way the bridge returns a number to the optimiser has built an individual from the queried point,
    # recorded it once, evaluated it once and returns the signed cost of THAT individual
    problems = []
    unknown_memo = None
    npaths = 0
    for p in Enumerator(loop_counts=(0, 1)).function_paths(fn):
        if p.outcome == "raise":
            continue
        npaths += 1
        env = PathEnv(fn, p.events)
        stmts_ = [(i, e.node) for i, e in enumerate(p.events) if e.kind == "stmt"]
        new = [(i, s) for i, s in stmts_ if isinstance(s, ast.Assign) and isinstance(s.value, ast.Call) and (access_path(s.value.func) or "").startswith("Individual")]
        pp = []
        if len(new) != 1:
            pp.append("no single Individual built from the queried point")
        else:
            iv = access_path(new[0][1].targets[0])
            a = new[0][1].value.args
            if not (a and vec in {n_.id for n_ in ast.walk(a[0]) if isinstance(n_, ast.Name)}):
                pp.append("the individual is not built from the queried vector")

            def fpath(c, i):
                # the called path with local aliases (problem = self.algorithm.problem) looked through
                return access_path(env.expand_at(c.func, i)) or ""
            rec = [i for i, s in stmts_ if any(fpath(c, i).endswith(".problem.individuals.append") and c.args and access_path(c.args[0]) == iv for c in calls_in(s))]
            evs = [i for i, s in stmts_ for c in calls_in(s) if fpath(c, i).endswith(".evaluate") and "job" in fpath(c, i)]
            if evs and not any(fpath(c, i) == selfn + ".job.evaluate" and c.args and access_path(c.args[0]) == iv for i, s in stmts_ for c in calls_in(s)):
                pp.append("the evaluated object is not the recorded individual")
            if len(rec) != 1:
                pp.append("the queried point is recorded %d times in problem.individuals" % len(rec))
            if len(evs) != 1:
                pp.append("the queried point is evaluated %d times" % len(evs))
            rv = p.node.value if p.outcome == "return" and isinstance(p.node, ast.Return) else None
            if rv is None:
                pp.append("the optimiser receives nothing")
            else:
                env_, dirty_ = env.final
                got = env.expand(rv, env=env_, dirty=dirty_, skip=(iv,))
                plain = text(rv)
                if text(got) != iv + ".costs_signed[0]" and plain != iv + ".costs_signed[0]":
                    pp.append("the optimiser receives %s instead of the signed cost %s.costs_signed[0] of the point it queried" % (plain, iv))
        if pp and p.outcome == "return" and isinstance(p.node, ast.Return) and p.node.value is not None:
            # an answer taken from a table of earlier answers: exact when the table is keyed by the queried point itself (a
            # repeated query then gets the cost recorded for that very point - whether it has to be recorded a second time
            # the property does not say), wrong when distinct points share a key
            rv_ = p.node.value
            holder = access_path(rv_.value.value) if isinstance(rv_, ast.Subscript) and isinstance(rv_.value, ast.Attribute) and rv_.value.attr == "costs_signed" else None
            look = [(i, s) for i, s in stmts_ if isinstance(s, ast.Assign) and holder and access_path(s.targets[0]) == holder
                    and (isinstance(s.value, ast.Subscript) or (isinstance(s.value, ast.Call) and isinstance(s.value.func, ast.Attribute) and s.value.func.attr == "get" and s.value.args))]
            if look:
                i_, s_ = look[-1]
                key = s_.value.slice if isinstance(s_.value, ast.Subscript) else s_.value.args[0]
                kt = env.expand_at(key, i_)
                names = {(access_path(c.func) or "").split(".")[-1] for c in ast.walk(kt) if isinstance(c, ast.Call)}
                lossy = names & {"round", "around", "round_", "floor", "ceil", "trunc", "int", "rint", "format", "float32", "float16"} \
                    or any(isinstance(n_, (ast.JoinedStr, ast.FloorDiv, ast.Mod)) for n_ in ast.walk(kt))
                if lossy:
                    pp = ["the answer comes from a table of earlier answers keyed by %s: distinct queried points that agree after %s share one entry, so a point is never "
                          "evaluated or recorded and the optimiser receives the cost of another point" % (text(kt)[:120], "/".join(sorted(lossy)) if isinstance(lossy, set) else "formatting")]
                elif names <= {"tuple", "list", "tobytes", "str", "repr"} and vec in {n_.id for n_ in ast.walk(kt) if isinstance(n_, ast.Name)}:
                    unknown_memo = "repeated queries are answered from a table keyed by the exact queried point (%s): not recorded a second time" % text(kt)[:100]
                    pp = []
        if pp and not problems:
            problems = [x + " (path [%s])" % p.describe(5) for x in pp[:2]]
    if npaths == 0:
        ctx.inconclusive("R5", C, where(mod, fn), "no returning path found")
    elif not problems and unknown_memo:
        ctx.inconclusive("R5", C, where(mod, fn), unknown_memo)
    elif problems:
        ctx.violated("R5", C, where(mod, fn), "; ".join(problems))
    else:
        ctx.holds("R5", C, where(mod, fn), "records the point, evaluates it once, returns costs_signed[0]")

    # wiring of the scalar optimisers: the callable handed to the optimiser must return the value of
    # evaluator.evaluate_scalar(<its point>) unchanged (that value is the signed cost, checked above)
    def returns_scalar_bridge(klass, target, depth=0):
        """target: access path text of the callable as seen inside a method of klass -> (ok, detail)"""
        if target is None:
            return False, "no objective callable"
        if target.endswith(".evaluator.evaluate_scalar"):
            return True, "evaluator.evaluate_scalar itself"
        parts = target.split(".")
        if len(parts) == 2 and depth < 3:
            r = repo.find_method(klass, parts[1])
            if r is None:
                return None, "callable %s not resolvable" % target
            f = r[1]
            rets = [s_ for s_ in stmts_of(f) if isinstance(s_, ast.Return)]
            if not rets:
                return False, "%s returns nothing" % target
            defs_ = {}
            for s_ in stmts_of(f):
                if isinstance(s_, ast.Assign) and len(s_.targets) == 1 and isinstance(s_.targets[0], ast.Name):
                    defs_[s_.targets[0].id] = s_.value
            for rt in rets:
                v = rt.value
                if isinstance(v, ast.Name) and v.id in defs_:
                    v = defs_[v.id]
                if isinstance(v, ast.Call) and (access_path(v.func) or "").endswith("evaluate_scalar") and len(v.args) >= 1 \
                        and access_path(v.args[0]) in func_params(f):
                    ok2, d2 = returns_scalar_bridge(r[0], access_path(v.func), depth + 1)
                    if not ok2:
                        return ok2, d2
                    continue
                return False, "%s.%s returns %s, not the signed cost delivered by evaluator.evaluate_scalar" % (r[0].name, parts[1], text(rt.value))
            return True, "%s.%s forwards evaluator.evaluate_scalar unchanged" % (r[0].name, parts[1])
        return None, "callable %s not resolvable" % target

    sc = repo.cls("ScipyOpt", "algorithm_scipy")
    run = sc.methods.get("run")
    tgt = None
    for c in calls_in(run):
        if access_path(c.func) in ("minimize", "scipy.optimize.minimize", "optimize.minimize") and c.args:
            tgt = access_path(c.args[0])
    ok, detail = returns_scalar_bridge(sc, tgt)
    if ok is None:
        ctx.inconclusive("R5", "ScipyOpt.run", where(sc.module, run), detail, key="wiring")
    else:
        ctx.check(ok, "R5", "ScipyOpt.run", where(sc.module, run), ("scipy.optimize.minimize receives the signed cost: " + detail) if ok else
                  ("the objective handed to scipy.optimize.minimize does not deliver the signed cost: " + detail), key="wiring")
    if "algorithm_nlopt" in repo.modules:
        nl = repo.cls("NLopt", "algorithm_nlopt")
        run = nl.methods.get("run")
        tgt = None
        for c in calls_in(run):
            if isinstance(c.func, ast.Attribute) and c.func.attr == "set_min_objective" and c.args:
                tgt = access_path(c.args[0])
        ok, detail = returns_scalar_bridge(nl, tgt)
        if ok is None:
            ctx.inconclusive("R5", "NLopt.run", where(nl.module, run), detail, key="wiring")
        else:
            ctx.check(ok, "R5", "NLopt.run", where(nl.module, run), ("nlopt receives the signed cost: " + detail) if ok else
                      ("the objective handed to nlopt does not deliver the signed cost: " + detail), key="wiring")


def r6_sweep(ctx, repo):
    cls = repo.cls("SweepAlgorithm", "algorithm_sweep")
    mod = cls.module
    fn = cls.methods.get("run")
    C = "SweepAlgorithm.run"
    selfn = func_params(fn)[0]
    T = Terms(fn, self_effects=self_effects_of(repo, cls))
    encl = enclosing_loops(fn)
    all_stmts = stmts_of(fn)
    simple = [s_ for s_ in all_stmts if not isinstance(s_, (ast.For, ast.While, ast.If, ast.Try, ast.With))]

    def sites(pred):
        """(statement, call, number of enclosing loops, under a condition) for every call matching pred"""
        out = []
        for s_ in all_stmts:
            heads = [s_.iter] if isinstance(s_, ast.For) else ([s_.test] if isinstance(s_, (ast.While, ast.If)) else ([s_] if s_ in simple else []))
            for h in heads:
                for c in calls_in(h):
                    if pred(c):
                        out.append((s_, c, len(encl.get(id(s_), []))))
        return out
    gens = sites(lambda c: (access_path(c.func) or "").endswith(".generator.generate"))
    evs = sites(lambda c: (access_path(c.func) or "") in (selfn + ".evaluate", selfn + ".evaluator.evaluate"))
    conditional = [s_ for s_ in all_stmts if isinstance(s_, (ast.If, ast.Try, ast.While))]
    problems, unknown = [], []
    if len(gens) != 1 or len(evs) != 1 or gens[0][2] or evs[0][2]:
        problems.append("generate() is called at %d site(s) and evaluate() at %d site(s) (expected once each, outside any loop)" % (len(gens), len(evs)))
    # vector by vector: every generated vector becomes an individual of the batch on every path through the loop body
    for lp_ in [x for x in all_stmts if isinstance(x, ast.For) and isinstance(x.target, ast.Name)]:
        it_ = T.expand(lp_.iter, at=lp_)
        if not (isinstance(it_, ast.Call) and (access_path(it_.func) or "").endswith(".generator.generate")):
            continue
        v_ = lp_.target.id
        fake_ = ast.FunctionDef(name="body", args=fn.args, body=lp_.body, decorator_list=[], returns=None, type_comment=None, lineno=lp_.lineno, col_offset=0)
        for p_ in Enumerator(loop_counts=(0, 1)).function_paths(fake_):
            if p_.outcome == "raise":
                continue
            env_ = PathEnv(fake_, p_.events)
            n_app = 0
            for i_, e_ in enumerate(p_.events):
                if e_.kind != "stmt":
                    continue
                for c_ in calls_in(e_.node):
                    if isinstance(c_.func, ast.Attribute) and c_.func.attr == "append" and c_.args and not (access_path(c_.func.value) or "").endswith(".problem.individuals"):
                        a_ = env_.expand_at(c_.args[0], i_)
                        if isinstance(a_, ast.Call) and (access_path(a_.func) or "").startswith("Individual") and a_.args and access_path(a_.args[0]) == v_:
                            n_app += 1
            if n_app == 0:
                gtxt = [text(e_.node)[:70] for e_ in p_.events if e_.kind == "guard" and e_.val]
                problems.append("a generated vector does not become a design of the batch on the path [%s]%s: the sweep does not evaluate exactly the generator's designs"
                                % (p_.describe(4), (" (skipped when %s; `in` on individuals is equality of vectors, so a table with a repeated row, or a second sweep of the same table, loses designs)"
                                                    % gtxt[0]) if gtxt else ""))
                break
    if conditional and not problems:
        unknown.append("conditional statements in the sweep (%s)" % type(conditional[0]).__name__)
    built = None
    if not problems:
        est, ecall, _ = evs[0]
        arg = ecall.args[0] if ecall.args else None
        bt = alpha(fuse(T.expand(arg, at=est))) if arg is not None else None
        if isinstance(bt, ast.ListComp) and len(bt.generators) == 1 and not bt.generators[0].ifs and isinstance(bt.elt, ast.Call) \
                and (access_path(bt.elt.func) or "").startswith("Individual") and (access_path(bt.generators[0].iter.func) if isinstance(bt.generators[0].iter, ast.Call) else "" or "").endswith(".generator.generate"):
            if len(bt.elt.args) == 1 and access_path(bt.elt.args[0]) == access_path(bt.generators[0].target):
                built = access_path(arg)
            else:
                problems.append("an individual is not built from its own generated vector (%s)" % text(bt))
        elif isinstance(bt, ast.ListComp) and bt.generators[0].ifs:
            problems.append("not every generated vector becomes an individual (%s)" % text(bt))
        elif bt is not None and (access_path(bt) or "").endswith(".problem.individuals"):
            problems.append("the sweep evaluates %s, the problem's whole list of recorded individuals, not the designs of its generator: designs recorded "
                            "earlier and not yet evaluated are evaluated too, before the generator's" % text(bt))
        else:
            unknown.append("the evaluated batch %s is not recognised as one individual per generated vector" % (text(bt)[:100] if bt is not None else "?"))
    if built is not None:
        # recording: every built individual is appended to problem.individuals exactly once, in order
        recs = []
        for s_ in all_stmts:
            if isinstance(s_, ast.For) and access_path(s_.iter) == built and isinstance(s_.target, ast.Name):
                apps = [b for b in stmts_of(s_) if isinstance(b, ast.Expr) and method_call(b.value) and (access_path(b.value.func) or "").endswith(".problem.individuals.append")]
                direct = [b for b in s_.body if b in apps]
                if apps:
                    recs.append((s_, len(apps), len(direct) == len(apps) and all(len(b.value.args) == 1 and access_path(b.value.args[0]) == s_.target.id for b in apps)))
            elif s_ in simple and isinstance(s_, ast.Expr) and method_call(s_.value) and (access_path(s_.value.func) or "").endswith(".problem.individuals.extend") \
                    and len(s_.value.args) == 1 and access_path(s_.value.args[0]) == built and not encl.get(id(s_)):
                recs.append((s_, 1, True))
        other = [s_ for s_ in simple if any((access_path(c.func) or "").endswith((".problem.individuals.append", ".problem.individuals.extend", ".problem.individuals.insert"))
                                            for c in calls_in(s_)) and not any(s_ is r[0] or s_ in stmts_of(r[0]) for r in recs)]
        n_rec = sum(r[1] for r in recs)
        if other:
            unknown.append("problem.individuals is also written by %s" % text(other[0]).strip()[:80])
        elif n_rec != 1 or not all(r[2] for r in recs):
            problems.append("each built individual is recorded %d time(s) in problem.individuals (expected exactly once, unconditionally)" % n_rec)
    if problems:
        ctx.violated("R6", C, where(mod, fn), "; ".join(problems))
    elif unknown:
        ctx.inconclusive("R6", C, where(mod, fn), "; ".join(unknown))
    else:
        ctx.holds("R6", C, where(mod, fn), "one individual per generated vector, each recorded once in order, one evaluate of the batch")


def r3_marker_default(ctx, repo, rule="R3"):
    """the feasibility flag of a design evaluated without constraints is whatever it was before: the constructor's default,
    or - after a failed attempt - the constant the retry handler wrote.  Both must mean the same (truthiness), otherwise a
    design whose first attempt failed transiently carries another marker than an identical design that succeeded at once,
    and is ranked apart from it by the feasibility cascade of the comparators"""
    ind = repo.cls("Individual", "individual")
    init = ind.methods.get("__init__")
    job = repo.cls("Job", "job").methods.get("evaluate") if repo.has_cls("Job") else None
    if init is None or job is None:
        return
    FE = ("features['feasible']", 'features["feasible"]')

    def flag_consts(fn, in_handler):
        out = []
        for node in ast.walk(fn):
            if in_handler and not isinstance(node, ast.ExceptHandler):
                continue
            scope = node if in_handler else fn
            for s_ in ast.walk(scope):
                if isinstance(s_, ast.Assign) and any(text(t).endswith(FE) for t in s_.targets) and is_const(s_.value):
                    out.append((s_, const_value(s_.value)))
                elif isinstance(s_, ast.Assign) and any(text(t).endswith(".features") for t in s_.targets) and isinstance(s_.value, ast.Dict):
                    for k_, v_ in zip(s_.value.keys, s_.value.values):
                        if isinstance(k_, ast.Constant) and k_.value == "feasible" and is_const(v_):
                            out.append((s_, const_value(v_)))
            if not in_handler:
                break
        return out
    defaults = flag_consts(init, False)
    handler = flag_consts(job, True)
    C = "Individual.__init__ / Job.evaluate"
    if len({bool(v) for _, v in defaults}) != 1 or not handler:
        ctx.inconclusive(rule, C, where(ind.module, init), "default / retry value of the feasibility flag not recognised", key="marker-default")
        return
    d = bool(defaults[0][1])
    odd = [(s_, v) for s_, v in handler if bool(v) != d]
    # unconstrained problems never recompute the flag (guard len(constraints) > 0): the two constants are all it ever holds
    if odd:
        ctx.violated(rule, C, where(repo.cls("Job", "job").module, odd[0][0]),
                     "a new design starts with feasible = %r but the retry handler sets feasible = %r, and without constraints nothing recomputes it: a design whose "
                     "first attempt failed keeps another feasibility marker than designs that succeeded at once and is ranked apart from them whatever its costs"
                     % (defaults[0][1], odd[0][1]), key="marker-default")
    else:
        ctx.holds(rule, C, where(ind.module, defaults[0][0]), "constructor default and retry handler give the feasibility flag the same truth value (%r)" % d, key="marker-default")


def run(ctx):
    for rid, doc in (("R1", "EVALUATED-guard before every objective call"), ("R2", "one call per attempt; costs = result unmodified; calc_signed_costs(signs); then EVALUATED"),
                     ("R3", "signed-cost formula, marker = not feasible appended last, feasible = all(g<0) of the stored vector"),
                     ("R4", "sign table"), ("R5", "serial/scalar bridges and optimiser wiring"), ("R6", "sweep")):
        ctx.rule(rid, doc)
    ctx.assume("the user's objective and constraint functions are pure functions of the vector")
    jm = JobModel(ctx.repo)
    ctx.count("paths_job_evaluate", len(jm.paths))
    r1_r2(ctx, jm)
    r3_calc(ctx, ctx.repo)
    r3_marker_default(ctx, ctx.repo)
    r4_signs(ctx, ctx.repo)
    r5_bridges(ctx, ctx.repo)
    r6_sweep(ctx, ctx.repo)
