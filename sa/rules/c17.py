"""C17 - result queries and quality indicators are faithful views.

R1  population queries: iterate problem.individuals in order, keep exactly the
    members whose tag equals the requested one; the default is the maximum tag.
R2  paired listings append parameter(s) and cost(s) of the *same* loop variable
    in the same loop body, on every path.
R3  sorted listings: the partner list is reordered through
    sort_list(<unsorted key list>, <partner>) before the key list is sorted in
    place, and the key list is sorted afterwards; sort_list returns the second
    components ordered by the first.
R4  find_optimum: minimise/absent criteria -> min, otherwise max, keyed by the
    named cost over all recorded individuals.
R5  gd: nearest-reference distance per computed point (reduction over the
    reference axis of the distance matrix), averaged over the computed set;
    epsilon_add: max over reference of min over computed of max coordinate
    difference (computed - reference), from a zero start.
R6  every numpy attribute used by the anchored modules exists in the
    repository's numpy.
"""
import ast
import os
import subprocess

from ..astutil import (text, access_path, calls_in, func_params, stmts_of, is_const, const_value, method_call,
                       is_method_call, single_defs, canon_text)
from ..loader import where, AnalysisError
from ..paths import Enumerator
from ..terms import Terms, PathEnv, fuse, alpha, canonical


def body_fn(stmts, args, lineno=0):
    return ast.FunctionDef(name="body", args=args, body=stmts, decorator_list=[], returns=None, type_comment=None, lineno=lineno, col_offset=0)


# ------------------------------------------------------------------ R1
def r1_population(ctx, repo):
    cls = repo.cls("Problem", "problem")
    mod = cls.module
    fn = cls.methods.get("population")
    if fn is None:
        raise AnalysisError("Problem.population not found")
    selfn, pid = func_params(fn)[:2]
    C = "Problem.population"
    rts = [alpha(fuse(t)) for _, t in Terms(fn).returns if t is not None]
    state, why = None, "returned value not recognised as a selection from the recorded individuals"
    if len(rts) == 1 and isinstance(rts[0], ast.ListComp) and len(rts[0].generators) == 1:
        lc = rts[0]
        g = lc.generators[0]
        if access_path(g.iter) == selfn + ".individuals" and isinstance(g.target, ast.Name):
            v = g.target.id
            tagged = {v + ".population_id", pid}
            if access_path(lc.elt) != v:
                state, why = None, "the selection returns %s instead of the individuals" % text(lc.elt)
            elif len(g.ifs) == 1 and isinstance(g.ifs[0], ast.Compare) and len(g.ifs[0].ops) == 1 \
                    and {text(g.ifs[0].left), text(g.ifs[0].comparators[0])} == tagged:
                op = g.ifs[0].ops[0]
                if isinstance(op, ast.Eq):
                    state = True
                elif isinstance(op, (ast.Lt, ast.LtE, ast.Gt, ast.GtE)):
                    state, why = False, "the population filter compares tags with an order relation instead of equality: other generations leak into the answer"
                else:
                    state, why = False, "the population filter is `%s`, not tag == requested tag" % text(g.ifs[0])
            elif not g.ifs:
                state, why = False, "population(tag) returns every recorded individual: the tag is not tested"
    ctx.check3(state, "R1", C, where(mod, fn), "members kept iff tag == requested tag, in recording order", why, why)

    # last_population: the maximum tag
    fn2 = cls.methods.get("last_population")
    C2 = "Problem.last_population"
    if fn2 is None:
        raise AnalysisError("Problem.last_population not found")
    s2 = func_params(fn2)[0]
    rets = [s for s in stmts_of(fn2) if isinstance(s, ast.Return)]
    okl = False
    if rets and isinstance(rets[-1].value, ast.Call) and access_path(rets[-1].value.func) == s2 + ".population" and rets[-1].value.args:
        arg = rets[-1].value.args[0]
        loops = [s for s in fn2.body if isinstance(s, ast.For) and access_path(s.iter) == s2 + ".individuals"]
        if isinstance(arg, ast.Name) and len(loops) == 1 and isinstance(loops[0].target, ast.Name):
            lv = loops[0].target.id
            mv = arg.id
            upd = [s for s in stmts_of(loops[0]) if isinstance(s, ast.Assign) and access_path(s.targets[0]) == mv]
            ifs = [s for s in loops[0].body if isinstance(s, ast.If)]
            T2 = Terms(fn2)
            if len(ifs) == 1 and len(upd) == 1 and text(T2.expand(upd[0].value, at=upd[0])) == lv + ".population_id" \
                    and isinstance(T2.expand(ifs[0].test, at=ifs[0]), ast.Compare) and len(ifs[0].test.ops) == 1:
                t = T2.expand(ifs[0].test, at=ifs[0])
                l, r, op = text(t.left), text(t.comparators[0]), type(t.ops[0])
                grows = (l == lv + ".population_id" and r == mv and op in (ast.Gt, ast.GtE)) or \
                        (r == lv + ".population_id" and l == mv and op in (ast.Lt, ast.LtE))
                if grows:
                    okl = True
                elif {l, r} == {lv + ".population_id", mv}:
                    ctx.violated("R1", C2, where(mod, ifs[0]), "the default population is selected with `%s`, which does not compute the maximum tag" % text(t))
                    return
            elif isinstance(upd and upd[0].value, ast.Call) and access_path(upd[0].value.func) == "max":
                okl = True
        elif isinstance(arg, ast.Call) and access_path(arg.func) == "max":
            okl = "population_id" in text(arg) and (s2 + ".individuals") in text(arg)
    if not okl and rets:
        # the tag handed to population() as a value term: max over the tags of all recorded individuals (a start value may be joined)
        rt_ = [t for _, t in Terms(fn2).returns if t is not None]
        if len(rt_) == 1 and isinstance(rt_[0], ast.Call) and access_path(rt_[0].func) == s2 + ".population" and rt_[0].args:
            a_ = fuse(rt_[0].args[0])
            if isinstance(a_, ast.Call) and access_path(a_.func) == "max" and a_.args:
                comps = [n_ for n_ in ast.walk(a_) if isinstance(n_, (ast.ListComp, ast.GeneratorExp)) and len(n_.generators) == 1
                         and access_path(n_.generators[0].iter) == s2 + ".individuals" and not n_.generators[0].ifs
                         and text(n_.elt) == "%s.population_id" % text(n_.generators[0].target)]
                key_ = [k.value for k in a_.keywords if k.arg == "key"]
                if len(comps) == 1 and not key_:
                    okl = True
    if okl:
        ctx.holds("R1", C2, where(mod, fn2), "default query = population(maximum tag over the recorded individuals)")
    else:
        ctx.inconclusive("R1", C2, where(mod, fn2), "maximum-tag selection not recognised")

    # Results.population dispatch
    rc = repo.cls("Results", "results")
    fn3 = rc.methods.get("population")
    if fn3 is None:
        raise AnalysisError("Results.population not found")
    C3 = "Results.population"
    good = True
    n = 0
    for p in Enumerator().function_paths(fn3):
        n += 1
        default = None
        for e in p.events:
            if e.kind == "guard" and isinstance(e.node, ast.Compare) and "population_id" in text(e.node.left) and is_const(e.node.comparators[0]) \
                    and const_value(e.node.comparators[0]) == -1 and isinstance(e.node.ops[0], (ast.Eq, ast.NotEq)):
                default = e.val if isinstance(e.node.ops[0], ast.Eq) else not e.val
        calls = [access_path(c.func) or "" for e in p.events if e.kind in ("stmt", "return") for c in calls_in(e.node)]
        if default is True and not any(c.endswith(".last_population") for c in calls):
            good = False
        if default is False and not any(c.endswith(".problem.population") for c in calls):
            good = False
        if default is None:
            good = False
    ctx.check(good, "R1", C3, where(rc.module, fn3), "id -1 -> last_population(), otherwise problem.population(id) (%d paths)" % n)


# ------------------------------------------------------------------ R2 / R3
def pair_sites(ctx, repo):
    rc = repo.cls("Results", "results")
    mod = rc.module
    n_sites = 0
    for name in ("goal_on_parameter", "parameter_on_goal", "parameter_on_parameter"):
        fn = rc.methods.get(name)
        if fn is None:
            raise AnalysisError("Results.%s not found" % name)
        C = "Results.%s" % name
        selfn = func_params(fn)[0]
        # --- R2: lock-step: the two returned lists as value terms right after they are filled
        TT = Terms(fn)
        retnames, filled = [], {}
        for r_ in [x for x in stmts_of(fn) if isinstance(x, ast.Return)]:
            if not (isinstance(r_.value, (ast.List, ast.Tuple)) and all(isinstance(e_, ast.Name) for e_ in r_.value.elts)):
                continue
            cand = [e_.id for e_ in r_.value.elts]
            got = {}
            for st_ in fn.body:
                env_ = TT.before.get(id(st_), ({}, set()))[0]
                for nm in cand:
                    if nm not in got and nm in env_:
                        ft = fuse(env_[nm])
                        if isinstance(ft, ast.ListComp) and len(ft.generators) == 1:
                            got[nm] = ft
            if len(cand) == 2 and len(got) == 2:
                retnames, filled = cand, got
                break
            if not retnames:
                retnames, filled = cand, got
        if len(retnames) == 2 and len(filled) == 2:
            a_, b_ = (alpha(filled[nm]) for nm in retnames)
            ga, gb = a_.generators[0], b_.generators[0]
            same_src = text(ga.iter) == text(gb.iter) and text(ga.target) == text(gb.target) == "_0"
            unfiltered = not ga.ifs and not gb.ifs
            from_member = all(text(e_.elt).startswith("_0.") for e_ in (a_, b_))
            if same_src and unfiltered and from_member:
                ctx.holds("R2", C, where(mod, fn), "lists %s = %s / %s: one entry each per individual of the same sequence, in the same order" % (retnames, text(a_), text(b_)), key="lock-step")
                n_sites += 1
            else:
                ctx.violated("R2", C, where(mod, fn), "the two parallel lists are not filled in lock-step from the same individual (%s / %s)" % (text(a_), text(b_)), key="lock-step")
        elif any(isinstance(x, ast.For) for x in fn.body):
            ctx.inconclusive("R2", C, where(mod, fn), "the two returned lists are not recognised as built from one sequence of individuals", key="lock-step")
        # --- R3: sort pairing on every path
        okp, npaths, bad = True, 0, None
        for p in Enumerator(loop_counts=(0, 1)).function_paths(fn):
            if p.outcome == "raise":
                continue
            npaths += 1
            sorted_keys = []       # key lists already sorted in place
            reordered = {}         # partner -> key used
            holder = {}            # local name -> partner whose reordered copy it holds
            for e in p.events:
                if e.kind not in ("stmt", "return"):
                    continue
                s = e.node
                if isinstance(s, ast.Assign) and isinstance(s.value, ast.Call) and (access_path(s.value.func) or "").endswith("sort_list") \
                        and len(s.value.args) == 2:
                    key, partner = access_path(s.value.args[0]), access_path(s.value.args[1])
                    tgt = access_path(s.targets[0])
                    if key in sorted_keys:
                        bad = bad or (s, "the partner list is reordered with a key list that was already sorted in place: every value is paired with the wrong partner")
                    reordered[partner] = key
                    if tgt:
                        holder[tgt] = partner
                elif isinstance(s, ast.Assign) and len(s.targets) == 1 and isinstance(s.targets[0], ast.Name) and isinstance(s.value, ast.Name):
                    # the reordered copy handed on to another local (or back to the partner's name)
                    if s.value.id in holder:
                        holder[s.targets[0].id] = holder[s.value.id]
                    else:
                        holder.pop(s.targets[0].id, None)
                elif isinstance(s, ast.Expr) and is_method_call(s.value, "sort") and isinstance(s.value.func.value, ast.Name):
                    k = s.value.func.value.id
                    if k not in reordered.values():
                        bad = bad or (s, "%s is sorted in place but its partner list was not reordered with it" % k)
                    if s.value.args or s.value.keywords:
                        bad = bad or (s, "the key list is sorted with other options than the partner")
                    sorted_keys.append(k)
                elif isinstance(s, ast.Assign) and isinstance(s.value, ast.Call) and access_path(s.value.func) == "sorted" and s.value.args \
                        and access_path(s.targets[0]) == access_path(s.value.args[0]):
                    k = access_path(s.targets[0])
                    if k not in reordered.values():
                        bad = bad or (s, "%s is sorted but its partner list was not reordered with it" % k)
                    sorted_keys.append(k)
                elif isinstance(s, ast.Return) and isinstance(s.value, (ast.List, ast.Tuple)) and reordered:
                    # what is handed out in the partner's place must be the reordered copy
                    names = [access_path(x) for x in s.value.elts]
                    for partner in reordered:
                        held = [n_ for n_ in names if n_ is not None and holder.get(n_) == partner]
                        if not held:
                            bad = bad or (s, "the reordered copy of %s is not what is returned (returned: %s): the sorted keys are paired with the unsorted partner" % (partner, names))
            for partner, key in reordered.items():
                if key not in sorted_keys:
                    bad = bad or (fn, "partner %s is reordered by %s but %s itself is left unsorted" % (partner, key, key))
        if bad:
            ctx.violated("R3", C, where(mod, bad[0]), bad[1], key="sort-pairing")
        else:
            ctx.holds("R3", C, where(mod, fn), "partner reordered via sort_list(unsorted keys, partner) before the keys are sorted (%d paths)" % npaths, key="sort-pairing")
    ctx.count("pairing_sites", n_sites)
    # sort_list itself
    fn = rc.methods.get("sort_list")
    if fn is None:
        raise AnalysisError("Results.sort_list not found")
    ps = func_params(fn)
    defs = single_defs(fn)
    rets = [s for s in stmts_of(fn) if isinstance(s, ast.Return)]
    ok = False
    detail = "unrecognised"
    trets = [t for _, t in Terms(fn).returns if t is not None]
    if len(trets) == 1:
        v = fuse(trets[0])
        if isinstance(v, ast.ListComp) and len(v.generators) == 1 and not v.generators[0].ifs:
            g = v.generators[0]
            it = g.iter
            if isinstance(it, ast.Call) and access_path(it.func) == "sorted" and len(it.args) == 1 and not [k for k in it.keywords if k.arg == "reverse"]:
                z = it.args[0]
                if isinstance(z, ast.Call) and access_path(z.func) == "zip" and [access_path(a) for a in z.args] == ps[-2:]:
                    tg = g.target
                    second = access_path(tg.elts[1]) if isinstance(tg, ast.Tuple) and len(tg.elts) == 2 else ("%s[1]" % tg.id if isinstance(tg, ast.Name) else None)
                    first = access_path(tg.elts[0]) if isinstance(tg, ast.Tuple) and len(tg.elts) == 2 else ("%s[0]" % tg.id if isinstance(tg, ast.Name) else None)
                    if second is not None and text(v.elt) in (second, second.replace("[1]", "[-1]")):
                        ok = True
                    elif first is not None and text(v.elt) in (first, first.replace("[0]", "[-2]")):
                        detail = "returns %s of the sorted (key, partner) pairs, the key component, instead of the partner component" % text(v.elt)
                elif isinstance(z, ast.Call) and access_path(z.func) == "zip" and [access_path(a) for a in z.args] == ps[-2:][::-1]:
                    detail = "sorted over %s, expected zip(%s, %s): the partner list would be sorted by itself" % (text(z), ps[-2], ps[-1])
            elif isinstance(it, ast.Call) and access_path(it.func) == "sorted" and any(k.arg == "reverse" and is_const(k.value) and const_value(k.value) is True for k in it.keywords):
                detail = "sorted in descending order: the partner list does not follow the ascending order of the keys"
    if ok:
        ctx.holds("R3", "Results.sort_list", where(mod, fn), "returns the partner components of sorted(zip(keys, partner))", key="sort_list")
    elif detail == "unrecognised":
        ctx.inconclusive("R3", "Results.sort_list", where(mod, fn), "shape not recognised", key="sort_list")
    else:
        ctx.violated("R3", "Results.sort_list", where(mod, fn), detail, key="sort_list")

    # table / parameters / costs: own data of the same individual
    def traversal(meth):
        """the data source a Results method walks when it lists values of individuals (normalised text), or None"""
        f = rc.methods.get(meth)
        if f is None:
            return None
        loops_ = [x for x in stmts_of(f) if isinstance(x, ast.For) and ("individuals" in text(x.iter) or "populations" in text(x.iter))]
        return text(loops_[0].iter) if loops_ else None

    fn = rc.methods.get("table")
    if fn is not None:
        zips = [c for c in calls_in(fn) if access_path(c.func) == "zip" and len(c.args) == 2]
        srcs = []
        for z in zips:
            for a in z.args:
                for c in [a] + calls_in(a):
                    nm = access_path(c.func) if isinstance(c, ast.Call) else None
                    if nm and nm.startswith(func_params(fn)[0] + ".") and nm.split(".")[1] in rc.methods:
                        srcs.append((nm.split(".")[1], traversal(nm.split(".")[1])))
        kinds = {k for k, _ in srcs}
        if len(kinds) >= 2 and all(t is not None for _, t in srcs) and len({t for _, t in srcs}) > 1:
            ctx.violated("R2", "Results.table", where(mod, fn), "rows are built by zipping %s: the two listings walk the individuals in different orders (%s), so for interleaved generation tags a row pairs one individual's parameters with another's costs"
                         % (" and ".join(sorted(kinds)), "; ".join("%s over %s" % (k, t) for k, t in srcs)), key="lock-step")
            fn = None
    if fn is not None:
        apps = [c for c in calls_in(fn) if is_method_call(c, "append") and c.args]
        ok = False
        if len(apps) == 1 and isinstance(apps[0].args[0], ast.BinOp) and isinstance(apps[0].args[0].op, ast.Add):
            l, r = text(apps[0].args[0].left), text(apps[0].args[0].right)
            ok = l.endswith(".vector") and r.endswith(".costs") and l.split(".")[0] == r.split(".")[0]
        ctx.check3(True if ok else (False if (len(apps) == 1 and isinstance(apps[0].args[0], ast.BinOp)) else None), "R2", "Results.table", where(mod, fn), "each row is vector + costs of one and the same individual",
                   "a table row combines %s: parameters and costs of different individuals (or not vector + costs)" % (text(apps[0].args[0]) if apps else ""), "row construction not recognised", key="lock-step")


# ------------------------------------------------------------------ R4
def cond_cases(test):
    """short-circuit decomposition of a condition: list of ([(atom, truth)...], overall truth)"""
    if isinstance(test, ast.BoolOp):
        is_and = isinstance(test.op, ast.And)
        out = []

        def rec(i, acc):
            if i == len(test.values):
                out.append((acc, is_and))
                return
            for atoms, t in cond_cases(test.values[i]):
                if t != is_and:
                    out.append((acc + atoms, t))
                else:
                    rec(i + 1, acc + atoms)
        rec(0, [])
        return out
    if isinstance(test, ast.UnaryOp) and isinstance(test.op, ast.Not):
        return [(a, not t) for a, t in cond_cases(test.operand)]
    return [([(test, True)], True), ([(test, False)], False)]


def r4_find_optimum(ctx, repo):
    """finite case split over the cost entry of the requested goal (criteria absent / 'minimize' / 'maximize'): along every
    path the guards and bindings that depend only on that entry are evaluated concretely for the case, which prunes the
    paths the case cannot take and tells which of min / max is applied to the recorded individuals"""
    from ..astutil import ceval, NotEvaluable
    rc = repo.cls("Results", "results")
    mod = rc.module
    fn0 = rc.methods.get("find_optimum")
    if fn0 is None:
        raise AnalysisError("Results.find_optimum not found")
    C = "Results.find_optimum"
    # the cost entry: <...>.problem.costs[<index>]; remember which index expressions are used
    idx_texts = set()

    class CostEntry(ast.NodeTransformer):
        def visit_Subscript(self, n):
            self.generic_visit(n)
            if (access_path(n.value) or "").endswith(".problem.costs") and not isinstance(n.slice, ast.Slice) and isinstance(n.ctx, ast.Load):
                idx_texts.add(text(n.slice))
                return ast.copy_location(ast.Name(id="__cost", ctx=ast.Load()), n)
            return n
    import copy as _copy
    fn = CostEntry().visit(_copy.deepcopy(fn0))
    ast.fix_missing_locations(fn)
    local_defs = {nd.name: nd for nd in ast.walk(fn) if isinstance(nd, ast.FunctionDef) and nd is not fn}
    CASES = (("absent", {}, "min"), ("minimize", {"criteria": "minimize"}, "min"), ("maximize", {"criteria": "maximize"}, "max"))
    table = []
    bad = unsure = None
    n_paths = n_picks = 0

    def key_text(call):
        key = [k.value for k in call.keywords if k.arg == "key"]
        if not key:
            return None
        k = key[0]
        if isinstance(k, ast.Name) and k.id in local_defs:
            nd_ = local_defs[k.id]
            body_ = [x for x in nd_.body if not (isinstance(x, ast.Expr) and isinstance(x.value, ast.Constant))]
            if len(body_) == 1 and isinstance(body_[0], ast.Return) and len(nd_.args.args) == 1 and body_[0].value is not None:
                return "lambda %s: %s" % (nd_.args.args[0].arg, text(body_[0].value))
        return text(k)

    def live_calls(e, cenv):
        """calls evaluated inside e when the decidable conditional sub-expressions take their branch for this case"""
        if isinstance(e, ast.IfExp):
            try:
                t = bool(ceval(e.test, cenv))
                yield from live_calls(e.test, cenv)
                yield from live_calls(e.body if t else e.orelse, cenv)
                return
            except NotEvaluable:
                pass
        if isinstance(e, ast.Lambda):
            return
        if isinstance(e, ast.Call):
            yield e
        for c in ast.iter_child_nodes(e):
            if isinstance(c, ast.expr) or isinstance(c, ast.keyword):
                yield from live_calls(c.value if isinstance(c, ast.keyword) else c, cenv)

    paths = [p for p in Enumerator(loop_counts=(0, 1)).function_paths(fn) if p.outcome != "raise"]
    for cname_, cdict, want in CASES:
        case_picks = 0
        for p in paths:
            cenv = {"__cost": cdict, "min": "min", "max": "max"}
            feasible = True
            idx_assign = {}
            crit_read = None        # (event index, index variable) of the first read of the cost entry
            picks = []
            for i, e in enumerate(p.events):
                if e.kind == "guard":
                    try:
                        if bool(ceval(e.node, cenv)) != bool(e.val):
                            feasible = False
                            break
                    except NotEvaluable:
                        pass
                elif e.kind in ("stmt", "return"):
                    s_ = e.node
                    val = getattr(s_, "value", None)
                    if isinstance(val, ast.expr):
                        for c in live_calls(val, cenv):
                            if c.args and (access_path(c.args[0]) or "").endswith(".problem.individuals"):
                                try:
                                    f_ = ceval(c.func, cenv)
                                except NotEvaluable:
                                    f_ = None
                                picks.append((i, f_ if f_ in ("min", "max") else None, key_text(c), text(c.func)))
                    if isinstance(s_, ast.Assign) and len(s_.targets) == 1 and isinstance(s_.targets[0], ast.Name):
                        tn = s_.targets[0].id
                        idx_assign.setdefault(tn, []).append(i)
                        try:
                            cenv[tn] = ceval(s_.value, cenv)
                        except NotEvaluable:
                            cenv.pop(tn, None)
                    elif isinstance(s_, (ast.Assign, ast.AugAssign)):
                        for t_ in (s_.targets if isinstance(s_, ast.Assign) else [s_.target]):
                            for nm_ in ast.walk(t_):
                                if isinstance(nm_, ast.Name) and isinstance(nm_.ctx, ast.Store):
                                    cenv.pop(nm_.id, None)
                                    idx_assign.setdefault(nm_.id, []).append(i)
                if crit_read is None and e.node is not None and any(isinstance(x, ast.Name) and x.id == "__cost" for x in ast.walk(e.node) if not isinstance(e.node, (ast.For, ast.While, ast.If, ast.Try, ast.With))):
                    crit_read = i
            if not feasible:
                continue
            n_paths += 1
            for i, f_, keyt, ftext in picks:
                n_picks += 1
                case_picks += 1
                table.append({"case": cname_, "pick": f_ or ftext, "key": keyt})
                if f_ is None:
                    unsure = unsure or (p, "the selection function %s is not decided by the criteria of the goal" % ftext)
                elif f_ != want:
                    bad = bad or (p, "for criteria %s the optimum is taken with %s()" % ("minimize/absent" if want == "min" else "maximize", f_))
                idx_vars = {t for t in idx_texts if t.isidentifier()}
                if keyt is None or not any((".costs[%s]" % v) in keyt.replace(" ", "") for v in (idx_vars or {"index"})):
                    if keyt is not None and ".costs[" in keyt:
                        bad = bad or (p, "the optimum is not keyed by the named cost (key=%s)" % keyt)
                    else:
                        unsure = unsure or (p, "key function %s not recognised" % keyt)
                # the criteria must belong to the goal that is optimised: no re-binding of its index variable in between
                if crit_read is not None:
                    for v in idx_vars:
                        later = [j for j in idx_assign.get(v, []) if crit_read < j < i]
                        if later:
                            bad = bad or (p, "the optimisation direction is read from costs[%s] before `%s` is set to the requested goal: a named goal is optimised in the direction of another goal" % (v, v))
        if case_picks == 0:
            unsure = unsure or (None, "no min()/max() selection over problem.individuals found for criteria %s" % cname_)
    ctx.extra["find_optimum_table"] = table[:40]
    if bad:
        ctx.violated("R4", C, where(mod, fn0), bad[1] + " on the path [%s]" % bad[0].describe(6))
    elif n_picks == 0 or unsure:
        ctx.inconclusive("R4", C, where(mod, fn0), (unsure[1] + ((" on the path [%s]" % unsure[0].describe(6)) if unsure[0] is not None else "")) if unsure else "no min()/max() selection over problem.individuals found")
    else:
        ctx.holds("R4", C, where(mod, fn0), "criteria absent / 'minimize' -> min, 'maximize' -> max, keyed by costs[index] of the requested goal, over problem.individuals (%d feasible case-paths, %d selections)" % (n_paths, n_picks))


# ------------------------------------------------------------------ R5
def r5_indicators(ctx, repo):
    mod = repo.module("quality_indicator")
    gd = mod.functions.get("gd")
    ea = mod.functions.get("epsilon_add")
    if gd is None or ea is None:
        raise AnalysisError("gd / epsilon_add not found in quality_indicator.py")
    ps = func_params(gd)
    ref, comp = ps[0], ps[1]
    defs = single_defs(gd)
    cd = [c for c in calls_in(gd) if (access_path(c.func) or "").endswith("cdist")]
    red = [c for c in calls_in(gd) if (access_path(c.func) or "").split(".")[-1] in ("nanmin", "min", "amin") and c.args]
    rets = [s for s in stmts_of(gd) if isinstance(s, ast.Return)]
    C = "quality_indicator.gd"
    # branch by branch: where do the distances that are minimised come from?  Pairwise differences (cdist) are exact for
    # coincident points; the expanded square |r|^2 - 2 r.c + |c|^2 (one matrix product) is not - the three terms cancel
    # only up to rounding, so a computed point that IS a reference point gets a positive distance
    from ..paths import Enumerator as _En
    expansion = unknown_src = None
    n_gd_paths = 0
    for p_ in _En(loop_counts=(0, 1)).function_paths(gd):
        if p_.outcome == "raise":
            continue
        n_gd_paths += 1
        env_ = PathEnv(gd, p_.events)
        reds_ = [(i_, c_) for i_, e_ in enumerate(p_.events) if e_.kind == "stmt" for c_ in calls_in(e_.node)
                 if (access_path(c_.func) or "").split(".")[-1] in ("nanmin", "min", "amin", "argmin") and c_.args]
        if not reds_:
            continue
        i_, c_ = reds_[0]
        src = env_.expand_at(c_.args[0], i_)
        names_ = {(access_path(x.func) or "").split(".")[-1] for x in ast.walk(src) if isinstance(x, ast.Call)}
        if "cdist" in names_:
            continue
        mixes = any(isinstance(x, ast.BinOp) and isinstance(x.op, ast.MatMult) for x in ast.walk(src)) or names_ & {"dot", "matmul", "einsum", "tensordot", "inner"}
        subtracts = any(isinstance(x, ast.BinOp) and isinstance(x.op, ast.Sub) and (any(isinstance(y, ast.BinOp) and isinstance(y.op, ast.MatMult) for y in ast.walk(x.right))
                                                                                     or {(access_path(y.func) or "").split(".")[-1] for y in ast.walk(x.right) if isinstance(y, ast.Call)}
                                                                                     & {"dot", "matmul", "einsum", "tensordot", "inner"}) for x in ast.walk(src))
        if mixes and subtracts:
            expansion = expansion or (c_, text(src)[:160], p_)
        else:
            unknown_src = unknown_src or (c_, text(src)[:120])
    if expansion:
        ctx.violated("R5", C, where(mod, expansion[0]), "the squared distances are computed by the expansion |r|^2 - 2 r.c + |c|^2 (%s): for a computed point that coincides with a reference "
                     "point the three terms cancel only up to rounding (badly for coordinates that are large against the spacing), so the distance is not zero and gd of a set against "
                     "itself is positive (path [%s])" % (expansion[1], expansion[2].describe(3)), key="gd-expansion")
    elif unknown_src:
        ctx.inconclusive("R5", C, where(mod, unknown_src[0]), "the minimised matrix %s is not built by cdist" % unknown_src[1], key="gd-expansion")
    if len(cd) != 1 or not red or not rets:
        ctx.inconclusive("R5", C, where(mod, gd), "distance matrix / reduction not recognised")
    else:
        order = [access_path(a) for a in cd[0].args[:2]]
        axis = None
        for k in red[0].keywords:
            if k.arg == "axis" and is_const(k.value):
                axis = const_value(k.value)
        if axis is None and len(red[0].args) > 1 and is_const(red[0].args[1]):
            axis = const_value(red[0].args[1])
        if axis is None or set(order) != {ref, comp}:
            ctx.violated("R5", C, where(mod, red[0]), "the nearest-point reduction has no axis / the matrix is not built from (reference, computed)", key="gd-axis")
        elif order[axis] != ref:
            ctx.violated("R5", C, where(mod, red[0]), "the minimum is taken over axis %d = the computed points: this yields the distance from each reference point, not from each computed point" % axis, key="gd-axis")
        else:
            ctx.holds("R5", C, where(mod, red[0]), "min over the reference axis of cdist(%s, %s): nearest reference point per computed point" % tuple(order), key="gd-axis")
        trs = [t for _, t in Terms(gd).returns if t is not None]
        rt = trs[-1] if trs else rets[-1].value
        rv = text(rt)
        okd = isinstance(rt, ast.BinOp) and isinstance(rt.op, ast.Div) and text(rt.right) == "len(%s)" % comp \
            and ((access_path(rt.left.func) if isinstance(rt.left, ast.Call) else "") in ("np.sum", "sum", "numpy.sum", "np.nansum", "math.fsum")
                 or (isinstance(rt.left, ast.Call) and isinstance(rt.left.func, ast.Attribute) and rt.left.func.attr in ("sum", "nansum") and not rt.left.args and not rt.left.keywords))
        okm = isinstance(rt, ast.Call) and (access_path(rt.func) or "").split(".")[-1] in ("mean", "nanmean")
        if okd or okm:
            ctx.holds("R5", C, where(mod, rets[-1]), "mean over the computed set: %s" % rv, key="gd-mean")
        elif isinstance(rt, ast.BinOp) and isinstance(rt.op, ast.Div) and text(rt.right) in ("len(%s)" % ref, "%s.shape[0]" % ref) and "sum" in text(rt.left):
            ctx.violated("R5", C, where(mod, rets[-1]), "the result %s divides the sum of the minima by the size of the REFERENCE set, not of the computed set" % rv, key="gd-mean")
        elif isinstance(rt, ast.Call) and (access_path(rt.func) or "").split(".")[-1] in ("sum", "nansum", "max", "min", "median") or \
                (isinstance(rt, ast.BinOp) and isinstance(rt.op, ast.Div) and text(rt.right) == "len(%s)" % comp and (access_path(getattr(rt.left, "func", None)) or "").split(".")[-1] in ("max", "min", "median", "prod")):
            ctx.violated("R5", C, where(mod, rets[-1]), "the result %s is not the sum of the minima divided by the size of the computed set" % rv, key="gd-mean")
        else:
            ctx.inconclusive("R5", C, where(mod, rets[-1]), "the result %s is not recognised as the mean of the minima over the computed set" % rv, key="gd-mean")

    # epsilon_add nest
    C = "quality_indicator.epsilon_add"
    ps = func_params(ea)
    ref, comp = ps[0], ps[1]
    outer = [s for s in ea.body if isinstance(s, ast.For)]
    if not outer:
        # array form: the returned value as a term
        rts_ = [t for _, t in Terms(ea).returns if t is not None]
        if len(rts_) == 1:
            rt_ = rts_[0]
            while isinstance(rt_, ast.Call) and access_path(rt_.func) in ("float", "np.float64") and len(rt_.args) == 1:
                rt_ = rt_.args[0]
            red = [(access_path(c_.func) or "").split(".")[-1] for c_ in ast.walk(rt_) if isinstance(c_, ast.Call)]
            nest = [r_ for r_ in red if r_ in ("max", "amax", "nanmax", "min", "amin", "nanmin")]
            zero_floor = isinstance(rt_, ast.Call) and (access_path(rt_.func) or "").split(".")[-1] in ("max", "maximum", "fmax") and len(rt_.args) == 2 \
                and any(is_const(a_) and const_value(a_) == 0 for a_ in rt_.args)
            if len(nest) >= 3 and not zero_floor and isinstance(rt_, ast.Call) and (access_path(rt_.func) or "").split(".")[-1] in ("max", "amax", "nanmax") \
                    and len(rt_.args) == 1:
                ctx.violated("R5", C, where(mod, ea), "the indicator is returned as %s, a max-min-max of coordinate differences without the floor at 0: when every reference point is strictly "
                             "dominated by a computed point the result is negative (the property requires a non-negative indicator, 0 for such sets)" % text(rt_)[:140], key="nest")
                return
        ctx.inconclusive("R5", C, where(mod, ea), "outer loop not recognised")
        return
    if len(outer) != 1 or not isinstance(outer[0].target, ast.Name):
        ctx.inconclusive("R5", C, where(mod, ea), "outer loop not recognised")
        return
    o = outer[0]
    inner = [s for s in o.body if isinstance(s, ast.For)]
    if len(inner) != 1 or not isinstance(inner[0].target, ast.Name):
        ctx.inconclusive("R5", C, where(mod, ea), "inner loop not recognised")
        return
    i = inner[0]
    problems = []
    if access_path(o.iter) != ref or access_path(i.iter) != comp:
        problems.append("loops iterate (%s, %s), expected outer reference / inner computed" % (text(o.iter), text(i.iter)))
    rv, cv = o.target.id, i.target.id
    # inner body: eps_k = max(subtract(comp, ref)); eps_j = min(eps_k, eps_j)
    dmax = [c for c in calls_in(i) if access_path(c.func) in ("max", "np.max", "np.amax")]
    sub = [c for c in calls_in(i) if (access_path(c.func) or "").endswith("subtract")]
    diff_ok = False
    if sub and [access_path(a) for a in sub[0].args] == [cv, rv]:
        diff_ok = True
    elif sub:
        problems.append("coordinate differences are %s, expected computed - reference" % text(sub[0]))
    else:
        problems.append("coordinate difference not found")
    acc_in = [s for s in i.body if isinstance(s, ast.Assign) and isinstance(s.value, ast.Call) and access_path(s.value.func) in ("min", "max")
              and access_path(s.targets[0]) in [access_path(a) for a in s.value.args]]
    acc_out = [s for s in o.body if isinstance(s, ast.Assign) and isinstance(s.value, ast.Call) and access_path(s.value.func) in ("min", "max")
               and access_path(s.targets[0]) in [access_path(a) for a in s.value.args]]
    if not dmax:
        problems.append("max over coordinates not found")
    if len(acc_in) != 1 or access_path(acc_in[0].value.func) != "min":
        problems.append("inner accumulation over the computed points is not a running min")
    if len(acc_out) != 1 or access_path(acc_out[0].value.func) != "max":
        problems.append("outer accumulation over the reference points is not a running max")
    else:
        # outer max placed after the inner loop
        if o.body.index(acc_out[0]) < o.body.index(i):
            problems.append("the outer max is taken before the inner loop")
    # initial values
    if acc_in and len(acc_in) == 1:
        jn = access_path(acc_in[0].targets[0])
        init = [s for s in o.body[:o.body.index(i)] if isinstance(s, ast.Assign) and access_path(s.targets[0]) == jn]
        if not init or text(init[0].value) not in ("np.inf", "math.inf", "float('inf')", "numpy.inf", "inf"):
            problems.append("the running min is not reset to +infinity for each reference point")
    if acc_out and len(acc_out) == 1:
        en = access_path(acc_out[0].targets[0])
        init = [s for s in ea.body[:ea.body.index(o)] if isinstance(s, ast.Assign) and access_path(s.targets[0]) == en]
        if not init or not is_const(init[0].value) or const_value(init[0].value) != 0:
            problems.append("the result does not start from 0 (non-negativity)")
        rets = [s for s in ea.body if isinstance(s, ast.Return)]
        if not rets or access_path(rets[-1].value) != en:
            problems.append("the accumulated maximum is not what is returned")
    if problems:
        ctx.violated("R5", C, where(mod, ea), "; ".join(problems), key="nest")
    else:
        ctx.holds("R5", C, where(mod, ea), "eps = max_ref min_comp max_i (computed_i - reference_i), running min reset to +inf, result starts at 0", key="nest")


# ------------------------------------------------------------------ R6
def r6_numpy_api(ctx, repo):
    names = {}
    for mname in ("quality_indicator", "results"):
        mod = repo.module(mname)
        alias = [k for k, v in mod.imports.items() if v[0] == "numpy" and v[1] is None]
        for n in ast.walk(mod.tree):
            if isinstance(n, ast.Attribute):
                p = access_path(n)
                if p and p.split(".")[0] in alias and p.count(".") >= 1:
                    names.setdefault(".".join(p.split(".")[1:]), (mod, n))
    # only maximal chains
    chains = sorted(names)
    py = "/venv/bin/python"
    if not os.path.exists(py):
        ctx.assume("repository interpreter /venv/bin/python not present: numpy API existence (R6) not queried")
        return
    code = ("import numpy, sys\nfor c in sys.argv[1:]:\n    o = numpy\n    ok = True\n    for part in c.split('.'):\n"
            "        if not hasattr(o, part):\n            ok = False\n            break\n        o = getattr(o, part)\n    print(c, int(ok))\n")
    try:
        out = subprocess.run([py, "-W", "ignore", "-c", code] + chains, capture_output=True, text=True, timeout=120)
    except Exception as e:  # noqa
        ctx.assume("numpy query failed (%s): R6 not decided" % e)
        return
    res = dict(l.split() for l in out.stdout.strip().splitlines() if len(l.split()) == 2)
    if len(res) != len(chains):
        ctx.assume("numpy query gave no usable answer: R6 not decided")
        return
    ctx.extra["numpy_names_checked"] = res
    for c in chains:
        mod, node = names[c]
        fn = None
        for f in ast.walk(mod.tree):
            if isinstance(f, ast.FunctionDef) and f.lineno <= node.lineno <= max(getattr(f, "end_lineno", f.lineno), f.lineno):
                fn = f
        cons = "%s.%s" % (mod.name, fn.name if fn else "<module>")
        if res[c] == "1":
            ctx.holds("R6", cons, where(mod, node), "numpy.%s exists" % c, key="np." + c)
        else:
            ctx.violated("R6", cons, where(mod, node), "numpy.%s does not exist in the repository's numpy: AttributeError on every call" % c, key="np." + c)


def r2_columns(ctx, repo):
    """per-goal / per-parameter listings built column-wise (`out[i].append(individual.costs[i])`): the columns are n
    DISTINCT lists, column i receives component i of every recorded individual"""
    rc = repo.cls("Results", "results")
    mod = rc.module
    for name, attr in (("costs", "costs"), ("parameters", "vector")):
        fn = rc.methods.get(name)
        if fn is None:
            continue
        C = "Results.%s" % name
        T = Terms(fn)
        fills = []
        for s_ in stmts_of(fn):
            if isinstance(s_, ast.Expr) and is_method_call(s_.value, "append") and isinstance(s_.value.func.value, ast.Subscript) and s_.value.args:
                fills.append(s_)
        if not fills:
            continue            # built row-wise or by comprehension: covered by the lock-step rule
        st = fills[0]
        col = st.value.func.value
        cols = access_path(col.value)
        arg = T.expand(st.value.args[0], at=st)
        # what the container of columns was bound to
        org = T.origin(cols, st) if cols else None
        shared = None
        for cand in [org] + [x.value for x in stmts_of(fn) if isinstance(x, ast.Assign) and any(access_path(t) == cols for t in x.targets)]:
            if isinstance(cand, ast.BinOp) and isinstance(cand.op, ast.Mult):
                for a_, b_ in ((cand.left, cand.right), (cand.right, cand.left)):
                    if isinstance(a_, ast.List) and len(a_.elts) == 1 and isinstance(a_.elts[0], (ast.List, ast.Dict, ast.Set, ast.ListComp, ast.Call, ast.Name)):
                        shared = cand
        if shared is not None:
            ctx.violated("R2", C, where(mod, st), "the columns are created as %s: one list object repeated, so every column is the same list and receives the values of all "
                         "components of every individual" % text(shared), key="columns")
            continue
        idx_c = text(col.slice)
        ok = None
        if isinstance(arg, ast.Subscript) and (access_path(arg.value) or "").endswith("." + attr):
            ok = True if text(arg.slice) == idx_c else (False if (text(arg.slice).isidentifier() and idx_c.isidentifier()) else None)
        ctx.check3(ok, "R2", C, where(mod, st), "column %s collects component %s of every individual; the columns are distinct lists" % (idx_c, idx_c),
                   "column %s receives component %s" % (idx_c, text(arg.slice) if isinstance(arg, ast.Subscript) else "?"), "column fill %s not recognised" % text(st).strip()[:80], key="columns")


def r1_groups(ctx, repo):
    """Problem.populations(): every recorded individual is put into the group of its generation tag exactly once, whatever
    its vector or costs - a membership test (`x not in group` is equality of design vectors) drops a recorded individual
    that shares its vector with another one of the same generation"""
    from ..paths import Enumerator as _En
    pc = repo.cls("Problem", "problem")
    fn = pc.methods.get("populations")
    if fn is None:
        return
    mod = pc.module
    C = "Problem.populations"
    loops = [x for x in fn.body if isinstance(x, ast.For) and (access_path(x.iter) or "").endswith(".individuals") and isinstance(x.target, ast.Name)]
    if len(loops) != 1:
        ctx.inconclusive("R1", C, where(mod, fn), "loop over the recorded individuals not found", key="groups")
        return
    lp = loops[0]
    x = lp.target.id
    fake = ast.FunctionDef(name="body", args=fn.args, body=lp.body, decorator_list=[], returns=None, type_comment=None, lineno=lp.lineno, col_offset=0)
    bad = None
    n = 0
    for p in _En(loop_counts=(0, 1)).function_paths(fake):
        if p.outcome == "raise":
            continue
        n += 1
        apps = [c for e in p.events if e.kind == "stmt" for c in calls_in(e.node) if isinstance(c.func, ast.Attribute) and c.func.attr in ("append", "add")
                and c.args and access_path(c.args[0]) == x]
        apps += [e.node for e in p.events if e.kind == "stmt" and isinstance(e.node, ast.Assign) and isinstance(e.node.value, ast.List)
                 and any(access_path(el) == x for el in e.node.value.elts)]
        if len(apps) != 1:
            member_tests = [text(e.node) for e in p.events if e.kind == "guard" and isinstance(e.node, ast.Compare) and any(isinstance(o, (ast.In, ast.NotIn)) for o in e.node.ops)
                            and access_path(e.node.left) == x]
            why = ("; the test `%s` is equality of design vectors, so a recorded individual that shares its vector with another one of its generation is left out of every listing built on "
                   "the groups" % member_tests[0]) if member_tests else ""
            bad = bad or (lp, "a recorded individual is put into its generation group %d time(s) on the path [%s]%s" % (len(apps), p.describe(5), why))
    if bad:
        ctx.violated("R1", C, where(mod, bad[0]), bad[1], key="groups")
    elif n == 0:
        ctx.inconclusive("R1", C, where(mod, fn), "no path", key="groups")
    else:
        ctx.holds("R1", C, where(mod, fn), "every recorded individual is appended exactly once to the group of its tag (%d body paths)" % n, key="groups")


def run(ctx):
    for rid, doc in (("R1", "population(tag) = recorded individuals with that tag, in order; default = maximum tag"),
                     ("R2", "parallel lists filled in lock-step from the same individual"),
                     ("R3", "partner reordered by sort_list(unsorted keys, partner) before keys sorted; sort_list returns partner components"),
                     ("R4", "find_optimum: minimise/absent -> min else max, keyed by the named cost"),
                     ("R5", "gd: min over reference axis, mean over computed; epsilon_add: max-min-max nest from 0"),
                     ("R6", "numpy attributes used exist in the repository's numpy")):
        ctx.rule(rid, doc)
    ctx.axiom("sorted() is ascending and stable; zip pairs positionally; scipy cdist(A,B)[i,j] = d(A[i],B[j])")
    ctx.assume("indicator values themselves (numeric) are not decided; only the reduction structure")
    r1_population(ctx, ctx.repo)
    r1_groups(ctx, ctx.repo)
    pair_sites(ctx, ctx.repo)
    r2_columns(ctx, ctx.repo)
    r4_find_optimum(ctx, ctx.repo)
    r5_indicators(ctx, ctx.repo)
    r6_numpy_api(ctx, ctx.repo)
