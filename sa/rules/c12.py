"""C12 - space-filling samplers have their defining coverage structure (structure rules).

R1  random generator: one gen_vector(parameters) per requested design.
R2  uniform grid: k equally spaced levels lo + i*(hi-lo)/(k-1), i in [0,k), per
    parameter, full Cartesian product (itertools.product), one list per
    combination.
R3  Halton: the bases used are checked to be exactly `dimension` primes from the
    sieve before use; each base's sequence has num_points+1 terms of which the
    first is dropped; the van der Corput recurrence divides by the base,
    multiplies the denominator *before* adding remainder/denominator; points are
    scaled unit-affinely with the bounds of the same column.
R4  LHS: cut points linspace(0, 1, N+1); one draw per stratum a + u*(b-a) with
    a = cut[:N], b = cut[1:N+1], column by column; each output column is its own
    stratified column indexed by a permutation of range(N); the default
    criterion uses this classic construction; unit-affine scaling.
R5  builders take one level list per declared parameter.
"""
import ast

from ..astutil import (text, access_path, calls_in, func_params, stmts_of, is_const, const_value, method_call, range_bounds, single_defs, canon)
from ..loader import where, AnalysisError
from ..paths import Enumerator
from .. import poly


def r1_random(ctx, repo):
    cls = repo.cls("RandomGenerator", "operators")
    fn = cls.methods.get("generate")
    C = "RandomGenerator.generate"
    if fn is None:
        raise AnalysisError("RandomGenerator.generate not found")
    selfn = func_params(fn)[0]
    loops = [s for s in fn.body if isinstance(s, ast.For)]
    rets = [s for s in fn.body if isinstance(s, ast.Return)]
    ok = False
    detail = "shape not recognised"
    if len(loops) == 1 and rets and isinstance(rets[-1].value, ast.Name):
        lp = loops[0]
        rb = range_bounds(lp.iter)
        out = rets[-1].value.id
        if rb and (rb[0] is None or text(rb[0]) == "0") and text(rb[1]) == selfn + ".number" and rb[2] is None:
            n_ok = True
            for p in Enumerator(loop_counts=(0, 1)).function_paths(ast.FunctionDef(name="b", args=fn.args, body=lp.body, decorator_list=[], returns=None, type_comment=None, lineno=0, col_offset=0)):
                defs = {}
                apps = []
                for e in p.events:
                    if e.kind == "stmt":
                        if isinstance(e.node, ast.Assign) and isinstance(e.node.targets[0], ast.Name):
                            defs[e.node.targets[0].id] = e.node.value
                        for c in calls_in(e.node):
                            mc = method_call(c)
                            if mc and access_path(mc[0]) == out and mc[1] == "append":
                                apps.append(canon(c.args[0], defs))
                if len(apps) != 1 or not (isinstance(apps[0], ast.Call) and (access_path(apps[0].func) or "").endswith("gen_vector")
                                          and apps[0].args and access_path(apps[0].args[0]) == selfn + ".parameters"):
                    n_ok = False
            ok = n_ok
            detail = "exactly `number` designs, each gen_vector(self.parameters)" if ok else "an iteration does not append exactly one gen_vector(self.parameters)"
        else:
            detail = "the loop %s does not produce exactly `number` designs" % text(lp.iter)
    ctx.check3(True if ok else (None if detail == "shape not recognised" else False), "R1", C, where(cls.module, fn), detail, detail, detail)


def r2_grid(ctx, repo):
    cls = repo.cls("UniformGenerator", "operators")
    fn = cls.methods.get("generate")
    C = "UniformGenerator.generate"
    selfn = func_params(fn)[0]
    defs = single_defs(fn)
    ploops = [s for s in fn.body if isinstance(s, ast.For) and access_path(s.iter) == selfn + ".parameters"]
    if len(ploops) != 1:
        ctx.inconclusive("R2", C, where(cls.module, fn), "parameter loop not found")
        return
    pl = ploops[0]
    pv = pl.target.id
    inner = [s for s in pl.body if isinstance(s, ast.For) and range_bounds(s.iter)]
    ok_levels = False
    detail = "level loop not found"
    cols = None
    if len(inner) == 1:
        il = inner[0]
        rb = range_bounds(il.iter)
        i = il.target.id
        app = [c for c in calls_in(il) if method_call(c) and method_call(c)[1] == "append"]
        if app and (rb[0] is None or text(rb[0]) == "0") and text(rb[1]) == selfn + ".number" and rb[2] is None:
            ldefs = dict(defs)
            ldefs.update(single_defs(ast.FunctionDef(name="x", args=fn.args, body=pl.body, decorator_list=[], returns=None, type_comment=None, lineno=0, col_offset=0)))
            e = canon(app[0].args[0], ldefs)
            want = poly.parse("{p}['bounds'][0] + {i} * ({p}['bounds'][1] - {p}['bounds'][0]) / ({s}.number - 1)".format(p=pv, i=i, s=selfn))
            eq = poly.equal(e, want)
            ok_levels = bool(eq)
            recv = method_call(app[0])[0]
            cols = access_path(recv.value) if isinstance(recv, ast.Subscript) else access_path(recv)
            detail = "k levels lo + i*(hi-lo)/(k-1), i in [0,k)" if ok_levels else "level %s is not lo + i*(hi-lo)/(k-1)" % text(e)
        else:
            detail = "levels generated over %s, not range(k)" % text(il.iter)
    ctx.check3(True if ok_levels else (None if detail == "level loop not found" else False), "R2", C, where(cls.module, pl), detail, detail, detail, key="levels")
    # a fresh column list per parameter
    fresh = any(isinstance(s, ast.Expr) and method_call(s.value) and method_call(s.value)[1] == "append" and isinstance(s.value.args[0], ast.List) and not s.value.args[0].elts
                for s in pl.body)
    prod = [c for c in calls_in(fn) if access_path(c.func) in ("itertools.product", "product")]
    okp = False
    if prod and cols:
        a = prod[0].args
        okp = len(a) == 1 and isinstance(a[0], ast.Starred) and access_path(a[0].value) == cols and not prod[0].keywords
    plp = [s for s in fn.body if isinstance(s, ast.For) and prod and prod[0] in list(ast.walk(s.iter))]
    one_each = False
    if plp:
        apps = [c for c in calls_in(plp[0]) if method_call(c) and method_call(c)[1] == "append"]
        one_each = len(apps) == 1 and text(apps[0].args[0]) in ("list(%s)" % access_path(plp[0].target), access_path(plp[0].target) or "") and \
            not any(isinstance(s, (ast.If, ast.Break, ast.Continue)) for s in stmts_of(plp[0]))
    ctx.check(fresh and okp and one_each, "R2", C, where(cls.module, fn), "one level column per parameter, full Cartesian product, every combination appended once" if (fresh and okp and one_each) else
              "the result is not the full Cartesian product of the per-parameter level columns (fresh column=%s, product(*columns)=%s, one append per combination=%s)" % (fresh, okp, one_each), key="product")


def r3_halton(ctx, repo):
    doe = repo.module("doe")
    fn = doe.functions.get("halton")
    vdc = doe.functions.get("_van_der_corput")
    if fn is None or vdc is None:
        raise AnalysisError("halton / _van_der_corput not found in doe.py")
    C = "doe.halton"
    npts, dim = func_params(fn)[:2]
    # the statement that builds the per-base sequences
    build = [s for s in stmts_of(fn) if isinstance(s, ast.Assign) and isinstance(s.value, ast.ListComp)
             and any((access_path(c.func) or "") == "_van_der_corput" for c in calls_in(s.value))]
    if len(build) != 1:
        ctx.inconclusive("R3", C, where(doe, fn), "per-base sequence construction not recognised", key="bases")
        return
    b = build[0]
    bases_var = access_path(b.value.generators[0].iter)
    # path rule: on every path reaching the construction, len(bases) == dimension was established after the last assignment of bases
    bad = None
    npaths = 0
    for p in Enumerator(loop_counts=(1, 2)).function_paths(fn):
        idx = p.index(lambda e: e.kind == "stmt" and e.node is b)
        if idx < 0:
            continue
        npaths += 1
        last_def = max([i for i, e in enumerate(p.events[:idx]) if e.kind == "stmt" and isinstance(e.node, ast.Assign) and any(access_path(t) == bases_var for t in e.node.targets)] or [-1])
        if last_def < 0:
            bad = bad or (p, "the bases are not defined before use")
            continue
        d = p.events[last_def].node.value
        from_sieve = any((access_path(c.func) or "") == "_primes_from_2_to" for c in calls_in(d)) and isinstance(d, ast.Subscript) and isinstance(d.slice, ast.Slice) \
            and d.slice.lower is None and access_path(d.slice.upper) == dim
        if not from_sieve:
            bad = bad or (p, "the bases are %s, not the first `dimension` primes of the sieve" % text(d))
        checked = any(e.kind == "guard" and e.val and isinstance(e.node, ast.Compare) and isinstance(e.node.ops[0], ast.Eq)
                      and {text(e.node.left), text(e.node.comparators[0])} == {"len(%s)" % bases_var, dim} for e in p.events[last_def:idx])
        if not checked:
            bad = bad or (p, "the sieve result is used without checking that it contains `dimension` primes: for some dimensions fewer bases (hence fewer coordinates) are produced")
    if bad:
        ctx.violated("R3", C, where(doe, b), bad[1] + " (path [%s])" % bad[0].describe(4), key="bases")
    elif npaths == 0:
        ctx.inconclusive("R3", C, where(doe, fn), "no path reaches the sequence construction", key="bases")
    else:
        ctx.holds("R3", C, where(doe, b), "bases = first `dimension` primes of the sieve, length checked before use (%d paths)" % npaths, key="bases")
    # num_points + 1 terms, first dropped, one column per base
    call = [c for c in calls_in(b.value) if (access_path(c.func) or "") == "_van_der_corput"][0]
    n_arg = call.args[0] if call.args else None
    base_arg = call.args[1] if len(call.args) > 1 else None
    ok_terms = n_arg is not None and bool(poly.equal(n_arg, poly.parse("%s + 1" % npts))) and access_path(base_arg) == access_path(b.value.generators[0].target)
    stack = [s for s in stmts_of(fn) if isinstance(s, ast.Assign) and isinstance(s.value, ast.Subscript) and isinstance(s.value.slice, ast.Slice)
             and any((access_path(c.func) or "").endswith("stack") for c in calls_in(s.value))]
    ok_drop = False
    if stack:
        sl = stack[0].value.slice
        ok_drop = sl.lower is not None and is_const(sl.lower) and const_value(sl.lower) == 1 and sl.upper is None
        axis = [k.value for c in calls_in(stack[0].value) for k in c.keywords if k.arg == "axis"]
        ok_drop = ok_drop and axis and is_const(axis[0]) and const_value(axis[0]) in (-1, 1)
    if ok_terms and ok_drop:
        ctx.holds("R3", C, where(doe, b), "each base yields terms 0..num_points of its sequence, term 0 (=0) dropped: point i uses term i", key="burn-in")
    else:
        ctx.violated("R3", C, where(doe, b), "the i-th point does not use the i-th radical inverse: sequence length %s / dropped slice %s" % (text(n_arg) if n_arg is not None else "?", text(stack[0].value.slice) if stack else "missing"), key="burn-in")
    # van der Corput recurrence
    C2 = "doe._van_der_corput"
    ns, base = func_params(vdc)[:2]
    wl = [s for s in stmts_of(vdc) if isinstance(s, ast.While)]
    ok = False
    detail = "digit loop not recognised"
    if len(wl) == 1:
        body = wl[0].body
        dm = [i for i, s in enumerate(body) if isinstance(s, ast.Assign) and isinstance(s.value, ast.Call) and access_path(s.value.func) == "divmod"
              and len(s.value.args) == 2 and access_path(s.value.args[1]) == base]
        den = [i for i, s in enumerate(body) if isinstance(s, ast.AugAssign) and isinstance(s.op, ast.Mult) and access_path(s.value) == base]
        acc = [i for i, s in enumerate(body) if isinstance(s, ast.AugAssign) and isinstance(s.op, ast.Add) and isinstance(s.value, ast.BinOp) and isinstance(s.value.op, ast.Div)]
        any_dm = [s_ for s_ in body if isinstance(s_, ast.Assign) and isinstance(s_.value, ast.Call) and access_path(s_.value.func) == "divmod" and len(s_.value.args) == 2]
        if any_dm and not dm:
            detail = "digits are extracted with %s, not in the base of the sequence (`%s`)" % (text(any_dm[0].value), base)
        any_den = [s_ for s_ in body if isinstance(s_, ast.AugAssign) and isinstance(s_.op, ast.Mult)]
        if dm and any_den and not den:
            detail = "the denominator is multiplied by %s, not by the base" % text(any_den[0].value)
        if dm and den and acc:
            dvar = access_path(body[den[0]].target)
            quot, rem = [access_path(e) for e in body[dm[0]].targets[0].elts] if isinstance(body[dm[0]].targets[0], ast.Tuple) else (None, None)
            a = body[acc[0]].value
            uses = access_path(a.left) == rem and access_path(a.right) == dvar
            if not (dm[0] < acc[0]):
                detail = "the digit is used before it is extracted"
            elif not (den[0] < acc[0]):
                detail = "the denominator is multiplied by the base AFTER the digit was added: every digit is weighted one place too high"
            elif not uses:
                detail = "the accumulated term %s is not remainder / denominator" % text(a)
            elif access_path(body[dm[0]].value.args[0]) != quot or not (isinstance(wl[0].test, ast.Compare) and access_path(wl[0].test.left) == quot):
                detail = "the quotient is not carried into the next digit extraction"
            else:
                ok = True
        init = [s for s in stmts_of(vdc) if isinstance(s, ast.Assign) and isinstance(s.targets[0], ast.Tuple) and isinstance(s.value, ast.Tuple)]
        if ok and init:
            vals = [const_value(v) if is_const(v) else None for v in init[0].value.elts]
            if vals != [0.0, 1.0]:
                ok, detail = False, "accumulator/denominator start at %r, expected (0, 1)" % (vals,)
    state = True if ok else (None if detail == "digit loop not recognised" else False)
    if state is None:
        # a digit count taken from a truncated ratio of floating-point logarithms is a recognised defect
        for c_ in calls_in(vdc):
            if access_path(c_.func) == "int" and c_.args and any(isinstance(x, ast.Call) and (access_path(x.func) or "").split(".")[-1] in ("log", "log2", "log10") for x in ast.walk(c_.args[0])) \
                    and any(isinstance(x, ast.BinOp) and isinstance(x.op, ast.Div) for x in ast.walk(c_.args[0])):
                state = False
                detail = ("the number of digits is computed as %s: a ratio of floating-point logarithms under-counts by one when the index is an exact power of the base "
                          "(log(243)/log(3) = 4.999...), so the last digit of such indices is dropped" % text(c_))
    ctx.check3(state, "R3", C2, where(doe, vdc), "radical-inverse recurrence: i, r = divmod(i, base); denom *= base; x += r / denom, from (0, 1)", detail, detail, key="recurrence")
    # wiring
    bh = doe.functions.get("build_halton")
    c = [c for c in calls_in(bh) if access_path(c.func) == "halton"]
    okw = False
    if c:
        kw = {k.arg: text(k.value) for k in c[0].keywords}
        args = [text(a) for a in c[0].args]
        okw = (kw.get("num_points", args[0] if args else None) == "num_samples") and (kw.get("dimension", args[1] if len(args) > 1 else None) == "factor_count")
    sc = any(access_path(c2.func) == "construct_df_from_random_matrix" for c2 in calls_in(bh))
    wstate = True if (okw and sc) else (False if (c and not okw) else None)
    ctx.check3(wstate, "R3", "doe.build_halton", where(doe, bh), "halton(num_samples, number of declared parameters), scaled by the unit-affine map (C08-R3)",
               "halton is not called with (number of samples, number of declared parameters): %s" % (text(c[0]) if c else ""), "wiring not recognised", key="wiring")
    ctx.assume("primality of the sieve _primes_from_2_to and the equivalence recurrence = radical inverse are a theorem/pattern, not re-proved")


def r4_lhs(ctx, repo):
    doe = repo.module("doe")
    fn = doe.functions.get("_lhsclassic")
    if fn is None:
        raise AnalysisError("_lhsclassic not found")
    C = "doe._lhsclassic"
    n, samples, rs = func_params(fn)[:3]
    defs = {}
    for s in fn.body:
        if isinstance(s, ast.Assign) and isinstance(s.targets[0], ast.Name):
            defs[s.targets[0].id] = s.value
    problems = []
    cut = [k for k, v in defs.items() if isinstance(v, ast.Call) and (access_path(v.func) or "").endswith("linspace")]
    if not cut:
        problems.append("cut points are not built with linspace")
    else:
        v = defs[cut[0]]
        a = v.args
        if not (len(a) == 3 and is_const(a[0]) and const_value(a[0]) == 0 and is_const(a[1]) and const_value(a[1]) == 1 and poly.equal(a[2], poly.parse("%s + 1" % samples))):
            problems.append("cut points are %s, expected linspace(0, 1, N+1)" % text(v))
    cv = cut[0] if cut else None
    lo = [k for k, v in defs.items() if isinstance(v, ast.Subscript) and access_path(v.value) == cv and isinstance(v.slice, ast.Slice) and v.slice.lower is None
          and access_path(v.slice.upper) == samples]
    hi = [k for k, v in defs.items() if isinstance(v, ast.Subscript) and access_path(v.value) == cv and isinstance(v.slice, ast.Slice) and v.slice.lower is not None
          and is_const(v.slice.lower) and const_value(v.slice.lower) == 1 and (v.slice.upper is None or poly.equal(v.slice.upper, poly.parse("%s + 1" % samples)))]
    if not lo or not hi:
        problems.append("stratum ends are not cut[:N] and cut[1:N+1]")
    u = [k for k, v in defs.items() if isinstance(v, ast.Call) and (access_path(v.func) or "").endswith(".rand") and [text(x) for x in v.args] == [samples, n]]
    if not u:
        problems.append("the unit draws are not rand(N, n)")
    loops = [s for s in fn.body if isinstance(s, ast.For) and range_bounds(s.iter) and text(range_bounds(s.iter)[1]) == n]
    strat = perm = None
    for lp in loops:
        j = lp.target.id
        for s in lp.body:
            if isinstance(s, ast.Assign) and isinstance(s.targets[0], ast.Subscript) and isinstance(s.value, ast.BinOp):
                strat = (lp, j, s)
            if isinstance(s, ast.Assign) and isinstance(s.targets[0], ast.Subscript) and isinstance(s.value, ast.Subscript):
                perm = (lp, j, s)
    if strat is None or not (lo and hi and u):
        problems.append("stratified column construction not found")
    else:
        lp, j, s = strat
        from .c16 import subst
        ucol = "%s[:, %s]" % (u[0], j)
        e = subst(s.value, {ucol: "U", lo[0]: "A", hi[0]: "B"})
        if not poly.equal(e, poly.parse("A + U * (B - A)")):
            problems.append("stratified draw %s is not a + u*(b-a) with u the column %s" % (text(s.value), ucol))
        if text(s.targets[0].slice) != "(slice(None, None, None), %s)" % j and not text(s.targets[0]).endswith("[:, %s]" % j):
            problems.append("the stratified column is stored at %s, not at column %s" % (text(s.targets[0]), j))
        strat_var = access_path(s.targets[0].value)
    if perm is None:
        problems.append("per-column permutation not found")
    elif strat is not None:
        lp, j, s = perm
        order = [x for x in lp.body if isinstance(x, ast.Assign) and isinstance(x.value, ast.Call) and (access_path(x.value.func) or "").endswith(".permutation")]
        if not order or text(order[0].value.args[0]) not in ("range(%s)" % samples, samples):
            problems.append("rows are not reordered by a permutation of range(N) drawn inside the column loop")
        else:
            ov = access_path(order[0].targets[0])
            if text(s.value) != "%s[%s, %s]" % (strat_var, ov, j) or not text(s.targets[0]).endswith("[:, %s]" % j):
                problems.append("output column %s is %s: it must be its own stratified column indexed by the permutation" % (j, text(s.value)))
            if lp.body.index(order[0]) > lp.body.index(s):
                problems.append("the permutation is drawn after it is used")
    rets = [s for s in fn.body if isinstance(s, ast.Return)]
    if perm is not None and rets and access_path(rets[-1].value) != access_path(perm[2].targets[0].value):
        problems.append("the permuted matrix is not what is returned")
    if problems:
        ctx.violated("R4", C, where(doe, fn), "; ".join(problems), key="strata")
    else:
        ctx.holds("R4", C, where(doe, fn), "N strata from linspace(0,1,N+1); one draw a + u*(b-a) per stratum and column; each column permuted independently", key="strata")
    # default criterion -> classic
    lf = doe.functions.get("lhs")
    okd = False
    def infeasible(p):
        # `X is None` taken true after X was bound to the result of a function whose every return yields a value
        bound = set()
        for e in p.events:
            if e.kind == "stmt" and isinstance(e.node, ast.Assign) and isinstance(e.node.targets[0], ast.Name):
                v = e.node.value
                if isinstance(v, ast.Call) and access_path(v.func) in doe.functions and all(
                        r.value is not None for r in stmts_of(doe.functions[access_path(v.func)]) if isinstance(r, ast.Return)):
                    bound.add(e.node.targets[0].id)
                else:
                    bound.discard(e.node.targets[0].id)
            if e.kind == "guard" and isinstance(e.node, ast.Compare) and isinstance(e.node.ops[0], ast.Is) and text(e.node.comparators[0]) == "None" \
                    and access_path(e.node.left) in bound and e.val:
                return True
        return False
    for p in Enumerator(loop_counts=(0, 1)).function_paths(lf):
        if infeasible(p):
            continue
        crit_none = [e for e in p.events if e.kind == "guard" and text(e.node) in ("criterion is not None", "criterion is None")]
        if crit_none:
            g = crit_none[0]
            is_none = g.val if "is None" in text(g.node) and "not" not in text(g.node) else not g.val
            if is_none and p.outcome == "return":
                uses = any(e.kind == "stmt" and any(access_path(c.func) == "_lhsclassic" for c in calls_in(e.node)) for e in p.events)
                others = any(e.kind == "stmt" and any((access_path(c.func) or "") in ("_lhscentered", "_lhsmaximin", "_lhscorrelate", "_lhsmu") for c in calls_in(e.node)) for e in p.events)
                okd = uses and not others
                if not okd:
                    break
    bl = doe.functions.get("build_lhs")
    c = [c for c in calls_in(bl) if access_path(c.func) == "lhs"]
    okw = bool(c) and not any(k.arg == "criterion" for k in c[0].keywords) and {k.arg: text(k.value) for k in c[0].keywords}.get("samples") == "num_samples" \
        and {k.arg: text(k.value) for k in c[0].keywords}.get("n") == "factor_count"
    dstate = True if (okd and okw) else (False if (c and (not okw or not okd)) else None)
    ctx.check3(dstate, "R4", "doe.lhs/build_lhs", where(doe, lf), "build_lhs calls lhs(n=#parameters, samples=N) without criterion, which takes the classic construction",
               "the default Latin-hypercube path does not run the classic one-sample-per-stratum construction with (n=#parameters, samples=N)", "wiring not recognised", key="default-criterion")


def r5_arity(ctx, repo):
    for gname in ("LHSGenerator", "HaltonGenerator"):
        g = repo.cls(gname, "operators")
        fn = g.methods.get("generate")
        selfn = func_params(fn)[0]
        loops = [s for s in fn.body if isinstance(s, ast.For) and access_path(s.iter) == selfn + ".parameters"]
        ok = len(loops) == 1 and any(isinstance(s, ast.Assign) and isinstance(s.targets[0], ast.Subscript) for s in loops[0].body) \
            and not any(isinstance(s, (ast.If, ast.Continue, ast.Break)) for s in stmts_of(loops[0]))
        c = [c for c in calls_in(fn) if (access_path(c.func) or "") in ("build_lhs", "build_halton")]
        okn = bool(c) and any(k.arg == "num_samples" and text(k.value) == selfn + ".number" for k in c[0].keywords)
        astate = True if (ok and okn) else (False if (c and not okn) else None)
        ctx.check3(astate, "R5", "%s.generate" % gname, where(g.module, fn), "one [lo, hi] entry per declared parameter; num_samples = requested number",
                   "the generator does not pass its requested number of samples to the builder (%s)" % (text(c[0]) if c else ""), "generator shape not recognised", key="arity")


def run(ctx):
    for rid, doc in (("R1", "random generator count"), ("R2", "uniform grid levels and Cartesian product"), ("R3", "Halton bases, burn-in, recurrence, wiring"),
                     ("R4", "LHS strata, stratum draw, independent permutations, default criterion"), ("R5", "one coordinate per declared parameter")):
        ctx.rule(rid, doc)
    ctx.axiom("np.linspace(0,1,k+1) are the k+1 equidistant cut points; RandomState.rand in [0,1); RandomState.permutation(range(n)) is a permutation; itertools.product is the full Cartesian product")
    ctx.assume("array contents as numeric facts are not decided; the optimised LHS variants (center/maximin/correlation/lhsmu) are outside the claim")
    r1_random(ctx, ctx.repo)
    r2_grid(ctx, ctx.repo)
    r3_halton(ctx, ctx.repo)
    r4_lhs(ctx, ctx.repo)
    r5_arity(ctx, ctx.repo)
