"""C12 - space-filling samplers have their defining coverage structure (structure rules).

R1  random generator: one gen_vector(parameters) per requested design.
R2  uniform grid: k equally spaced levels lo + i*(hi-lo)/(k-1), i in [0,k), per
    parameter, full Cartesian product (itertools.product), one list per
    combination.
R3  Halton: the bases used are checked to be exactly `dimension` primes from the
    sieve before use; each base's sequence has num_points+1 terms of which the
    first is dropped; the van der Corput recurrence divides by the base,
    multiplies the denominator *before* adding remainder/denominator; points are
    scaled unit-affinely with the bounds of the same column.
R4  LHS: cut points linspace(0, 1, N+1); one draw per stratum a + u*(b-a) with
    a = cut[:N], b = cut[1:N+1], column by column; each output column is its own
    stratified column indexed by a permutation of range(N); the default
    criterion uses this classic construction; unit-affine scaling.
R5  builders take one level list per declared parameter.
R6  the unit samples of LHS and Halton are mapped to the bounds by
    lo + w*(hi-lo) with the bounds of the same column, for every lo <= hi
    (absolute values resolved by the signs the bounds allow; the rule is the
    one C08 uses for containment, re-derived here because a wrong span also
    moves the strata and the radical-inverse law).
"""
import ast

from ..astutil import (text, access_path, calls_in, func_params, stmts_of, is_const, const_value, method_call, range_bounds, single_defs, canon)
from ..loader import where, AnalysisError
from ..paths import Enumerator
from ..terms import Terms, PathEnv, canonical
from .. import poly


def r1_random(ctx, repo):
    cls = repo.cls("RandomGenerator", "operators")
    fn = cls.methods.get("generate")
    C = "RandomGenerator.generate"
    if fn is None:
        raise AnalysisError("RandomGenerator.generate not found")
    selfn = func_params(fn)[0]
    loops = [s for s in fn.body if isinstance(s, ast.For)]
    rets = [s for s in fn.body if isinstance(s, ast.Return)]
    ok = False
    detail = "shape not recognised"
    if len(loops) == 1 and rets and isinstance(rets[-1].value, ast.Name):
        lp = loops[0]
        rb = range_bounds(lp.iter)
        out = rets[-1].value.id
        if rb and (rb[0] is None or text(rb[0]) == "0") and text(rb[1]) == selfn + ".number" and rb[2] is None:
            n_ok = True
            for p in Enumerator(loop_counts=(0, 1)).function_paths(ast.FunctionDef(name="b", args=fn.args, body=lp.body, decorator_list=[], returns=None, type_comment=None, lineno=0, col_offset=0)):
                defs = {}
                apps = []
                for e in p.events:
                    if e.kind == "stmt":
                        if isinstance(e.node, ast.Assign) and isinstance(e.node.targets[0], ast.Name):
                            defs[e.node.targets[0].id] = e.node.value
                        for c in calls_in(e.node):
                            mc = method_call(c)
                            if mc and access_path(mc[0]) == out and mc[1] == "append":
                                apps.append(canon(c.args[0], defs))
                if len(apps) != 1 or not (isinstance(apps[0], ast.Call) and (access_path(apps[0].func) or "").endswith("gen_vector")
                                          and apps[0].args and access_path(apps[0].args[0]) == selfn + ".parameters"):
                    n_ok = False
            ok = n_ok
            detail = "exactly `number` designs, each gen_vector(self.parameters)" if ok else "an iteration does not append exactly one gen_vector(self.parameters)"
        else:
            detail = "the loop %s does not produce exactly `number` designs" % text(lp.iter)
    ctx.check3(True if ok else (None if detail == "shape not recognised" else False), "R1", C, where(cls.module, fn), detail, detail, detail)


def r2_grid(ctx, repo):
    cls = repo.cls("UniformGenerator", "operators")
    fn = cls.methods.get("generate")
    C = "UniformGenerator.generate"
    selfn = func_params(fn)[0]
    from ..astutil import loose_isclose
    li = loose_isclose(fn)
    if li:
        c_, relv, absv = li[0]
        ctx.violated("R2", C, where(cls.module, c_), "a level is left out when it is close to another one (%s, relative %g, absolute %g): for a parameter whose grid spacing is below that "
                     "tolerance (small bounds, or a narrow range at a large offset) distinct levels are merged, the parameter gets fewer than k levels and the grid does not reach the "
                     "upper bound" % (text(c_)[:70], relv, absv))
        return
    T = Terms(fn)
    ploops = [s for s in fn.body if isinstance(s, ast.For) and access_path(T.expand(s.iter, at=s)) == selfn + ".parameters"]
    if len(ploops) != 1 or not isinstance(ploops[0].target, ast.Name):
        ctx.inconclusive("R2", C, where(cls.module, fn), "parameter loop not found")
        return
    pl = ploops[0]
    pv = pl.target.id
    # the list of columns: the receiver of the append that is executed once per parameter
    col_apps = [s for s in pl.body if isinstance(s, ast.Expr) and method_call(s.value) and method_call(s.value)[1] == "append"
                and isinstance(method_call(s.value)[0], ast.Name) and len(s.value.args) == 1]
    cols = access_path(method_call(col_apps[0].value)[0]) if len(col_apps) == 1 else None
    # the k levels of one column: (element expression, index name, range) however the column is filled
    level = None
    fresh = False
    if cols is not None:
        ca = col_apps[0]
        arg = ca.value.args[0]
        after = T.expand_after(arg, ca) if isinstance(arg, ast.Name) else arg
        argx = T.expand(arg, at=ca)
        inner = [s for s in pl.body if isinstance(s, ast.For)]
        if isinstance(argx, ast.ListComp) and len(argx.generators) == 1 and not argx.generators[0].ifs and isinstance(argx.generators[0].target, ast.Name):
            # column built first (loop or comprehension), then appended
            fresh = True
            level = (argx.elt, argx.generators[0].target.id, range_bounds(argx.generators[0].iter), ca)
        elif len(inner) == 1 and isinstance(inner[0].target, ast.Name):
            il = inner[0]
            apps = [(st_, c) for st_ in stmts_of(il) if isinstance(st_, ast.Expr) for c in [st_.value] if method_call(c) and method_call(c)[1] == "append" and len(c.args) == 1]
            empty = isinstance(argx, ast.List) and not argx.elts
            if len(apps) == 1 and empty and pl.body.index(ca) < pl.body.index(il):
                recv = method_call(apps[0][1])[0]
                same = (isinstance(arg, ast.Name) and access_path(recv) == arg.id) or \
                       (isinstance(arg, ast.List) and isinstance(recv, ast.Subscript) and access_path(recv.value) == cols and text(recv.slice) == "-1")
                if same and not any(isinstance(x, (ast.If, ast.Break, ast.Continue)) for x in stmts_of(il)):
                    fresh = True
                    level = (T.expand(apps[0][1].args[0], at=apps[0][0]), il.target.id, range_bounds(T.expand(il.iter, at=il)), apps[0][0])
    ok_levels = None
    detail = "level construction not recognised"
    if level is not None:
        e, i, rb, at_ = level
        if rb and (rb[0] is None or text(rb[0]) == "0") and text(rb[1]) == selfn + ".number" and rb[2] is None:
            want = poly.parse("{p}['bounds'][0] + {i} * ({p}['bounds'][1] - {p}['bounds'][0]) / ({s}.number - 1)".format(p=pv, i=i, s=selfn))
            eq = poly.equal(e, want)
            ok_levels = None if eq is None else bool(eq)
            detail = "k levels lo + i*(hi-lo)/(k-1), i in [0,k)" if ok_levels else "level %s is not lo + i*(hi-lo)/(k-1)" % text(e)
        elif rb:
            same = (rb[0] is None or text(rb[0]) == "0") and rb[2] is None and poly.equal(rb[1], poly.parse(selfn + ".number"))
            trunc = any(isinstance(x, ast.Call) and access_path(x.func) in ("int", "math.floor", "np.floor", "math.trunc") and x.args
                        and any(isinstance(y, ast.BinOp) and isinstance(y.op, (ast.Div, ast.FloorDiv)) for y in ast.walk(x.args[0])) for x in ast.walk(rb[1]))
            if same:
                want = poly.parse("{p}['bounds'][0] + {i} * ({p}['bounds'][1] - {p}['bounds'][0]) / ({s}.number - 1)".format(p=pv, i=i, s=selfn))
                eq = poly.equal(e, want)
                ok_levels = None if eq is None else bool(eq)
                detail = "k levels lo + i*(hi-lo)/(k-1), i in [0,k)" if ok_levels else "level %s is not lo + i*(hi-lo)/(k-1)" % text(e)
            elif trunc:
                ok_levels = False
                detail = ("the number of levels is %s: a truncated floating-point quotient, which is one short whenever the division lands just below an integer "
                          "((hi-lo)/((hi-lo)/(k-1)) < k-1 for some bounds), so the upper bound is dropped and the grid has fewer than k^n points" % text(rb[1]))
            elif (rb[0] is not None and text(rb[0]) != "0") or rb[2] is not None or poly.equal(rb[1], poly.parse(selfn + ".number")) is False:
                ok_levels = False
                detail = "levels generated over range(%s), not range(k)" % ", ".join(text(x) for x in rb if x is not None)
            else:
                ok_levels = None
                detail = "number of levels %s not recognised" % text(rb[1])
    ctx.check3(ok_levels, "R2", C, where(cls.module, pl), detail, detail, detail, key="levels")
    # full Cartesian product of the columns, every combination once
    rts = [T.expand(st_.value, at=st_, skip=(cols,) if cols else ()) for st_, t in T.returns if t is not None]
    state = None
    why = "returned value not recognised as the list of all combinations"
    if len(rts) == 1 and cols is not None:
        rt = rts[0]
        if isinstance(rt, ast.ListComp) and len(rt.generators) == 1 and isinstance(rt.generators[0].target, ast.Name):
            g = rt.generators[0]
            v = g.target.id
            it = g.iter
            is_prod = isinstance(it, ast.Call) and access_path(it.func) in ("itertools.product", "product")
            if isinstance(it, ast.Call) and access_path(it.func) in ("zip", "itertools.zip_longest", "zip_longest"):
                state = False
                why = "the columns are combined with %s: only the diagonal of the grid (one design per level index) is produced, not all combinations" % text(it)
            if is_prod:
                cols_term = T.final[0].get(cols) if T.final and T.final[0] else None
                for st_, _t in T.returns:
                    cols_term = T.before.get(id(st_), ({}, set()))[0].get(cols, cols_term)
                okp = len(it.args) == 1 and isinstance(it.args[0], ast.Starred) and not it.keywords and (
                    access_path(it.args[0].value) == cols or (cols_term is not None and text(it.args[0].value) == text(cols_term)))
                one_each = not g.ifs and text(rt.elt) in ("list(%s)" % v, v, "[*%s]" % v)
                state = True if (fresh and okp and one_each) else (None if (okp and one_each) else False)
                why = "the result is not the full Cartesian product of the per-parameter level columns (fresh column per parameter=%s, product(*columns)=%s, every combination once=%s)" % (fresh, okp, one_each)
    ctx.check3(state, "R2", C, where(cls.module, fn), "one level column per parameter, full Cartesian product, every combination appended once", why, why, key="product")


def r3_halton(ctx, repo):
    doe = repo.module("doe")
    fn = doe.functions.get("halton")
    vdc = doe.functions.get("_van_der_corput")
    if fn is None or vdc is None:
        raise AnalysisError("halton / _van_der_corput not found in doe.py")
    C = "doe.halton"
    npts, dim = func_params(fn)[:2]
    # the returned sample as a term: stack([vdc(N, b) for b in BASES], axis)[1:]
    T = Terms(fn)
    rts = [t for _, t in T.returns if t is not None]
    comp = None
    for t in rts:
        for n in ast.walk(t):
            if isinstance(n, (ast.ListComp, ast.GeneratorExp)) and len(n.generators) == 1 \
                    and any((access_path(c.func) or "") == "_van_der_corput" for c in calls_in(n.elt)):
                comp = n
    if len(rts) != 1 or comp is None:
        ctx.inconclusive("R3", C, where(doe, fn), "per-base sequence construction not recognised", key="bases")
        return
    rt = rts[0]
    bases_var = access_path(comp.generators[0].iter)
    if bases_var is None:
        d = comp.generators[0].iter
        sieve = any((access_path(c.func) or "") == "_primes_from_2_to" for c in calls_in(d)) and isinstance(d, ast.Subscript) and isinstance(d.slice, ast.Slice)
        # a slice of one sieve call, used as it is: nothing can have checked its length
        ctx.check3(False if sieve else None, "R3", C, where(doe, fn), "",
                   "the sieve result %s is used without checking that it contains `dimension` primes: for some dimensions fewer bases (hence fewer coordinates) are produced" % text(d),
                   "the sequences are built over %s, not over a list of bases" % text(d), key="bases")
        return

    def uses_vdc(node):
        return any((access_path(c.func) or "") == "_van_der_corput" for c in calls_in(node))
    # path rule: on every path reaching the construction, len(bases) == dimension was established after the last assignment of bases
    bad = None
    unknown_paths = []
    npaths = 0
    anchor = fn
    for p in Enumerator(loop_counts=(1, 2)).function_paths(fn):
        idx = p.index(lambda e: e.kind in ("stmt", "iter", "return") and e.node is not None and uses_vdc(e.node))
        if idx < 0:
            continue
        anchor = p.events[idx].node
        npaths += 1
        # the value of the bases at the point of use, as a term along this path (aliases and inlined helpers resolved)
        pe = PathEnv(fn, p.events)
        d = pe.expand_at(ast.Name(id=bases_var, ctx=ast.Load()), idx)
        if text(d) == bases_var:
            bad = bad or (p, "the bases are not defined before use")
            continue
        from_sieve = any((access_path(c.func) or "") == "_primes_from_2_to" for c in calls_in(d)) and isinstance(d, ast.Subscript) and isinstance(d.slice, ast.Slice) \
            and d.slice.lower is None and access_path(d.slice.upper) == dim
        if not from_sieve:
            if any((access_path(c.func) or "") == "_primes_from_2_to" for c in calls_in(d)):
                bad = bad or (p, "the bases are %s, not the first `dimension` primes of the sieve" % text(d))
            else:
                unknown_paths.append((p, "the bases are %s: origin not recognised" % text(d)))
            continue
        checked = False
        for i_, e in enumerate(p.events[:idx]):
            if e.kind == "guard" and isinstance(e.node, ast.Compare) and len(e.node.ops) == 1 and isinstance(e.node.ops[0], (ast.Eq, ast.NotEq)):
                sides = [e.node.left, e.node.comparators[0]]
                for a_, b_ in (sides, sides[::-1]):
                    if isinstance(a_, ast.Call) and text(a_.func) == "len" and len(a_.args) == 1 and text(pe.expand_at(b_, i_)) == dim \
                            and text(pe.expand_at(a_.args[0], i_)) == text(d) and bool(e.val) == isinstance(e.node.ops[0], ast.Eq):
                        checked = True
        if not checked:
            bad = bad or (p, "the sieve result is used without checking that it contains `dimension` primes: for some dimensions fewer bases (hence fewer coordinates) are produced")
    if bad:
        ctx.violated("R3", C, where(doe, anchor), bad[1] + " (path [%s])" % bad[0].describe(4), key="bases")
    elif unknown_paths:
        ctx.inconclusive("R3", C, where(doe, anchor), unknown_paths[0][1], key="bases")
    elif npaths == 0:
        ctx.inconclusive("R3", C, where(doe, fn), "no path reaches the sequence construction", key="bases")
    else:
        ctx.holds("R3", C, where(doe, anchor), "bases = first `dimension` primes of the sieve, length checked before use (%d paths)" % npaths, key="bases")
    # num_points + 1 terms, first dropped, one column per base
    call = [c for c in calls_in(comp.elt) if (access_path(c.func) or "") == "_van_der_corput"][0]
    n_arg = call.args[0] if call.args else None
    base_arg = call.args[1] if len(call.args) > 1 else None
    for k_ in call.keywords:
        if k_.arg == "base":
            base_arg = k_.value
        if k_.arg == "n_sample":
            n_arg = k_.value
    ok_terms = n_arg is not None and bool(poly.equal(n_arg, poly.parse("%s + 1" % npts))) and base_arg is not None \
        and access_path(base_arg) == access_path(comp.generators[0].target) and not comp.generators[0].ifs and call is comp.elt
    # rt must be <stack(comp, axis=-1)>[1:]
    ok_drop = None
    sl_text = "missing"
    if isinstance(rt, ast.Subscript) and isinstance(rt.slice, ast.Slice):
        sl = rt.slice
        sl_text = text(sl)
        ok_drop = sl.lower is not None and is_const(sl.lower) and const_value(sl.lower) == 1 and sl.upper is None and sl.step is None
        st_call = rt.value
        if isinstance(st_call, ast.Call) and (access_path(st_call.func) or "").endswith("stack") and st_call.args and st_call.args[0] is comp:
            axis = [k.value for k in st_call.keywords if k.arg == "axis"] + list(st_call.args[1:2])
            ok_drop = bool(ok_drop and axis and is_const(axis[0]) and const_value(axis[0]) in (-1, 1))
        elif ok_drop:
            ok_drop = None      # dropped slice fine, stacking not recognised
    elif uses_vdc(rt) and not any(isinstance(n, ast.Subscript) and isinstance(n.slice, ast.Slice) for n in ast.walk(rt)):
        ok_drop = False         # nothing is dropped at all
    if ok_terms and ok_drop:
        ctx.holds("R3", C, where(doe, anchor), "each base yields terms 0..num_points of its sequence, term 0 (=0) dropped: point i uses term i", key="burn-in")
    elif ok_drop is None and ok_terms:
        ctx.inconclusive("R3", C, where(doe, anchor), "returned sample %s not recognised as stack(...)[1:]" % text(rt)[:120], key="burn-in")
    else:
        ctx.violated("R3", C, where(doe, anchor), "the i-th point does not use the i-th radical inverse: sequence length %s / dropped slice %s" % (text(n_arg) if n_arg is not None else "?", sl_text), key="burn-in")
    # van der Corput recurrence
    C2 = "doe._van_der_corput"
    ns, base = func_params(vdc)[:2]
    wl = [s for s in stmts_of(vdc) if isinstance(s, ast.While)]
    ok = False
    detail = "digit loop not recognised"
    if len(wl) == 1:
        body = wl[0].body
        dm = [i for i, s in enumerate(body) if isinstance(s, ast.Assign) and isinstance(s.value, ast.Call) and access_path(s.value.func) == "divmod"
              and len(s.value.args) == 2 and access_path(s.value.args[1]) == base]
        den = [i for i, s in enumerate(body) if isinstance(s, ast.AugAssign) and isinstance(s.op, ast.Mult) and access_path(s.value) == base]
        acc = [i for i, s in enumerate(body) if isinstance(s, ast.AugAssign) and isinstance(s.op, ast.Add) and isinstance(s.value, ast.BinOp) and isinstance(s.value.op, ast.Div)]
        any_dm = [s_ for s_ in body if isinstance(s_, ast.Assign) and isinstance(s_.value, ast.Call) and access_path(s_.value.func) == "divmod" and len(s_.value.args) == 2]
        if any_dm and not dm:
            detail = "digits are extracted with %s, not in the base of the sequence (`%s`)" % (text(any_dm[0].value), base)
        any_den = [s_ for s_ in body if isinstance(s_, ast.AugAssign) and isinstance(s_.op, ast.Mult)]
        if dm and any_den and not den:
            detail = "the denominator is multiplied by %s, not by the base" % text(any_den[0].value)
        if dm and den and acc:
            dvar = access_path(body[den[0]].target)
            quot, rem = [access_path(e) for e in body[dm[0]].targets[0].elts] if isinstance(body[dm[0]].targets[0], ast.Tuple) else (None, None)
            a = body[acc[0]].value
            uses = access_path(a.left) == rem and access_path(a.right) == dvar
            if not (dm[0] < acc[0]):
                detail = "the digit is used before it is extracted"
            elif not (den[0] < acc[0]):
                detail = "the denominator is multiplied by the base AFTER the digit was added: every digit is weighted one place too high"
            elif not uses:
                detail = "the accumulated term %s is not remainder / denominator" % text(a)
            elif access_path(body[dm[0]].value.args[0]) != quot or not (isinstance(wl[0].test, ast.Compare) and access_path(wl[0].test.left) == quot):
                detail = "the quotient is not carried into the next digit extraction"
            else:
                ok = True
        if ok:
            env0 = Terms(vdc).before.get(id(wl[0]), ({}, set()))[0]
            accv = access_path(body[acc[0]].target)
            vals = [const_value(env0[n_]) if (n_ in env0 and is_const(env0[n_])) else None for n_ in (accv, dvar)]
            if None in vals:
                ok, detail = None, "digit loop not recognised"
            elif vals != [0.0, 1.0]:
                ok, detail = False, "accumulator/denominator start at %r, expected (0, 1)" % (vals,)
    state = True if ok else (None if detail == "digit loop not recognised" else False)
    if state is None:
        # a digit count taken from a truncated ratio of floating-point logarithms is a recognised defect
        for c_ in calls_in(vdc):
            if access_path(c_.func) == "int" and c_.args and any(isinstance(x, ast.Call) and (access_path(x.func) or "").split(".")[-1] in ("log", "log2", "log10") for x in ast.walk(c_.args[0])) \
                    and any(isinstance(x, ast.BinOp) and isinstance(x.op, ast.Div) for x in ast.walk(c_.args[0])):
                state = False
                detail = ("the number of digits is computed as %s: a ratio of floating-point logarithms under-counts by one when the index is an exact power of the base "
                          "(log(243)/log(3) = 4.999...), so the last digit of such indices is dropped" % text(c_))
    ctx.check3(state, "R3", C2, where(doe, vdc), "radical-inverse recurrence: i, r = divmod(i, base); denom *= base; x += r / denom, from (0, 1)", detail, detail, key="recurrence")
    # wiring: the value build_halton returns, as a canonical term
    bh = doe.functions.get("build_halton")
    d_ = func_params(bh)[0]
    ns_ = func_params(bh)[1] if len(func_params(bh)) > 1 else "num_samples"
    rts = [canonical(t) for _, t in Terms(bh).returns if t is not None]
    hcalls = [c for c in calls_in(bh) if access_path(c.func) == "halton"]
    want_w = ("construct_df_from_random_matrix(halton(num_points={n}, dimension=len({d})), np.array([{d}[_0] for _0 in {d}]))".format(n=ns_, d=d_),
              "construct_df_from_random_matrix(halton({n}, len({d})), np.array([{d}[_0] for _0 in {d}]))".format(n=ns_, d=d_))
    wstate = None
    if rts and all(r in want_w for r in rts):
        wstate = True
    elif hcalls:
        # a recognised contradiction: halton called with something else than (samples, number of declared parameters)
        TH = Terms(bh)
        st_ = [x for x in stmts_of(bh) if not isinstance(x, (ast.For, ast.If, ast.While, ast.Try, ast.With)) and hcalls[0] in list(ast.walk(x))]
        kw = {k.arg: k.value for k in hcalls[0].keywords}
        a_ = list(hcalls[0].args)
        npt = kw.get("num_points", a_[0] if a_ else None)
        dm = kw.get("dimension", a_[1] if len(a_) > 1 else None)
        if st_ and npt is not None and dm is not None:
            npx, dmx = text(npt), text(TH.expand(dm, at=st_[0]))
            if dmx != "len(%s)" % d_ or npx != ns_:
                wstate = False
    ctx.check3(wstate, "R3", "doe.build_halton", where(doe, bh), "halton(num_samples, number of declared parameters), scaled by the unit-affine map (C08-R3)",
               "halton is not called with (number of samples, number of declared parameters): %s" % (text(hcalls[0]) if hcalls else ""), "wiring not recognised", key="wiring")
    ctx.assume("primality of the sieve _primes_from_2_to and the equivalence recurrence = radical inverse are a theorem/pattern, not re-proved")


def _perm_domain(T, st, samples):
    """is the argument of the permutation draw 0..N-1 (as a range, an arange, a list or array of it, or the count N)?
    True / False (a range of another length) / None"""
    if not st.value.args:
        return None
    a = T.expand(st.value.args[0], at=st)
    while isinstance(a, ast.Call) and (access_path(a.func) or "").split(".")[-1] in ("asarray", "array", "list", "tuple", "copy") and len(a.args) >= 1:
        a = a.args[0]
    t = text(a)
    if t in ("range(%s)" % samples, "range(0, %s)" % samples, samples, "np.arange(%s)" % samples, "numpy.arange(%s)" % samples, "np.arange(0, %s)" % samples):
        return True
    if isinstance(a, ast.Call) and (access_path(a.func) or "").split(".")[-1] in ("range", "arange") and a.args and not a.keywords \
            and all(isinstance(x, (ast.Name, ast.Constant, ast.BinOp)) for x in a.args):
        return False
    if isinstance(a, (ast.Constant,)) or (isinstance(a, ast.Name) and a.id != samples and T.origin(a.id, st) is None and a.id in [x.arg for x in T.fn.args.args]):
        return False
    return None


def r4_layout(ctx, repo):
    """the design handed out has one row per sample.  A transpose decided by comparing the SHAPE with (samples, n) cannot
    tell the two layouts apart when samples == n: if a builder produces the factor-major layout, the square design is
    returned as it is and every parameter's column is one sample's row"""
    doe = repo.module("doe")
    fn = doe.functions.get("lhs")
    if fn is None:
        return
    ps = func_params(fn)
    for st in [x for x in ast.walk(fn) if isinstance(x, ast.If)]:
        t = st.test
        if not (isinstance(t, ast.Compare) and len(t.ops) == 1 and isinstance(t.ops[0], (ast.NotEq, ast.Eq)) and isinstance(t.left, ast.Attribute) and t.left.attr == "shape"
                and isinstance(t.comparators[0], ast.Tuple) and len(t.comparators[0].elts) == 2):
            continue
        var = access_path(t.left.value)
        branch = st.body if isinstance(t.ops[0], ast.NotEq) else st.orelse
        transposes = [a for a in branch if isinstance(a, ast.Assign) and access_path(a.targets[0]) == var and
                      (text(a.value) in ("%s.T" % var, "%s.transpose()" % var, "np.transpose(%s)" % var, "%s.swapaxes(0, 1)" % var))]
        if not transposes:
            continue
        want = [access_path(e) for e in t.comparators[0].elts]
        # builders called to produce the matrix, and the order in which each of them lays out (rows, columns)
        for a in [x for x in ast.walk(fn) if isinstance(x, ast.Assign) and access_path(x.targets[0]) == var and isinstance(x.value, ast.Call) and isinstance(x.value.func, ast.Name)]:
            g = doe.functions.get(a.value.func.id)
            if g is None:
                continue
            gp = func_params(g)
            amap = {p_: access_path(v_) for p_, v_ in zip(gp, a.value.args)}
            for c in [c for c in ast.walk(g) if isinstance(c, ast.Call) and (access_path(c.func) or "").split(".")[-1] in ("rand", "random", "zeros", "empty", "ones", "random_sample")]:
                dims = c.args[0].elts if (len(c.args) == 1 and isinstance(c.args[0], ast.Tuple)) else c.args
                if len(dims) == 2:
                    got = [amap.get(access_path(d), access_path(d)) for d in dims]
                    if got == list(reversed(want)) and got != want:
                        ctx.violated("R4", "doe.lhs (layout)", where(doe, st), "%s builds the design as %s (one row per parameter) and lhs() transposes it only `if %s`: when the number of "
                                     "samples equals the number of parameters the two layouts have the same shape, the transpose is skipped, and each parameter's column is one "
                                     "sample's row - several samples in one stratum, other strata empty" % (g.name, text(c), text(t)), key="layout")
                        return


def r4_lhs(ctx, repo):
    r4_layout(ctx, repo)
    doe = repo.module("doe")
    fn = doe.functions.get("_lhsclassic")
    if fn is None:
        raise AnalysisError("_lhsclassic not found")
    C = "doe._lhsclassic"
    n, samples, rs = func_params(fn)[:3]
    T = Terms(fn)
    problems = []      # recognised contradictions
    unknown = []       # shapes the rule does not recognise
    import copy

    def is_linspace(c):
        return isinstance(c, ast.Call) and (access_path(c.func) or "").endswith("linspace")

    def is_rand(c):
        return isinstance(c, ast.Call) and (access_path(c.func) or "").endswith(".rand")

    class Roles(ast.NodeTransformer):
        """replace the unit-draw column, the stratum lower ends and the stratum upper ends by U / A / B"""

        def __init__(self, j, at=None):
            self.j = j
            self.at = at
            self.seen = set()
            self.bad = []

        def visit_Subscript(self, nd):
            b = nd.value
            if isinstance(b, ast.Name) and self.at is not None:
                # a local whose recipe is no longer re-evaluable (the generator was used since): what it was bound to
                o_ = T.origin(b.id, self.at)
                if o_ is not None and (is_rand(o_) or is_linspace(o_)):
                    b = o_
            if is_rand(b) and isinstance(nd.slice, ast.Tuple) and len(nd.slice.elts) == 2 and isinstance(nd.slice.elts[0], ast.Slice) \
                    and text(nd.slice.elts[0]) == ":" and access_path(nd.slice.elts[1]) == self.j:
                if [text(x) for x in b.args] != [samples, n]:
                    self.bad.append("the unit draws are %s, not rand(N, n)" % text(b))
                self.seen.add("U")
                return ast.Name(id="U", ctx=ast.Load())
            if is_rand(b):
                self.bad.append("the stratified column %s uses the draws %s, not its own column [:, %s]" % (self.j, text(nd.slice), self.j))
                return ast.Name(id="Uother", ctx=ast.Load())
            if is_linspace(b) and isinstance(nd.slice, ast.Slice) and nd.slice.step is None:
                a = b.args
                if not (len(a) == 3 and is_const(a[0]) and const_value(a[0]) == 0 and is_const(a[1]) and const_value(a[1]) == 1
                        and poly.equal(a[2], poly.parse("%s + 1" % samples))):
                    self.bad.append("cut points are %s, expected linspace(0, 1, N+1)" % text(b))
                lo_, up_ = nd.slice.lower, nd.slice.upper
                if lo_ is None and up_ is not None and access_path(up_) == samples:
                    self.seen.add("A")
                    return ast.Name(id="A", ctx=ast.Load())
                if lo_ is not None and is_const(lo_) and const_value(lo_) == 1 and (up_ is None or poly.equal(up_, poly.parse("%s + 1" % samples))):
                    self.seen.add("B")
                    return ast.Name(id="B", ctx=ast.Load())
                self.bad.append("stratum ends %s are not cut[:N] / cut[1:N+1]" % text(nd.slice))
                return ast.Name(id="Cother", ctx=ast.Load())
            return self.generic_visit(nd)

    loops = [s for s in fn.body if isinstance(s, ast.For) and range_bounds(s.iter) and text(range_bounds(T.expand(s.iter, at=s))[1]) == n
             and isinstance(s.target, ast.Name)]
    strat = perm = None
    for lp in loops:
        j = lp.target.id
        for s_ in lp.body:
            if isinstance(s_, ast.Assign) and isinstance(s_.targets[0], ast.Subscript):
                vx = T.expand(s_.value, at=s_)
                if isinstance(vx, ast.BinOp):
                    strat = (lp, j, s_, vx)
                elif isinstance(vx, ast.Subscript) and not is_rand(vx.value) and not is_linspace(vx.value):
                    perm = (lp, j, s_, vx)
    strat_var = None
    if strat is None:
        unknown.append("stratified column construction not found")
    else:
        lp, j, s_, vx = strat
        R = Roles(j, at=s_)
        e = R.visit(copy.deepcopy(vx))
        problems.extend(R.bad)
        if not R.bad:
            if R.seen != {"U", "A", "B"}:
                unknown.append("stratified draw %s: unit draws / stratum ends not all recognised (%s)" % (text(s_.value), sorted(R.seen)))
            else:
                eq = poly.equal(e, poly.parse("A + U * (B - A)"))
                if eq is False:
                    problems.append("stratified draw %s is not a + u*(b-a) with u the column [:, %s] of the unit draws" % (text(s_.value), j))
                elif eq is None:
                    unknown.append("stratified draw %s not normalisable" % text(s_.value))
        if not text(s_.targets[0]).endswith("[:, %s]" % j):
            problems.append("the stratified column is stored at %s, not at column %s" % (text(s_.targets[0]), j))
        strat_var = access_path(s_.targets[0].value)
    if perm is None:
        unknown.append("per-column permutation not found")
    elif strat is not None:
        lp, j, s_, vx = perm
        order = [x for x in lp.body if isinstance(x, ast.Assign) and isinstance(x.value, ast.Call) and (access_path(x.value.func) or "").endswith(".permutation")]
        idx_term = vx.slice.elts[0] if isinstance(vx.slice, ast.Tuple) and vx.slice.elts else None
        if isinstance(idx_term, ast.Call) and not (access_path(idx_term.func) or "").endswith(".permutation"):
            problems.append("the rows of column %s are picked by %s, which is not a permutation of range(N): strata can be used twice or not at all" % (j, text(idx_term)))
        elif not order:
            pcalls = [c for c in ast.walk(vx) if isinstance(c, ast.Call) and (access_path(c.func) or "").endswith(".permutation")] or \
                     [c for c in calls_in(s_.value) if (access_path(c.func) or "").endswith(".permutation")]
            parg = text(pcalls[0].args[0]) if pcalls and pcalls[0].args else None
            drawn_outside = [x for x in fn.body if isinstance(x, ast.Assign) and isinstance(x.value, ast.Call)
                             and (access_path(T.expand(x.value.func, at=x)) or "").endswith(".permutation")]
            if parg in ("range(%s)" % samples, samples) and text(vx).startswith("%s[" % strat_var) and text(vx).endswith(", %s]" % j):
                pass
            elif parg is not None and parg.startswith("range(") and parg != "range(%s)" % samples:
                problems.append("rows are reordered by a permutation of %s, not of range(%s)" % (parg, samples))
            elif not pcalls and drawn_outside:
                problems.append("rows are not reordered by a permutation of range(N) drawn inside the column loop (one draw at line %d serves every column)" % drawn_outside[0].lineno)
            else:
                unknown.append("permutation draw not recognised in %s" % text(vx))
        elif _perm_domain(T, order[0], samples) is False:
            problems.append("rows are not reordered by a permutation of range(N) drawn inside the column loop")
        elif _perm_domain(T, order[0], samples) is None:
            unknown.append("what %s permutes is not recognised" % text(order[0].value))
        else:
            ov = access_path(order[0].targets[0])
            if text(s_.value) != "%s[%s, %s]" % (strat_var, ov, j) or not text(s_.targets[0]).endswith("[:, %s]" % j):
                problems.append("output column %s is %s: it must be its own stratified column indexed by the permutation" % (j, text(s_.value)))
            if lp.body.index(order[0]) > lp.body.index(s_):
                problems.append("the permutation is drawn after it is used")
    rets = [s_ for s_ in fn.body if isinstance(s_, ast.Return)]
    if perm is not None and rets and access_path(rets[-1].value) != access_path(perm[2].targets[0].value):
        if isinstance(rets[-1].value, ast.Name):
            problems.append("the permuted matrix is not what is returned")
        else:
            unknown.append("returned value %s not recognised" % text(rets[-1].value))
    if problems:
        ctx.violated("R4", C, where(doe, fn), "; ".join(problems), key="strata")
    elif unknown:
        ctx.inconclusive("R4", C, where(doe, fn), "; ".join(unknown), key="strata")
    else:
        ctx.holds("R4", C, where(doe, fn), "N strata from linspace(0,1,N+1); one draw a + u*(b-a) per stratum and column; each column permuted independently", key="strata")
    # default criterion -> classic
    lf = doe.functions.get("lhs")
    okd = False
    def infeasible(p):
        # `X is None` taken true after X was bound to the result of a function whose every return yields a value
        bound = set()
        for e in p.events:
            if e.kind == "stmt" and isinstance(e.node, ast.Assign) and isinstance(e.node.targets[0], ast.Name):
                v = e.node.value
                if isinstance(v, ast.Call) and access_path(v.func) in doe.functions and all(
                        r.value is not None for r in stmts_of(doe.functions[access_path(v.func)]) if isinstance(r, ast.Return)):
                    bound.add(e.node.targets[0].id)
                else:
                    bound.discard(e.node.targets[0].id)
            if e.kind == "guard" and isinstance(e.node, ast.Compare) and isinstance(e.node.ops[0], ast.Is) and text(e.node.comparators[0]) == "None" \
                    and access_path(e.node.left) in bound and e.val:
                return True
        return False
    for p in Enumerator(loop_counts=(0, 1)).function_paths(lf):
        if infeasible(p):
            continue
        crit_none = [e for e in p.events if e.kind == "guard" and text(e.node) in ("criterion is not None", "criterion is None")]
        if crit_none:
            g = crit_none[0]
            is_none = g.val if "is None" in text(g.node) and "not" not in text(g.node) else not g.val
            if is_none and p.outcome == "return":
                uses = any(e.kind == "stmt" and any(access_path(c.func) == "_lhsclassic" for c in calls_in(e.node)) for e in p.events)
                others = any(e.kind == "stmt" and any((access_path(c.func) or "") in ("_lhscentered", "_lhsmaximin", "_lhscorrelate", "_lhsmu") for c in calls_in(e.node)) for e in p.events)
                okd = uses and not others
                if not okd:
                    break
    bl = doe.functions.get("build_lhs")
    c = [c for c in calls_in(bl) if access_path(c.func) == "lhs"]
    dl_ = func_params(bl)[0]
    nl_ = func_params(bl)[1] if len(func_params(bl)) > 1 else "num_samples"
    rtl = [canonical(t) for _, t in Terms(bl).returns if t is not None]
    okw = bool(rtl) and all(r in ("construct_df_from_random_matrix(lhs(n=len({d}), samples={n}), np.array([{d}[_0] for _0 in {d}]))".format(d=dl_, n=nl_),
                                  "construct_df_from_random_matrix(lhs(len({d}), {n}), np.array([{d}[_0] for _0 in {d}]))".format(d=dl_, n=nl_),
                                  "construct_df_from_random_matrix(lhs(len({d}), samples={n}), np.array([{d}[_0] for _0 in {d}]))".format(d=dl_, n=nl_)) for r in rtl)
    dstate = True if (okd and okw) else (False if (c and (not okw or not okd)) else None)
    ctx.check3(dstate, "R4", "doe.lhs/build_lhs", where(doe, lf), "build_lhs calls lhs(n=#parameters, samples=N) without criterion, which takes the classic construction",
               "the default Latin-hypercube path does not run the classic one-sample-per-stratum construction with (n=#parameters, samples=N)", "wiring not recognised", key="default-criterion")


def builder_mutates_levels(fn):
    """the doe builder changes the level lists of the dictionary it is given (D[key][1] = .., D[key].append(..), .sort())"""
    ps = func_params(fn)
    if not ps:
        return None
    d = ps[0]
    for n in ast.walk(fn):
        if isinstance(n, ast.Subscript) and not isinstance(n.ctx, ast.Load) and isinstance(n.value, ast.Subscript) and access_path(n.value.value) == d:
            return n
        if isinstance(n, ast.Call) and isinstance(n.func, ast.Attribute) and n.func.attr in ("append", "sort", "extend", "insert", "reverse", "pop", "remove", "clear") \
                and isinstance(n.func.value, ast.Subscript) and access_path(n.func.value.value) == d:
            return n
    return None


def level_lists_fresh(ctx, repo, rule, gname):
    """a generator hands the doe builder a dictionary name -> list of levels; the builders adjust these lists in place, so
    each must be a list made for the call, not the `bounds` list of the problem's parameter"""
    g = repo.cls(gname, "operators")
    fn = g.methods.get("generate")
    doe = repo.module("doe")
    if fn is None:
        return
    selfn = func_params(fn)[0]
    T = Terms(fn)
    for s_ in stmts_of(fn):
        if isinstance(s_, (ast.For, ast.While, ast.If, ast.Try, ast.With)):
            continue
        for c in calls_in(s_):
            b = access_path(c.func) or ""
            if b.split(".")[-1] in doe.functions and b.split(".")[-1].startswith("build_") and c.args:
                mut = builder_mutates_levels(doe.functions[b.split(".")[-1]])
                arg = T.expand(c.args[0], at=s_)
                vals = []
                if isinstance(arg, ast.DictComp):
                    vals = [arg.value]
                elif isinstance(arg, ast.Dict):
                    vals = list(arg.values)
                aliased = [v for v in vals if (access_path(v) or "").endswith("['bounds']")]
                fresh = [v for v in vals if isinstance(v, (ast.List, ast.ListComp)) or (isinstance(v, ast.Call) and access_path(v.func) in ("list", "copy.copy", "copy.deepcopy"))
                         or (isinstance(v, ast.Call) and isinstance(v.func, ast.Attribute) and v.func.attr == "copy")
                         or (isinstance(v, ast.Subscript) and isinstance(v.slice, ast.Slice))]
                if aliased and mut is not None:
                    ctx.violated(rule, "%s.generate" % gname, where(g.module, s_),
                                 "the builder %s receives the parameters' own `bounds` lists (%s) and rewrites them in place (%s, doe.py:%d): after one design the problem's bounds "
                                 "are changed for every later generator and algorithm" % (b, text(aliased[0]), text(mut)[:40], mut.lineno), key="fresh-levels")
                elif vals and len(fresh) == len(vals):
                    ctx.holds(rule, "%s.generate" % gname, where(g.module, s_), "every level list handed to %s is made for the call" % b, key="fresh-levels")
                elif mut is None and vals:
                    ctx.holds(rule, "%s.generate" % gname, where(g.module, s_), "%s does not change the lists it is given" % b, key="fresh-levels")
                else:
                    ctx.inconclusive(rule, "%s.generate" % gname, where(g.module, s_), "the dictionary handed to %s (%s) is not recognised" % (b, text(arg)[:80]), key="fresh-levels")


def r5_arity(ctx, repo):
    for gname in ("LHSGenerator", "HaltonGenerator"):
        level_lists_fresh(ctx, repo, "R5", gname)
    for gname in ("LHSGenerator", "HaltonGenerator"):
        g = repo.cls(gname, "operators")
        fn = g.methods.get("generate")
        selfn = func_params(fn)[0]
        loops = [s for s in fn.body if isinstance(s, ast.For) and access_path(s.iter) == selfn + ".parameters"]
        ok = len(loops) == 1 and any(isinstance(s, ast.Assign) and isinstance(s.targets[0], ast.Subscript) for s in loops[0].body) \
            and not any(isinstance(s, (ast.If, ast.Continue, ast.Break)) for s in stmts_of(loops[0]))
        c = [c for c in calls_in(fn) if (access_path(c.func) or "") in ("build_lhs", "build_halton")]
        if not ok and c and c[0].args:
            # the dictionary as a term: one entry per declared parameter, nothing filtered
            T_ = Terms(fn)
            for s_ in stmts_of(fn):
                if not isinstance(s_, (ast.For, ast.While, ast.If, ast.Try, ast.With)) and any(x is c[0] for x in calls_in(s_)):
                    a_ = T_.expand(c[0].args[0], at=s_)
                    ok = isinstance(a_, ast.DictComp) and len(a_.generators) == 1 and not a_.generators[0].ifs \
                        and access_path(a_.generators[0].iter) == selfn + ".parameters"
        from ..astutil import call_arg
        nsv = call_arg(c[0], 1, "num_samples") if c else None
        okn = nsv is not None and text(nsv) == selfn + ".number"
        astate = True if (ok and okn) else (False if (c and not okn) else None)
        ctx.check3(astate, "R5", "%s.generate" % gname, where(g.module, fn), "one [lo, hi] entry per declared parameter; num_samples = requested number",
                   "the generator does not pass its requested number of samples to the builder (%s)" % (text(c[0]) if c else ""), "generator shape not recognised", key="arity")


def run(ctx):
    for rid, doc in (("R1", "random generator count"), ("R2", "uniform grid levels and Cartesian product"), ("R3", "Halton bases, burn-in, recurrence, wiring"),
                     ("R4", "LHS strata, stratum draw, independent permutations, default criterion"), ("R5", "one coordinate per declared parameter"),
                     ("R6", "unit samples scaled by lo + w*(hi-lo) for every lo <= hi")):
        ctx.rule(rid, doc)
    ctx.axiom("np.linspace(0,1,k+1) are the k+1 equidistant cut points; RandomState.rand in [0,1); RandomState.permutation(range(n)) is a permutation; itertools.product is the full Cartesian product")
    ctx.assume("array contents as numeric facts are not decided; the optimised LHS variants (center/maximin/correlation/lhsmu) are outside the claim")
    r1_random(ctx, ctx.repo)
    r2_grid(ctx, ctx.repo)
    r3_halton(ctx, ctx.repo)
    r4_lhs(ctx, ctx.repo)
    r5_arity(ctx, ctx.repo)
    from .c08 import unit_affine_scaling
    unit_affine_scaling(ctx, ctx.repo, rid="R6")
