"""C09 - runs keep exact generation bookkeeping, budget and generational elitism.

R1  tag algebra: the literal tag before the generation loop and the affine tag
    inside it, over the loop's range, give {1..G} (NSGA-II) resp. {0..G}
    (EpsMOEA, OMOPSO, SMPSO); `for it in range(a, b)` and the counter idiom
    `it = a; while it < b: ...; it += 1` are both read as ranges.
R2  batch sizes: the initial generator is initialised with N;
    GeneticAlgorithm.generate returns exactly N offspring (abstract
    interpretation of the list length relative to N, N >= 2); the copy
    selector returns one copy per member.
R3  budget: one evaluate of the initial batch before the loop and exactly one
    evaluate of the offspring batch per generation on every path; NSGA-II
    appends the parent copies *after* that evaluate.
R4  the survivors of a generation are tagged and recorded exactly once each,
    in the loop over the surviving list.
R5  NSGA-II elitism: the pool handed to sorting and truncation holds a copy of
    every parent (copy() carries costs and signed costs) plus every offspring;
    sorting precedes truncation; the truncation size is N.
R6  pop_acceptance table: offspring dominating >= 1 member -> one of the
    dominated indices removed, one append; dominated and dominating none ->
    unchanged; otherwise one removal, one append.
"""
import ast

from ..astutil import (text, access_path, calls_in, func_params, stmts_of, is_const, const_value, method_call, range_bounds,
                       store_targets, fold, single_defs, canon_text)
from ..astutil import flag_values, oriented
from ..loader import where, AnalysisError
from ..paths import Enumerator
from ..terms import Terms, PathEnv
from .c04 import drop_outside_domain

G_OPT = "options['max_population_number']"
N_OPT = "options['max_population_size']"

EXPECT_FIRST = {"NSGAII": 1, "EpsMOEA": 0, "OMOPSO": 0, "SMPSO": 0}


def TT_(fn):
    return Terms(fn)


def _stmt_of(fn, node):
    """the simple statement of fn that contains node"""
    for s_ in stmts_of(fn):
        if not isinstance(s_, (ast.For, ast.While, ast.If, ast.Try, ast.With)) and any(x is node for x in ast.walk(s_)):
            return s_
    return fn.body[0]


def body_fn(stmts, args, lineno=0):
    return ast.FunctionDef(name="body", args=args, body=stmts, decorator_list=[], returns=None, type_comment=None, lineno=lineno, col_offset=0)


def affine_in(node, sym_text):
    """(coef, const) of `node` as coef*SYM + const where SYM is an expression whose text ends with sym_text; None if not affine"""
    t = text(node)
    if t.endswith(sym_text) and isinstance(node, (ast.Subscript, ast.Attribute, ast.Name)):
        return (1, 0)
    try:
        return (0, fold(node))
    except ValueError:
        pass
    if isinstance(node, ast.BinOp) and isinstance(node.op, (ast.Add, ast.Sub)):
        a, b = affine_in(node.left, sym_text), affine_in(node.right, sym_text)
        if a is None or b is None:
            return None
        s = 1 if isinstance(node.op, ast.Add) else -1
        return (a[0] + s * b[0], a[1] + s * b[1])
    return None


def gen_loop(fn):
    """the generation loop of a run(): -> (loop, var, start_const, stop_affine_in_G) or None"""
    selfn = func_params(fn)[0]
    for i, s in enumerate(fn.body):
        if isinstance(s, ast.For) and isinstance(s.target, ast.Name):
            rb = range_bounds(s.iter)
            if rb and G_OPT in text(s.iter):
                try:
                    start = 0 if rb[0] is None else fold(rb[0])
                except ValueError:
                    return None
                stop = affine_in(rb[1], G_OPT)
                if stop is None or rb[2] is not None:
                    return None
                return s, s.target.id, start, stop
        if isinstance(s, ast.While) and G_OPT in text(s.test):
            t = s.test
            o_ = oriented(t, lambda n_: isinstance(n_, ast.Name) and G_OPT not in text(n_))
            if o_ is not None and o_[1] in (ast.Lt, ast.LtE):
                t = ast.Compare(left=o_[0], ops=[o_[1]()], comparators=[o_[2]])
                var = t.left.id
                stop = affine_in(t.comparators[0], G_OPT)
                if stop is None:
                    return None
                if isinstance(t.ops[0], ast.LtE):
                    stop = (stop[0], stop[1] + 1)
                inits = [x for x in fn.body[:i] if isinstance(x, ast.Assign) and access_path(x.targets[0]) == var]
                if not inits:
                    return None
                try:
                    start = fold(inits[-1].value)
                except ValueError:
                    return None
                # single increment by one at the end of every iteration path
                for p in Enumerator(loop_counts=(0, 1)).function_paths(body_fn(s.body, fn.args, s.lineno)):
                    if p.outcome != "fall":
                        continue
                    incs = [i2 for i2, e in enumerate(p.events) if e.kind == "stmt" and isinstance(e.node, ast.AugAssign) and access_path(e.node.target) == var]
                    if len(incs) != 1 or not (isinstance(p.events[incs[0]].node.op, ast.Add) and is_const(p.events[incs[0]].node.value) and const_value(p.events[incs[0]].node.value) == 1):
                        return None
                    # (the tag may be written before or after the increment: r1_tags reads it as a term over the
                    # value the counter had at the head of the iteration)
                return s, var, start, stop
    return None


def r1_tags(ctx, repo, cname, mname):
    cls = repo.cls(cname, mname)
    mod = cls.module
    fn = cls.methods.get("run")
    C = "%s.run" % cname
    if fn is None:
        raise AnalysisError("%s.run not found" % cname)
    gl = gen_loop(fn)
    if gl is None:
        ctx.inconclusive("R1", C, where(mod, fn), "generation loop over %s not recognised" % G_OPT, key="tags")
        return None
    loop, var, start, stop = gl
    pos = fn.body.index(loop)
    # tag before the loop: literal assignment X.population_id = c in the statements before the loop
    first_tags = []
    for s in fn.body[:pos]:
        for x in stmts_of(ast.Module(body=[s], type_ignores=[])):
            if isinstance(x, ast.Assign) and any((access_path(t) or "").endswith(".population_id") for t in x.targets):
                try:
                    first_tags.append(fold(x.value))
                except ValueError:
                    first_tags.append(None)
    # a class-level default tag (constructor of the individual class) is not a substitute: require an explicit tag or the class default
    loop_tags = []
    for x in stmts_of(loop):
        if isinstance(x, ast.Assign) and any((access_path(t) or "").endswith(".population_id") for t in x.targets):
            loop_tags.append(x)
    if len(loop_tags) != 1:
        ctx.inconclusive("R1", C, where(mod, loop), "expected one tag assignment in the generation loop, found %d" % len(loop_tags), key="tags")
        return gl
    # express the tag as it + d (temporaries looked through)
    d = None
    v = Terms(fn).expand(loop_tags[0].value, at=loop_tags[0])
    if isinstance(v, ast.Name) and v.id == var:
        d = 0
    else:
        from .. import poly
        try:
            dd = poly.norm(v) - poly.norm(ast.Name(id=var, ctx=ast.Load()))
            if dd.is_const() and dd.const().denominator == 1:
                d = int(dd.const())
        except poly.NotPolynomial:
            d = None
    if d is None:
        ctx.inconclusive("R1", C, where(mod, loop_tags[0]), "tag %s is not <loop variable> + literal" % text(v), key="tags")
        return gl
    if not first_tags:
        # tags given by the individual class constructor (IndividualNSGAII sets 0) do not count; NSGA-II tags explicitly
        ctx.violated("R1", C, where(mod, fn), "the initial population is not tagged before the generation loop", key="tags")
        return gl
    t0 = first_tags[-1]
    lo = start + d
    hi = (stop[0], stop[1] + d - 1)       # last tag = coef*G + const
    want_first = EXPECT_FIRST[cname]
    problems = []
    if t0 != want_first:
        problems.append("the initial population is tagged %r, expected %d" % (t0, want_first))
    if lo != want_first + 1:
        problems.append("the first generation produced in the loop is tagged %d, expected %d (tags must be consecutive after the initial %d)" % (lo, want_first + 1, want_first))
    if hi != (1, 0):
        problems.append("the last generation is tagged %s, expected G" % ("G%+d" % hi[1] if hi[0] == 1 else str(hi)))
    if problems:
        ctx.violated("R1", C, where(mod, loop_tags[0]), "; ".join(problems), key="tags")
    else:
        ctx.holds("R1", C, where(mod, loop), "tags = {%d} + {%s+%d : %s in [%d, G%+d)} = {%d..G}" % (t0, var, d, var, start, stop[1], want_first), key="tags")
    return gl


# ------------------------------------------------------------------ R2 D-LEN
CLASSES = ("Z", "M", "P", "N", "O")     # 0, [1, N-2], N-1, N, > N


def plus1(c):
    return {"Z": {"M", "P"}, "M": {"M", "P"}, "P": {"N"}, "N": {"O"}, "O": {"O"}}[c]


def len_guard(atom, lst, nopt_text):
    """classify atom as a test on len(lst): returns set of classes for which it is True, or None"""
    if access_path(atom) == lst:
        return {"M", "P", "N", "O"}          # truthiness of the list itself: non-empty
    if isinstance(atom, ast.Call) and access_path(atom.func) == "len" and atom.args and access_path(atom.args[0]) == lst:
        return {"M", "P", "N", "O"}
    if isinstance(atom, ast.Compare) and len(atom.ops) == 1 and isinstance(atom.left, ast.Call) and access_path(atom.left.func) == "len" \
            and atom.left.args and access_path(atom.left.args[0]) == lst:
        r = atom.comparators[0]
        op = type(atom.ops[0])
        if is_const(r) and const_value(r) == 0:
            return {ast.Eq: {"Z"}, ast.NotEq: {"M", "P", "N", "O"}, ast.Gt: {"M", "P", "N", "O"}}.get(op)
        if text(r).endswith(nopt_text):
            return {ast.Lt: {"Z", "M", "P"}, ast.LtE: {"Z", "M", "P", "N"}, ast.GtE: {"N", "O"}, ast.Gt: {"O"}, ast.Eq: {"N"}, ast.NotEq: {"Z", "M", "P", "O"}}.get(op)
    return None


def r2_generate(ctx, repo):
    cls = repo.cls("GeneticAlgorithm", "algorithm_genetic")
    mod = cls.module
    fn = cls.methods.get("generate")
    if fn is None:
        raise AnalysisError("GeneticAlgorithm.generate not found")
    C = "GeneticAlgorithm.generate"
    rets = [s for s in fn.body if isinstance(s, ast.Return)]
    loops = [s for s in fn.body if isinstance(s, ast.While)]
    if len(rets) != 1 or len(loops) != 1 or not isinstance(rets[0].value, ast.Name):
        ctx.inconclusive("R2", C, where(mod, fn), "expected `while ...: ...; return <list>`", key="generate-N")
        return
    lst = rets[0].value.id
    init = [s for s in fn.body if isinstance(s, ast.Assign) and access_path(s.targets[0]) == lst]
    if not (init and isinstance(init[0].value, ast.List) and not init[0].value.elts):
        ctx.inconclusive("R2", C, where(mod, fn), "the returned list is not initialised empty", key="generate-N")
        return
    w = loops[0]
    head_true = None
    # the loop condition itself
    conj = w.test.values if isinstance(w.test, ast.BoolOp) and isinstance(w.test.op, ast.And) else [w.test]
    for a in conj:
        g = len_guard(a, lst, N_OPT)
        if g is not None:
            head_true = g if head_true is None else head_true & g
    if head_true is None:
        ctx.inconclusive("R2", C, where(mod, w), "loop condition %s is not a test of len(%s) against the population size" % (text(w.test), lst), key="generate-N")
        return
    if len(conj) > 1:
        ctx.inconclusive("R2", C, where(mod, w), "compound loop condition", key="generate-N")
        return
    def counts(node):
        it = getattr(node, "iter", None)
        if isinstance(it, (ast.Tuple, ast.List)):
            return (len(it.elts),)          # literal sequence: exact trip count
        return (0, 1, 2)
    body_paths = Enumerator(loop_counts=counts).function_paths(body_fn(w.body, fn.args, w.lineno))

    def run_path(p, c0):
        """abstract execution of one body path from class c0 -> set of end classes (empty = infeasible)"""
        cur = {c0}
        for e in p.events:
            if e.kind == "guard":
                g = len_guard(e.node, lst, N_OPT)
                if g is not None:
                    cur = {c for c in cur if (c in g) == e.val}
                    if not cur:
                        return set()
            elif e.kind == "stmt":
                n_app = 0
                for c in calls_in(e.node):
                    mc = method_call(c)
                    if mc and access_path(mc[0]) == lst:
                        if mc[1] == "append":
                            n_app += 1
                        elif mc[1] in ("extend", "insert", "pop", "remove", "clear"):
                            return {"?"}
                if isinstance(e.node, (ast.Assign, ast.AugAssign)) and any(access_path(t) == lst for t in store_targets(e.node)):
                    return {"?"}
                for _ in range(n_app):
                    cur = set().union(*[plus1(c) for c in cur])
        return cur
    heads = {"Z"}
    todo = ["Z"]
    exits = set()
    trans = {}
    unknown = False
    while todo:
        c0 = todo.pop()
        if c0 not in head_true:
            exits.add(c0)
            continue
        for p in body_paths:
            if p.outcome not in ("fall",):
                if p.outcome == "return":
                    end = run_path(p, c0)
                    exits |= end
                continue
            if p.events and p.events[-1].kind == "break":
                exits |= run_path(p, c0)
                continue
            end = run_path(p, c0)
            if "?" in end:
                unknown = True
                continue
            trans.setdefault(c0, set()).update(end)
            for c1 in end:
                if c1 not in heads:
                    heads.add(c1)
                    todo.append(c1)
    ctx.extra["generate_length_automaton"] = {k: sorted(v) for k, v in trans.items()}
    ctx.sample({"generate(): abstract length classes (Z=0, M=1..N-2, P=N-1, N, O>N) transitions per iteration": ctx.extra["generate_length_automaton"], "exit_classes": sorted(exits)})
    if unknown:
        ctx.inconclusive("R2", C, where(mod, w), "the offspring list is modified by something other than append", key="generate-N")
    elif exits == {"N"}:
        ctx.holds("R2", C, where(mod, w), "for every N >= 2 the loop can only be left with exactly N offspring (length classes reachable at the loop head: %s)" % sorted(heads), key="generate-N")
    else:
        ctx.violated("R2", C, where(mod, w), "generate() can return a list whose length class is %s (Z=0, M=1..N-2, P=N-1, O=more than N) instead of exactly N: the generation size and the evaluation budget change" % sorted(exits - {"N"}), key="generate-N")


def r2_copy_selector(ctx, repo):
    cls = repo.cls("CopySelector", "operators")
    fn = cls.methods.get("select")
    C = "CopySelector.select"
    if fn is None:
        raise AnalysisError("CopySelector.select not found")
    pop = func_params(fn)[1]
    loops = [s for s in fn.body if isinstance(s, ast.For) and access_path(s.iter) == pop]
    if len(loops) != 1:
        ctx.inconclusive("R2", C, where(cls.module, fn), "loop over the input population not found", key="copy-per-member")
        return
    bad = None
    for p in Enumerator(loop_counts=(0, 1)).function_paths(body_fn(loops[0].body, fn.args)):
        if p.outcome == "raise":
            continue
        apps = [c for e in p.events if e.kind == "stmt" for c in calls_in(e.node) if method_call(c) and method_call(c)[1] == "append"]
        if len(apps) != 1:
            bad = bad or "%d copies are appended for a member of the input population on the path [%s]: the swarm copied for the next generation has not exactly N members, so the " \
                "generation records fewer (or more) than N designs and the evaluation budget changes" % (len(apps), p.describe(4))
    if bad:
        ctx.violated("R2", C, where(cls.module, loops[0]), bad, key="copy-per-member")
    else:
        ctx.holds("R2", C, where(cls.module, fn), "one copy appended per member of the input population", key="copy-per-member")


# ------------------------------------------------------------------ R3/R4/R5 per run()
def is_eval(c, selfn):
    return (access_path(c.func) or "") in (selfn + ".evaluate", selfn + ".evaluator.evaluate")


def r345_run(ctx, repo, cname, mname, gl):
    cls = repo.cls(cname, mname)
    mod = cls.module
    fn = cls.methods.get("run")
    C = "%s.run" % cname
    selfn = func_params(fn)[0]
    if gl is None:
        return
    loop = gl[0]
    pos = fn.body.index(loop)
    # initial generator size
    init_n = [c for s in fn.body[:pos] for c in calls_in(s) if (access_path(c.func) or "") == selfn + ".generator.init"]
    n_arg = None
    if init_n:
        n_arg = init_n[0].args[0] if init_n[0].args else (init_n[0].keywords[0].value if len(init_n[0].keywords) == 1 else None)
    if n_arg is not None and text(TT_(fn).expand(n_arg, at=_stmt_of(fn, init_n[0]))).endswith(N_OPT):
        ctx.holds("R2", C, where(mod, init_n[0]), "initial generator initialised with N", key="initial-N")
    elif n_arg is not None and (is_const(n_arg) or ".options[" in text(n_arg)):
        ctx.violated("R2", C, where(mod, init_n[0]), "the initial generator is initialised with %s, not with the population size option" % text(n_arg), key="initial-N")
    elif not init_n and not any("generator" in (access_path(c.func) or "") for s in fn.body[:pos] for c in calls_in(s)):
        ctx.violated("R2", C, where(mod, fn), "the initial generator is not initialised with the population size option", key="initial-N")
    else:
        ctx.inconclusive("R2", C, where(mod, fn), "initialisation of the initial generator not recognised", key="initial-N")
    # evaluate before the loop: exactly one on every path of the prefix
    pre = body_fn(fn.body[:pos], fn.args)
    bad = None
    for p in Enumerator(loop_counts=(0, 1)).function_paths(pre):
        n = sum(1 for e in p.events if e.kind == "stmt" for c in calls_in(e.node) if is_eval(c, selfn))
        if n != 1:
            bad = bad or "the initial population is evaluated %d time(s) before the generation loop (expected once)" % n
    # per generation
    npaths = 0
    for p in Enumerator(loop_counts=(0, 1, 2)).function_paths(body_fn(loop.body, fn.args, loop.lineno)):
        if p.outcome == "raise":
            continue
        npaths += 1
        evs = [(i, c) for i, e in enumerate(p.events) if e.kind == "stmt" for c in calls_in(e.node) if is_eval(c, selfn)]
        gens = [(i, e.node) for i, e in enumerate(p.events) if e.kind == "stmt" and isinstance(e.node, ast.Assign) and isinstance(e.node.value, ast.Call)
                and (access_path(e.node.value.func) or "") in (selfn + ".generate", selfn + ".selector.select", selfn + ".offspring_selector.select")]
        if cname != "PSOGA" and len(evs) != 1:
            bad = bad or "a generation evaluates %d batches (expected exactly one of N offspring): the budget is not N per generation" % len(evs)
            continue
        if not gens:
            bad = bad or "the offspring batch is not produced by generate()/the copy selector"
            continue
        off = access_path(gens[0][1].targets[0])
        if evs and access_path(evs[0][1].args[0]) != off:
            bad = bad or "the evaluated batch %s is not the generated offspring batch %s" % (text(evs[0][1].args[0]), off)
        if cname == "NSGAII" and evs:
            # parent copies appended after the evaluate call
            for i, e in enumerate(p.events):
                if e.kind == "stmt":
                    for c in calls_in(e.node):
                        mc = method_call(c)
                        if mc and access_path(mc[0]) == off and mc[1] in ("append", "extend") and i < evs[0][0]:
                            bad = bad or "parent copies are added to the offspring batch before it is evaluated: they are evaluated again (N extra evaluations per generation)"
    if bad:
        ctx.violated("R3", C, where(mod, loop), bad, key="budget")
    else:
        ctx.holds("R3", C, where(mod, loop), "one evaluate of the initial batch, then exactly one evaluate of the offspring batch per generation (%d body paths)" % npaths, key="budget")

    # R4: survivors tagged and recorded once each
    rec_loops = [s for s in stmts_of(loop) if isinstance(s, ast.For) and s is not loop and any(
        (access_path(c.func) or "").endswith(".problem.individuals.append") for c in calls_in(s))]
    if len(rec_loops) != 1 or not isinstance(rec_loops[0].target, ast.Name):
        ctx.inconclusive("R4", C, where(mod, loop), "recording loop not found", key="record-once")
    else:
        rl = rec_loops[0]
        lv = rl.target.id
        ok = True
        for p in Enumerator(loop_counts=(0, 1)).function_paths(body_fn(rl.body, fn.args)):
            apps = sum(1 for e in p.events if e.kind == "stmt" for c in calls_in(e.node)
                       if (access_path(c.func) or "").endswith(".problem.individuals.append") and c.args and access_path(c.args[0]) == lv)
            tags = sum(1 for e in p.events if e.kind == "stmt" and any(access_path(t) == lv + ".population_id" for t in store_targets(e.node)))
            if apps != 1 or tags != 1:
                ok = False
        ctx.check(ok, "R4", C, where(mod, rl), "each member of `%s` is tagged once and recorded once per generation" % text(rl.iter), key="record-once")
        # the recorded list is the surviving generation
        surv = text(rl.iter)
        if cname == "NSGAII":
            tr = [s for s in loop.body if isinstance(s, ast.Assign) and isinstance(s.value, ast.Call) and access_path(s.value.func) == "nondominated_truncate"]
            good = bool(tr) and access_path(tr[0].targets[0]) == surv and loop.body.index(tr[0]) < loop.body.index(rl)
            ctx.check(good, "R4", C, where(mod, rl), "the recorded list is the result of nondominated_truncate (no repeats: it comes out of set())", key="record-survivors")

    if cname != "NSGAII":
        return
    # R5 pool
    tr = [s for s in loop.body if isinstance(s, ast.Assign) and isinstance(s.value, ast.Call) and access_path(s.value.func) == "nondominated_truncate"]
    srt = [s for s in loop.body if isinstance(s, ast.Expr) and isinstance(s.value, ast.Call) and (access_path(s.value.func) or "").endswith(".fast_nondominated_sorting")]
    gens = [s for s in loop.body if isinstance(s, ast.Assign) and isinstance(s.value, ast.Call) and (access_path(s.value.func) or "") == selfn + ".generate"]
    problems = []
    if not tr or not srt or not gens:
        ctx.inconclusive("R5", C, where(mod, loop), "generate / sort / truncate not found in the generation loop", key="pool")
        return
    off = access_path(gens[0].targets[0])
    from ..astutil import call_arg
    pa_ = call_arg(gens[0].value, 0, "parents")
    parents = access_path(pa_) if pa_ is not None else None
    pool_arg = access_path(tr[0].value.args[0])
    size_arg = tr[0].value.args[1] if len(tr[0].value.args) > 1 else None
    if pool_arg != off or access_path(srt[0].value.args[0]) != off:
        problems.append("sorting/truncation do not work on the offspring+parents pool `%s`" % off)
    if loop.body.index(srt[0]) > loop.body.index(tr[0]):
        problems.append("truncation happens before the pool is sorted")
    if size_arg is None or not text(size_arg).endswith(N_OPT):
        problems.append("the pool is truncated to %s, not to the population size N" % (text(size_arg) if size_arg is not None else "nothing"))
    if access_path(tr[0].targets[0]) != parents:
        problems.append("the truncated pool does not become the next parent population")
    # every parent copied into the pool before sorting
    cp = [s for s in loop.body if isinstance(s, ast.For) and access_path(s.iter) == parents and loop.body.index(s) < loop.body.index(srt[0])]
    okcp = False
    if cp and isinstance(cp[0].target, ast.Name):
        lv = cp[0].target.id
        for c in calls_in(cp[0]):
            mc = method_call(c)
            if mc and access_path(mc[0]) == off and mc[1] == "append" and c.args and text(c.args[0]) in (lv + ".copy()", lv):
                okcp = True
        if any(isinstance(s, (ast.If, ast.Break, ast.Continue)) for s in stmts_of(cp[0]) if s is not cp[0]):
            okcp = False
    if not okcp:
        problems.append("not every parent is added to the pool before sorting: a dropped parent could dominate a survivor (elitism lost)")
    # copy() carries the evaluation results
    ind = repo.cls("IndividualNSGAII", "algorithm_NSGAII")
    cpy = ind.methods.get("copy")
    carried = set()
    if cpy is not None:
        sn = func_params(cpy)[0]
        for s in stmts_of(cpy):
            if isinstance(s, ast.Assign) and len(s.targets) == 1:
                t = access_path(s.targets[0]) or ""
                for f in ("costs", "costs_signed"):
                    if t.endswith("." + f) and text(s.value) in (sn + "." + f, "list(%s.%s)" % (sn, f), "%s.%s.copy()" % (sn, f), "%s.%s[:]" % (sn, f)):
                        carried.add(f)
    if carried != {"costs", "costs_signed"}:
        problems.append("IndividualNSGAII.copy() does not carry %s: parent copies enter the sort without their evaluation results" % sorted({"costs", "costs_signed"} - carried))
    if problems:
        ctx.violated("R5", C, where(mod, loop), "; ".join(problems), key="pool")
    else:
        ctx.holds("R5", C, where(mod, loop), "pool = N evaluated offspring + a copy of every parent (costs and signed costs carried); sorted, then truncated to N; result = next parents", key="pool")


# ------------------------------------------------------------------ R6
def r6_acceptance(ctx, repo):
    cls = repo.cls("Selector", "operators")
    mod = cls.module
    fn = cls.methods.get("pop_acceptance")
    if fn is None:
        raise AnalysisError("Selector.pop_acceptance not found")
    C = "Selector.pop_acceptance"
    selfn, pop, new = func_params(fn)[:3]
    scan = [s for s in fn.body if isinstance(s, ast.For)]
    if len(scan) != 1:
        # the scan under a guard (`if len(members) > 0:` around a loop that would not run anyway)
        scan = [s for s in stmts_of(fn) if isinstance(s, ast.For) and any((access_path(c.func) or "").endswith(".compare") for c in calls_in(s))]
    if len(scan) != 1:
        ctx.inconclusive("R6", C, where(mod, fn), "scan loop not found")
        return
    lp = scan[0]
    cs = [s for s in lp.body if isinstance(s, ast.Assign) and isinstance(s.value, ast.Call) and (access_path(s.value.func) or "").endswith(".compare")]
    if len(cs) != 1:
        ctx.inconclusive("R6", C, where(mod, lp), "comparator call not found")
        return
    flag = access_path(cs[0].targets[0])
    a0 = text(cs[0].value.args[0])
    new_wins = 1 if a0.startswith(new + ".") else 2
    old_wins = 3 - new_wins
    # which locals collect the information
    domlist = domflag = None
    paths = drop_outside_domain(Enumerator(loop_counts=(0, 1)).function_paths(body_fn(lp.body, fn.args, lp.lineno)), flag, (0, 1, 2))
    scan_ok = True
    TT = Terms(fn)
    info = TT.loop_of(lp)
    idxvar = info.index if (info is not None and not info.synthetic) else None
    if idxvar is None:
        ctx.inconclusive("R6", C, where(mod, lp), "the scan has no member index (%s)" % text(lp.iter), key="scan")
        return
    other = cs[0].value.args[1] if new_wins == 1 else cs[0].value.args[0]
    ox = text(TT.expand(other, at=cs[0], elems=True))
    if ox != "%s[%s].costs_signed" % (pop, idxvar):
        ctx.check3(False if ox.endswith(".costs_signed") and ox.startswith(pop + "[") else None, "R6", C, where(mod, cs[0]), "",
                   "the offspring is compared with %s, not with the member at the scanned index %s" % (ox, idxvar),
                   "compared member %s not recognised" % ox, key="scan")
        return
    for p in paths:
        fv = flag_values(p.events, flag, (0, 1, 2))
        verdict = next(iter(fv)) if len(fv) == 1 else None
        apps = [(access_path(method_call(c)[0]), access_path(c.args[0])) for e in p.events if e.kind == "stmt" for c in calls_in(e.node)
                if method_call(c) and method_call(c)[1] == "append" and c.args]
        sets = [(access_path(e.node.targets[0]), const_value(e.node.value)) for e in p.events if e.kind == "stmt" and isinstance(e.node, ast.Assign)
                and e.node is not cs[0] and is_const(e.node.value)]
        if verdict == new_wins:
            if len(apps) != 1 or apps[0][1] != idxvar or sets:
                scan_ok = False
            else:
                domlist = apps[0][0]
        elif verdict == old_wins:
            if apps or len(sets) != 1 or sets[0][1] is not True:
                scan_ok = False
            else:
                domflag = sets[0][0]
        else:
            if apps or sets:
                scan_ok = False
    if not scan_ok:
        ctx.violated("R6", C, where(mod, lp), "the scan does not collect exactly the indices of the members the offspring dominates and whether some member dominates it", key="scan")
        return
    early = [x for x in stmts_of(lp) if isinstance(x, (ast.Break, ast.Return)) and x is not lp]
    # a break belongs to this loop unless it sits in a nested loop
    nested = [x for x in stmts_of(lp) if isinstance(x, (ast.For, ast.While)) and x is not lp]
    early = [x for x in early if not any(x in stmts_of(n_) for n_ in nested)]
    if early:
        ctx.violated("R6", C, where(mod, early[0]), "the scan over the population is left early (%s): members the offspring dominates further on are not collected, "
                     "so an offspring that dominates a member can be rejected instead of replacing it" % type(early[0]).__name__.lower(), key="scan")
        return
    if domlist is None or domflag is None:
        ctx.inconclusive("R6", C, where(mod, lp), "the locals that collect the dominated indices / the dominated flag are not recognised", key="scan")
        return
    ctx.holds("R6", C, where(mod, lp), "scan: verdict %d -> index appended to %s; verdict %d -> %s = True" % (new_wins, domlist, old_wins, domflag), key="scan")
    top_ = next((i_ for i_, s_ in enumerate(fn.body) if s_ is lp or any(x_ is lp for x_ in ast.walk(s_))), None)
    tail = fn.body[top_ + 1:]
    table = {}
    bad = None
    for p in Enumerator(loop_counts=(0, 1)).function_paths(body_fn(tail, fn.args)):
        has_dom = dominated = None
        for e in p.events:
            if e.kind == "guard":
                t = text(e.node)
                if "len(%s)" % domlist in t and isinstance(e.node, ast.Compare):
                    op = type(e.node.ops[0])
                    c = const_value(e.node.comparators[0]) if is_const(e.node.comparators[0]) else None
                    if (op is ast.Gt and c == 0) or (op is ast.GtE and c == 1) or (op is ast.NotEq and c == 0):
                        has_dom = e.val
                    elif op is ast.Eq and c == 0:
                        has_dom = not e.val
                elif t == domlist:
                    has_dom = e.val
                elif t == domflag:
                    dominated = e.val
        removed, appended = [], 0
        pe_ = PathEnv(fn, p.events)
        for k_, e in enumerate(p.events):
            if e.kind != "stmt":
                continue
            s = e.node
            if isinstance(s, ast.Delete):
                for t in s.targets:
                    if isinstance(t, ast.Subscript) and access_path(t.value) == pop:
                        # the index with the locals of this path looked through (idx = random.choice(..); del pop[idx])
                        removed.append(("del", text(pe_.expand_at(t.slice, k_))))
            for c in calls_in(s):
                mc = method_call(c)
                if mc and access_path(mc[0]) == pop:
                    if mc[1] == "append" and c.args and access_path(c.args[0]) == new:
                        appended += 1
                    elif mc[1] in ("remove", "pop"):
                        removed.append((mc[1], text(c.args[0]) if c.args else ""))
        key = "dominates_some=%s dominated=%s" % (has_dom, dominated)
        table[key] = {"removed": removed, "appended": appended}
        if has_dom:
            good = appended == 1 and len(removed) == 1 and removed[0][0] == "del" and removed[0][1] in ("random.choice(%s)" % domlist, "%s[0]" % domlist, "choice(%s)" % domlist)
            if not good:
                bad = bad or "an offspring that dominates members must replace ONE OF THE MEMBERS IT DOMINATES (found removed=%s, appended=%d)" % (removed, appended)
        elif dominated:
            if removed or appended:
                bad = bad or "an offspring that is dominated and dominates nobody must be rejected (found removed=%s, appended=%d)" % (removed, appended)
        elif has_dom is False and dominated is False:
            if appended != 1 or len(removed) != 1:
                bad = bad or "a non-dominated, non-dominating offspring must replace exactly one member (found removed=%s, appended=%d): the population size changes" % (removed, appended)
        else:
            if appended != len(removed):
                bad = bad or "population size changes on the path [%s]" % p.describe(4)
            elif has_dom is False and dominated is None and (appended or removed):
                bad = bad or "an offspring that dominates no member replaces a member without testing whether it is itself dominated: dominated offspring are accepted"
    ctx.extra["pop_acceptance_table"] = table
    ctx.sample({"pop_acceptance": table})
    if bad:
        ctx.violated("R6", C, where(mod, fn), bad, key="table")
    else:
        ctx.holds("R6", C, where(mod, fn), "size-preserving acceptance table holds on all tail paths: %s" % sorted(table), key="table")


def run(ctx):
    for rid, doc in (("R1", "generation tags"), ("R2", "batch sizes (generator init, generate() = N, copy selector)"), ("R3", "evaluation budget per generation"),
                     ("R4", "survivors tagged and recorded once"), ("R5", "NSGA-II pool and truncation"), ("R6", "steady-state acceptance table")):
        ctx.rule(rid, doc)
    ctx.assume("N >= 2, G >= 1; every evaluate() of a batch of N not-yet-evaluated designs costs N successful objective calls (C05, C06)")
    ctx.assume("that the 2N pool always contains N distinct designs, and the no-regression corollary as a run-time fact, are not decided")
    repo = ctx.repo
    r2_generate(ctx, repo)
    r2_copy_selector(ctx, repo)
    n = 0
    for cname, mname in (("NSGAII", "algorithm_NSGAII"), ("EpsMOEA", "algorithm_genetic"), ("OMOPSO", "algorithm_swarm"), ("SMPSO", "algorithm_swarm")):
        gl = r1_tags(ctx, repo, cname, mname)
        r345_run(ctx, repo, cname, mname, gl)
        n += 1
    ctx.count("runs_analysed", n)
    r6_acceptance(ctx, repo)
    # generational elitism and "N designs, none repeated" rest on the selection key and the truncation pipeline (C03 rules)
    from . import c03
    from .c18 import SubCtx
    sub = SubCtx(ctx, "R5", prefix="environmental selection: ")
    c03.r1_cmp(sub, repo)
    c03.r2_truncate(sub, repo)
    # ... on front numbers that are the Pareto ranks of the WHOLE pool (C02 rules for the sorting the run calls: a sorting that
    # stops ranking early, or ranks part of the pool by another schema, hands the truncation numbers that are not ranks)
    from . import c02
    c02.run_sorting(SubCtx(ctx, "R5", prefix="ranking of the pool: "))
    # ... and on the feasibility marker meaning the same for every design of an unconstrained problem (C05 rule)
    from . import c05
    c05.r3_marker_default(SubCtx(ctx, "R5", prefix="environmental selection: "), repo, rule="R5")
