"""C16 - multi-objective benchmarks satisfy the defining identities of their families.

R1  DTLZ schema (telescoping product form) for DTLZ1-4: objective i is
    (common factor) * prod_{j < S_i} C(x_j) * [i > 0] S(x_{E_i}); oracle
    E_i == S_i (D-AFF), C and S take the same inner angle (cos/sin) or are
    t / 1-t (DTLZ1), S_i = m-i-1 over i in [0, m), the common factor multiplies
    every objective exactly once, the distance function ranges over exactly
    the last k variables.  With the telescoping theorem this yields the
    sum / norm identities at every point of the box.
R2  with the distance variables at 0.5 and the position variables anywhere in
    [0,1] the common factor is exactly 1 (1/2 for DTLZ1): interval evaluation.
R3  ZDT1 and the bi-objective problem: the identities hold as equalities of
    rational normal forms (f1*f2 == 1 + x2;  f2 == g*(1 - sqrt(f1/g)),
    g == 1 + 9/(n-1)*(sum(x) - x1)).
R4  every objective is >= 0 on the whole box (interval evaluation, m in {2,3}).
"""
import ast
import copy

from ..astutil import text, access_path, func_params, stmts_of, single_defs, canon, range_bounds, is_const, const_value, calls_in
from ..ivl import I, DomainError
from ..ivlinterp import Interp, Obj, Ret, Unsupported, as_iv, join, Aff, module_env
from ..loader import where, AnalysisError
from .. import poly
from ..terms import Terms, PathEnv, fuse, alpha, canonical, self_effects_of, index_maps
from .. import nfinterp


def subst(node, mapping):
    """replace sub-expressions whose text is a key of mapping by Name(value)"""
    class T(ast.NodeTransformer):
        def generic_visit(self, n):
            if isinstance(n, ast.expr) and text(n) in mapping:
                return ast.Name(id=mapping[text(n)], ctx=ast.Load())
            return super().generic_visit(n)
    return T().visit(copy.deepcopy(node))


def _replace_name(expr, name, repl):
    class T(ast.NodeTransformer):
        def visit_Name(self, n):
            if n.id == name:
                return copy.deepcopy(repl)
            return n
    return T().visit(copy.deepcopy(expr))


def mult_factor(stmt, var):
    """factor expression if stmt is `var *= F` or `var = var * F` / `var = F * var`"""
    if isinstance(stmt, ast.AugAssign) and access_path(stmt.target) == var and isinstance(stmt.op, ast.Mult):
        return stmt.value
    if isinstance(stmt, ast.Assign) and len(stmt.targets) == 1 and access_path(stmt.targets[0]) == var and isinstance(stmt.value, ast.BinOp) \
            and isinstance(stmt.value.op, ast.Mult):
        if access_path(stmt.value.left) == var:
            return stmt.value.right
        if access_path(stmt.value.right) == var:
            return stmt.value.left
    return None


def r1_schema(ctx, repo, cname):
    cls = repo.cls(cname, "benchmark_pareto")
    mod = cls.module
    fn = cls.methods.get("evaluate")
    if fn is None:
        raise AnalysisError("%s.evaluate not found" % cname)
    C = "%s.evaluate" % cname
    defs = single_defs(fn)
    # vector name: x = x.vector rebinding or a local
    xn = None
    for s in fn.body:
        if isinstance(s, ast.Assign) and isinstance(s.value, ast.Attribute) and s.value.attr == "vector":
            xn = access_path(s.targets[0])
    mname = None
    for s in fn.body:
        if isinstance(s, ast.Assign) and text(s.value) == "len(self.costs)":
            mname = access_path(s.targets[0])
    outer = [s for s in fn.body if isinstance(s, ast.For) and isinstance(s.target, ast.Name) and range_bounds(s.iter)]
    if xn is None or mname is None or len(outer) != 1:
        ctx.inconclusive("R1", C, where(mod, fn), "objective loop / vector / objective count not recognised", key="schema")
        return None
    ol = outer[0]
    iv = ol.target.id
    rb = range_bounds(ol.iter)
    penv = {}
    dom_ok = (rb[0] is None or text(rb[0]) == "0") and access_path(rb[1]) == mname and rb[2] is None
    rets_ = {access_path(r_.value) for r_ in ast.walk(fn) if isinstance(r_, ast.Return) and r_.value is not None}
    appends_ = [c_ for c_ in calls_in(ol) if isinstance(c_.func, ast.Attribute) and c_.func.attr == "append" and access_path(c_.func.value) in rets_]
    if not dom_ok and not appends_:
        # not the schema "one objective appended per round": the loop is something else (the identities are decided by R5/R6)
        ctx.inconclusive("R1", C, where(mod, ol), "the loop %s does not append one objective per round to the returned list: schema not recognised" % text(ol.iter), key="schema")
        return None
    if not dom_ok:
        ctx.violated("R1", C, where(mod, ol), "the objective loop %s does not produce objectives 0..m-1" % text(ol.iter), key="schema")
        return None
    # accumulator: the variable appended to the result list
    apps = [c for s in ol.body if isinstance(s, ast.Expr) for c in calls_in(s) if isinstance(c.func, ast.Attribute) and c.func.attr == "append"]
    if len(apps) != 1 or not isinstance(apps[0].args[0], ast.Name):
        ctx.inconclusive("R1", C, where(mod, ol), "result append not recognised", key="schema")
        return None
    acc = apps[0].args[0].id
    prod_loop = None
    comp_if = None
    others = []
    init = None
    for s in ol.body:
        if isinstance(s, ast.For) and isinstance(s.target, ast.Name) and any(mult_factor(b, acc) is not None for b in s.body):
            prod_loop = s
        elif isinstance(s, ast.If) and any(mult_factor(b, acc) is not None for b in s.body):
            comp_if = s
        elif mult_factor(s, acc) is not None:
            others.append(s)
        elif isinstance(s, ast.Assign) and access_path(s.targets[0]) == acc:
            init = s
    if prod_loop is None or comp_if is None or init is None:
        ctx.inconclusive("R1", C, where(mod, ol), "product loop / complement factor / initial value of the objective not recognised", key="schema")
        return None
    # order: init, product loop, complement, then the remaining factors (any order among multiplications)
    if ol.body.index(init) > ol.body.index(prod_loop):
        ctx.violated("R1", C, where(mod, init), "the objective is re-initialised after the product loop", key="schema")
        return None
    jv = prod_loop.target.id
    TT = Terms(fn)
    # terms are written over the entry values; fold the two definitions back to their names
    back = {"len(self.costs)": mname}
    for s_ in fn.body:
        if isinstance(s_, ast.Assign) and isinstance(s_.value, ast.Attribute) and s_.value.attr == "vector" and access_path(s_.targets[0]) == xn:
            back[text(s_.value)] = xn

    def xp(e, at):
        return subst(index_maps(TT.expand(e, at=at, skip=(mname, xn))), back)
    prb = range_bounds(xp(prod_loop.iter, prod_loop))
    if prb is None:
        ctx.inconclusive("R1", C, where(mod, prod_loop), "the product loop %s is not a range loop" % text(prod_loop.iter), key="schema")
        return None
    S = prb[1]
    try:
        S_ok = (prb[0] is None or text(prb[0]) == "0") and poly.equal(S, poly.parse("%s - %s - 1" % (mname, iv)))
    except Exception:
        S_ok = None
    if S_ok is False:
        ctx.violated("R1", C, where(mod, prod_loop), "objective i multiplies %s position factors, expected m-i-1" % text(S), key="product-range")
    elif S_ok is None:
        ctx.inconclusive("R1", C, where(mod, prod_loop), "product range not normalisable", key="product-range")
    else:
        ctx.holds("R1", C, where(mod, prod_loop), "objective i is a product over j in [0, m-i-1)", key="product-range")
    # complement guard i > 0
    t = comp_if.test
    # the guard as a predicate of the objective number: false for objective 0, true for 1, 2, ... (however it is spelt)
    from ..astutil import ceval, NotEvaluable
    try:
        truth = [bool(ceval(t, {iv: k_})) for k_ in range(0, 8)]
        g_ok = truth == [False] + [True] * 7
    except NotEvaluable:
        g_ok = None
    if g_ok is False:
        ctx.violated("R1", C, where(mod, comp_if), "the complement factor is applied under `%s` (objectives %s), expected for every objective but the first (i > 0)"
                     % (text(t), [k_ for k_, v_ in enumerate(truth) if v_]), key="complement-guard")
    elif g_ok is None:
        ctx.inconclusive("R1", C, where(mod, comp_if), "the guard `%s` of the complement factor is not a predicate of the objective number alone" % text(t), key="complement-guard")
    Cf = [xp(mult_factor(b, acc), b) for b in prod_loop.body if mult_factor(b, acc) is not None]
    Sf = [xp(mult_factor(b, acc), b) for b in comp_if.body if mult_factor(b, acc) is not None]
    if len(Cf) != 1 or len(Sf) != 1:
        ctx.violated("R1", C, where(mod, ol), "%d position factor(s) per product step and %d complement factor(s) (expected 1 and 1)" % (len(Cf), len(Sf)), key="factors")
        return None
    Cf, Sf = Cf[0], Sf[0]
    # elementwise-mapped copies of the vector:  xa = [F(xi) for xi in x[...]]  =>  xa[e] == F(x[e])
    mapped = {}
    for st in fn.body:
        if isinstance(st, ast.Assign) and isinstance(st.targets[0], ast.Name) and isinstance(st.value, ast.ListComp) \
                and len(st.value.generators) == 1 and not st.value.generators[0].ifs and isinstance(st.value.generators[0].target, ast.Name):
            g = st.value.generators[0]
            src = g.iter.value if isinstance(g.iter, ast.Subscript) and isinstance(g.iter.slice, ast.Slice) and g.iter.slice.lower is None else g.iter
            if access_path(src) == xn:
                mapped[st.targets[0].id] = (g.target.id, st.value.elt)

    def unmap(expr):
        class T(ast.NodeTransformer):
            def visit_Subscript(self, n):
                self.generic_visit(n)
                b = access_path(n.value)
                if b in mapped and not isinstance(n.slice, ast.Slice):
                    var, elt = mapped[b]
                    return subst(elt, {var: "__EL__"}) if False else _replace_name(elt, var, ast.Subscript(value=ast.Name(id=xn, ctx=ast.Load()), slice=n.slice, ctx=ast.Load()))
                return n
        return T().visit(copy.deepcopy(expr))
    Cf, Sf = unmap(Cf), unmap(Sf)
    # index of the complement variable
    subs_c = [n for n in ast.walk(Cf) if isinstance(n, ast.Subscript) and access_path(n.value) == xn]
    subs_s = [n for n in ast.walk(Sf) if isinstance(n, ast.Subscript) and access_path(n.value) == xn]
    if len(subs_c) != 1 or len(subs_s) != 1 or access_path(subs_c[0].slice) != jv:
        ctx.inconclusive("R1", C, where(mod, ol), "position variable accesses not recognised", key="factors")
        return None
    E = subs_s[0].slice
    eq = poly.equal(E, S)
    if eq is False:
        ctx.violated("R1", C, where(mod, comp_if),
                     "objective i multiplies cos-type factors of x[0..%s) but its complement factor reads x[%s]: the telescoping identity (sum / norm = common factor) needs x[%s]"
                     % (text(S), text(E), text(S)), key="sin-index", facts={"product_stop": text(S), "complement_index": text(E)})
    elif eq is None:
        ctx.inconclusive("R1", C, where(mod, comp_if), "complement index %s not normalisable" % text(E), key="sin-index")
    else:
        ctx.holds("R1", C, where(mod, comp_if), "complement factor reads x[m-i-1], the first variable not in the product (E_i == S_i)", key="sin-index")
    # same angle / complementary pair
    Ct = subst(Cf, {text(subs_c[0]): "t"})
    St = subst(Sf, {text(subs_s[0]): "t"})
    pair_ok = None
    kind = None
    if isinstance(Ct, ast.Call) and isinstance(St, ast.Call) and (access_path(Ct.func) or "").split(".")[-1] == "cos" \
            and (access_path(St.func) or "").split(".")[-1] == "sin":
        kind = "cos/sin"
        # constants from the function (alpha = 100)
        consts = {k: v for k, v in defs.items() if is_const(v)}
        pair_ok = poly.equal(Ct.args[0], St.args[0], consts)
    elif isinstance(Ct, ast.Name) and Ct.id == "t":
        kind = "t/(1-t)"
        pair_ok = poly.equal(St, poly.parse("1 - t"))
    elif isinstance(Ct, ast.Call) and (access_path(Ct.func) or "").split(".")[-1] == "sin" and isinstance(St, ast.Call) \
            and (access_path(St.func) or "").split(".")[-1] == "cos":
        kind = "sin/cos"
        consts = {k: v for k, v in defs.items() if is_const(v)}
        pair_ok = poly.equal(Ct.args[0], St.args[0], consts)
    if pair_ok:
        ctx.holds("R1", C, where(mod, comp_if), "position/complement factors form a %s pair of the same argument: C(t)^2 + S(t)^2 = 1 resp. C + S = 1" % kind, key="pair")
    elif pair_ok is False:
        ctx.violated("R1", C, where(mod, comp_if), "position factor %s and complement factor %s do not use the same inner angle: they are not a (cos, sin) pair of one argument" % (text(Cf), text(Sf)), key="pair")
    else:
        ctx.inconclusive("R1", C, where(mod, comp_if), "factor shapes %s / %s not recognised" % (text(Cf), text(Sf)), key="pair")
    # common factor exactly once: either as the initial value or one multiplication
    init_is_one = is_const(init.value) and const_value(init.value) == 1
    n_common = len(others) + (0 if init_is_one else 1)
    if n_common != 1:
        ctx.violated("R1", C, where(mod, ol), "the common factor (1+g) is applied %d time(s) per objective (expected exactly once)" % n_common, key="common-factor")
        return None
    common = others[0] if others else init
    cexpr = mult_factor(common, acc) if others else init.value
    ctx.holds("R1", C, where(mod, common), "common factor %s applied once to every objective" % text(cexpr), key="common-factor")
    return {"x": xn, "m": mname, "common": cexpr, "fn": fn, "cls": cls}


def make_self(cls, repo, m, n):
    return Obj(costs=[{"name": "f%d" % i} for i in range(m)], dimension=n, parameters=[{"bounds": [0.0, 1.0]}] * n)


def run_eval(cls, repo, m, n, box):
    fn = cls.methods["evaluate"]
    it = Interp(module_functions=module_env(cls.module))
    selfo = make_self(cls, repo, m, n)
    # methods of the class callable as self.f(...)
    env = {func_params(fn)[0]: selfo, func_params(fn)[1]: Obj(vector=list(box))}
    it.methods = cls.methods
    val = None
    try:
        it.block(fn.body, env)
    except Ret as r:
        val = r.value
    return val, env, it


class MInterp(Interp):
    """Interp that can call methods of the benchmark class on `self`"""

    def __init__(self, cls, selfo):
        super().__init__(dict(cls.module.functions))
        self.cls, self.selfo = cls, selfo

    def e_Attribute(self, n, env):
        # self.TABLE: a class-level literal of the analysed class (or of a base class in the same module)
        if isinstance(n.value, ast.Name) and env.get(n.value.id) is self.selfo and n.attr not in getattr(self.selfo, "attrs", {}):
            from ..loader import ClassInfo  # noqa: F401
            todo, seen = [self.cls], set()
            while todo:
                k = todo.pop(0)
                if id(k) in seen:
                    continue
                seen.add(id(k))
                if n.attr in k.class_attrs:
                    v = k.class_attrs[n.attr]
                    if not any(isinstance(x, (ast.Call, ast.Lambda, ast.Name)) for x in ast.walk(v)):
                        return self.ev(v, {})
                    break
                for b in k.bases:
                    if b in k.module.classes:
                        todo.append(k.module.classes[b])
        return super().e_Attribute(n, env)

    def e_Call(self, n, env):
        if isinstance(n.func, ast.Attribute) and isinstance(n.func.value, ast.Name) and env.get(n.func.value.id) is self.selfo \
                and n.func.attr in self.cls.methods:
            args = [self.ev(a, env) for a in n.args]
            meth = self.cls.methods[n.func.attr]
            static = any(isinstance(d, ast.Name) and d.id == "staticmethod" for d in meth.decorator_list)
            return self.call_function(meth, args, {}, self_obj=None if static else self.selfo)
        return super().e_Call(n, env)


def eval_box(cls, m, n, box):
    fn = cls.methods["evaluate"]
    selfo = Obj(costs=[{"name": "f%d" % i} for i in range(m)], dimension=n)
    it = MInterp(cls, selfo)
    boxd = dict(enumerate(box))
    # a point needs no affine form (and the exact zeros of a face point must stay exact)
    env = {func_params(fn)[0]: selfo, func_params(fn)[1]: Obj(vector=[box[i] if (isinstance(box[i], I) and box[i].is_point()) else Aff.var(i, boxd)
                                                                        for i in range(len(box))])}
    val = None
    try:
        it.block(fn.body, env)
    except Ret as r:
        val = r.value
    return val, env, it


def r2_r4(ctx, repo, cname, info, k_of):
    cls = repo.cls(cname, "benchmark_pareto")
    mod = cls.module
    fn = cls.methods["evaluate"]
    C = "%s.evaluate" % cname
    for m in (2, 3):
        n = k_of(m)
        # R4: whole box
        try:
            val, env, it = eval_box(cls, m, n, [I(0.0, 1.0)] * n)
        except DomainError as e:
            ctx.violated("R4", C, where(mod, fn), "possible domain error on the box for m=%d: %s" % (m, e), key="nonneg-m%d" % m)
            continue
        except Unsupported as e:
            ctx.inconclusive("R4", C, where(mod, fn), "interval evaluation not possible (m=%d): %s" % (m, e), key="nonneg-m%d" % m)
            continue
        if not isinstance(val, list) or len(val) != m:
            ctx.violated("R4", C, where(mod, fn), "evaluate returns %r for m=%d objectives" % (val, m), key="nonneg-m%d" % m)
            continue
        los = [as_iv(v).lo for v in val]
        if min(los) >= -1e-9:
            ctx.holds("R4", C, where(mod, fn), "m=%d, n=%d: objective enclosures on the box have lower bounds %s >= 0 (up to 1e-9 rounding)" % (m, n, ["%.3g" % l for l in los]), key="nonneg-m%d" % m)
        else:
            ctx.inconclusive("R4", C, where(mod, fn), "m=%d: lower bounds %s: the natural interval extension cannot prove non-negativity" % (m, los), key="nonneg-m%d" % m)
        # R2: distance variables at 0.5, position variables anywhere
        if info is None:
            continue
        box = [I(0.0, 1.0)] * (m - 1) + [I(0.5)] * (n - m + 1)
        try:
            val, env, it = eval_box(cls, m, n, box)
            fac = it.ev(info["common"], env)
        except (DomainError, Unsupported) as e:
            ctx.inconclusive("R2", C, where(mod, fn), "common factor not evaluable at the Pareto set (m=%d): %s" % (m, e), key="pareto-factor-m%d" % m)
            continue
        want = 0.5 if cname == "DTLZI" else 1.0
        f = as_iv(fac)
        if abs(f.lo - want) <= 1e-9 and abs(f.hi - want) <= 1e-9:
            ctx.holds("R2", C, where(mod, fn), "m=%d: with the %d distance variables at 0.5 the common factor is %r = %s for every position value" % (m, n - m + 1, f, want), key="pareto-factor-m%d" % m)
        elif f.hi < want - 1e-9 or f.lo > want + 1e-9:
            ctx.violated("R2", C, where(mod, fn), "m=%d: with the distance variables at 0.5 the common factor is %r, expected %s: the Pareto set does not map onto the unit sphere / simplex" % (m, f, want), key="pareto-factor-m%d" % m)
        else:
            ctx.inconclusive("R2", C, where(mod, fn), "m=%d: common factor enclosure %r too wide" % (m, f), key="pareto-factor-m%d" % m)


def r5_points(ctx, repo, cname, k):
    """refutation only: rigorous interval evaluation of evaluate() at a few rational points of the box for m = 2..5; the family
    identity (sum = (1+g)/2, norm = 1+g with the family's own distance function g) must lie inside the enclosure.  A
    disjoint enclosure is a definite violation at that point; agreement proves nothing and is reported as such."""
    cls = repo.cls(cname, "benchmark_pareto")
    mod = cls.module
    fn = cls.methods["evaluate"]
    C = "%s.evaluate" % cname
    import math
    from fractions import Fraction
    checked = 0
    thorough = getattr(ctx, "tier", None) == "thorough" or getattr(getattr(ctx, "ctx", None), "tier", None) == "thorough"
    for m in ((2, 3, 4, 5, 6, 7) if thorough else (2, 3, 4, 5)):
        n = m + k - 1
        for variant in (list(range(8)) + [-1, -2, -3, -4] if thorough else (0, 1, -1, -2, -4)):
            if variant == -4:
                # points next to the front: the distance variables a little off 0.5 - by amounts taken from the thresholds
                # the code itself compares with (a branch that only a thin shell of the box takes), else by 0.004
                thr = sorted({abs(float(c_.value)) for cmp_ in ast.walk(fn) if isinstance(cmp_, ast.Compare) for c_ in ast.walk(cmp_)
                              if isinstance(c_, ast.Constant) and isinstance(c_.value, float) and 0 < abs(c_.value) < 0.5}) or [0.008]
                offs = [t_ * f_ for t_ in thr for f_ in (0.5, 0.9)]
                xs = [float(Fraction(2 * j + 3, 2 * n + 7)) for j in range(n)]
                for j in range(n - k, n):
                    xs[j] = 0.5 + offs[j % len(offs)] * (1 if j % 2 else -1)
            elif variant == 0:
                xs = [float(Fraction(2 * j + 3, 2 * n + 7)) for j in range(n)]
            elif variant == 1:
                xs = [0.15 + 0.7 * ((j * 7) % 10) / 10.0 for j in range(n)]
            elif variant < 0:
                # points on the faces of the box: one position variable exactly 0 / exactly 1 (sin(0) and x = 0 are exact zeros)
                xs = [float(Fraction(2 * j + 3, 2 * n + 7)) for j in range(n)]
                xs[{-1: 0, -2: min(m - 2, 1), -3: 0}[variant]] = 1.0 if variant == -3 else 0.0
            else:
                # low-discrepancy points of the box (fractional parts of multiples of square roots of primes)
                xs = [((variant * (j + 1) * math.sqrt((2, 3, 5, 7, 11, 13, 17, 19)[(j + variant) % 8])) % 1.0) * 0.98 + 0.01 for j in range(n)]
            try:
                val, env, it = eval_box(cls, m, n, [I(x) for x in xs])
            except (DomainError, Unsupported, Exception):
                continue
            if not isinstance(val, list) or len(val) != m:
                continue
            tail = [I(x) for x in xs[n - k:]]
            half = I(0.5)
            if cname in ("DTLZI", "DTLZIII"):
                g = I(float(k))
                for t in tail:
                    d = t - half
                    g = g + (d.sqr() - (I(20.0) * I(math.pi).hull(I(math.nextafter(math.pi, 4.0))) * d).cos())
                g = I(100.0) * g
            else:
                g = I(0.0)
                for t in tail:
                    g = g + (t - half).sqr()
            if cname == "DTLZI":
                lhs = I(0.0)
                for v in val:
                    lhs = lhs + as_iv(v)
                rhs = (I(1.0) + g) * I(0.5)
                what = "sum of the objectives"
            else:
                lhs = I(0.0)
                for v in val:
                    lhs = lhs + as_iv(v).sqr()
                rhs = (I(1.0) + g).sqr()
                what = "squared norm of the objective vector"
            checked += 1
            scale = max(abs(rhs.lo), abs(rhs.hi), 1.0)
            if lhs.lo > rhs.hi + 1e-9 * scale or lhs.hi < rhs.lo - 1e-9 * scale:
                ctx.violated("R5", C, where(mod, fn), "m=%d, x=%s: the %s is in [%.9g, %.9g] but the family identity requires [%.9g, %.9g]" % (
                    m, ["%.4g" % x for x in xs[:m]] + ["..."], what, lhs.lo, lhs.hi, rhs.lo, rhs.hi), key="identity-at-points")
                return
    if checked:
        ctx.holds("R5", C, where(mod, fn), "the family identity is consistent with the rigorous enclosures at %d sample points (m = 2..5); this rule can only refute" % checked, key="identity-at-points")
    else:
        ctx.inconclusive("R5", C, where(mod, fn), "evaluate() could not be enclosed at the sample points", key="identity-at-points")


def r6_instances(ctx, repo, cname):
    """the family identity as an equality of exact normal forms for fixed instance sizes: evaluate() is
    interpreted over the atoms x0..x(n-1) (loops unroll because m and n are concrete), the sum resp. the sum of
    squares of the returned terms is compared with (1+g)/2 resp. (1+g)^2, g the family's distance function of the
    last k variables, modulo field axioms and sin^2 + cos^2 = 1.  Returns True (all instances proved), None else."""
    import math
    cls = repo.cls(cname, "benchmark_pareto")
    mod = cls.module
    fn = cls.methods["evaluate"]
    C = "%s.evaluate" % cname
    thorough = getattr(ctx, "tier", None) == "thorough"
    if cname == "DTLZI":
        sizes = [(m, k) for m in ((2, 3, 4, 5) if thorough else (2, 3, 4)) for k in ((1, 2, 3, 4, 5) if thorough else (1, 2, 3))]
    else:
        # the property fixes the dimension of DTLZ2-4 at m + 9: ten distance variables
        sizes = [(m, 10) for m in ((2, 3, 4, 5, 6) if thorough else (2, 3, 4))]
    proved, failed, skipped = [], [], []
    NF, lift, const = nfinterp.NF, nfinterp.lift, nfinterp.const
    for m, k in sizes:
        n = m + k - 1
        xs = nfinterp.coords(n)
        selfo = Obj(costs=[{"name": "f%d" % i} for i in range(m)], dimension=n, parameters=[{"bounds": [0.0, 1.0]}] * n)
        try:
            val = nfinterp.run_method(cls.methods, module_env(mod), fn, selfo, xs)
            if not isinstance(val, (list, tuple)) or len(val) != m:
                skipped.append((m, k, "evaluate returns %r" % (val,)))
                continue
            fs = [lift(v) for v in val]
            half = const(0.5)
            tail = [x.r for x in xs[n - k:]]
            if cname in ("DTLZI", "DTLZIII"):
                g = const(k)
                for t in tail:
                    d = t - half
                    g = g + (d * d - nfinterp.fatom("cos", const(20.0) * const(math.pi) * d).r)
                g = const(100.0) * g
            else:
                g = const(0)
                for t in tail:
                    d = t - half
                    g = g + d * d
            one = const(1)
            if cname == "DTLZI":
                lhs = const(0)
                for f in fs:
                    lhs = lhs + f
                rhs = (one + g) * half
            else:
                lhs = const(0)
                for f in fs:
                    lhs = lhs + f * f
                rhs = (one + g) * (one + g)
            if nfinterp.equal_mod_pythagoras(lhs, rhs):
                proved.append((m, k))
            else:
                failed.append((m, k))
        except (Unsupported, DomainError, poly.NotPolynomial, RecursionError) as e:
            skipped.append((m, k, str(e)))
    ctx.extra.setdefault("instance_identities", {})[cname] = {"proved": proved, "different_normal_form": failed, "outside_fragment": [list(x) for x in skipped]}
    what = "objectives sum to (1+g)/2" if cname == "DTLZI" else "squared objectives sum to (1+g)^2"
    if proved and not failed and not skipped:
        ctx.holds("R6", C, where(mod, fn), "%s as an identity of exact normal forms (field axioms, sin^2+cos^2=1) for every instance (m, k) in %s" % (what, proved), key="identity-instances")
        return True
    # different normal forms prove nothing by themselves (R5 refutes numerically where it can)
    return None


def distance_range(ctx, repo, cname, info):
    """the distance function reads exactly the last k variables"""
    if info is None:
        return
    cls, fn, xn = info["cls"], info["fn"], info["x"]
    mod = cls.module
    C = "%s.evaluate" % cname
    # DTLZ2-4: for i in range(0, k): x[len(x) - i - 1] ; DTLZ1: for y in x[nvar - k:]
    idxs = []
    TT = Terms(fn)
    back = {"len(self.costs)": info["m"]}
    for s_ in fn.body:
        if isinstance(s_, ast.Assign) and isinstance(s_.value, ast.Attribute) and s_.value.attr == "vector" and access_path(s_.targets[0]) == xn:
            back[text(s_.value)] = xn
    for s in stmts_of(fn):
        if isinstance(s, ast.For) and isinstance(s.target, ast.Name):
            rb = range_bounds(subst(TT.expand(s.iter, at=s, skip=(xn, info["m"])), back))
            for b in s.body:
                if isinstance(b, ast.AugAssign) and isinstance(b.op, ast.Add):
                    bv = subst(TT.expand(b.value, at=b, skip=(xn, info["m"])), back)
                    subs = {text(n.slice) for n in ast.walk(bv) if isinstance(n, ast.Subscript) and access_path(n.value) == xn}
                    if rb and len(subs) == 1:
                        idxs.append((s, rb, next(iter(subs))))
    slices = [n for n in ast.walk(fn) if isinstance(n, ast.Subscript) and access_path(n.value) == xn and isinstance(n.slice, ast.Slice)]
    defs = single_defs(fn)
    ok = None
    detail = ""
    if idxs:
        lp, rb, idx = idxs[-1]
        v = lp.target.id
        try:
            start = rb[0] if rb[0] is not None else poly.parse("0")
            e_first = poly.norm(poly.parse(idx), {v: start})
            e_last = poly.norm(poly.parse(idx), {v: ast.BinOp(left=rb[1], op=ast.Sub(), right=ast.Constant(value=1))})
            slope = poly.norm(poly.parse(idx), {v: poly.parse("1")}) - poly.norm(poly.parse(idx), {v: poly.parse("0")})
            count = poly.norm(rb[1]) - poly.norm(start)
            top = poly.norm(poly.parse("len(%s) - 1" % xn))
            if rb[2] is not None or not slope.is_const() or abs(slope.const()) != 1:
                ok = None
            else:
                hi_, lo_ = (e_first, e_last) if slope.const() < 0 else (e_last, e_first)
                # the indices read are the contiguous block [top - count + 1, top]
                ok = bool(hi_ == top and (hi_ - lo_) == count - poly.norm(poly.parse("1")))
                detail = "sum over the last %s variables (indices %s down to %s)" % (poly.key_of(count), poly.key_of(hi_), poly.key_of(lo_))
                if not ok:
                    detail = "the distance function reads x[%s] for %s in %s, not the last k variables" % (idx, v, text(lp.iter))
        except poly.NotPolynomial:
            ok = None
    elif slices:
        sl = slices[0].slice
        consts = {}
        ok = sl.upper is None and sl.step is None and sl.lower is not None and bool(poly.equal(canon(sl.lower, defs), canon(poly.parse("len(%s) - (len(%s) - %s + 1)" % (xn, xn, info["m"])), defs)))
        detail = "sum over the slice x[%s:] = the last k = n-m+1 variables" % text(sl.lower)
        if not ok:
            detail = "the distance function reads the slice %s, not the last k = n-m+1 variables" % text(slices[0])
    if ok is None:
        ctx.inconclusive("R1", C, where(mod, fn), "distance-variable range not recognised", key="distance-range")
    else:
        ctx.check(ok, "R1", C, where(mod, fn), detail, key="distance-range")


def r3_shapes(ctx, repo):
    # --- bi-objective: f1 * f2 == 1 + x2
    cls = repo.cls("BiObjectiveTestProblem", "benchmark_pareto")
    fn = cls.methods.get("evaluate")
    C = "BiObjectiveTestProblem.evaluate"
    ind = func_params(fn)[1]
    rts = [t for _, t in Terms(fn).returns if t is not None]
    try:
        if len(rts) != 1 or not isinstance(rts[0], (ast.List, ast.Tuple)) or len(rts[0].elts) != 2:
            raise poly.NotPolynomial("returned value %s is not a pair of objectives" % (text(rts[0]) if rts else "?"))
        f1, f2 = (poly.norm(e) for e in rts[0].elts)
        ok = (f1 * f2) == poly.norm(poly.parse("1 + %s.vector[1]" % ind)) and f1 == poly.norm(poly.parse("%s.vector[0]" % ind))
        ctx.check(ok, "R3", C, where(cls.module, fn), "f1 = x1 and f1*f2 == 1 + x2 as rational normal forms" if ok else
                  "f1*f2 normalises to %s, not to 1 + x2" % poly.key_of(f1 * f2))
    except poly.NotPolynomial as e:
        ctx.inconclusive("R3", C, where(cls.module, fn), "not normalisable: %s" % e)
    # --- ZDT1
    cls = repo.cls("ZDT1", "benchmark_pareto")
    C = "ZDT1.evaluate"
    ev, eg, eh = cls.methods.get("evaluate"), cls.methods.get("eval_g"), cls.methods.get("eval_h")
    if not (ev and eg and eh):
        raise AnalysisError("ZDT1.evaluate / eval_g / eval_h not found")
    try:
        eff = self_effects_of(repo, cls)

        def one_return(f):
            r = [t for _, t in Terms(f, self_effects=eff).returns if t is not None]
            if len(r) != 1:
                raise poly.NotPolynomial("%s has %d returned values" % (f.name, len(r)))
            return r[0]
        xp = func_params(ev)[1]
        gp = func_params(eg)[1]
        g_val = poly.norm(one_return(eg))
        want_g = poly.norm(poly.parse("1 + 9 / (len({x}.vector) - 1) * (sum({x}.vector) - {x}.vector[0])".format(x=gp)))
        ok_g = g_val == want_g
        hps = func_params(eh)
        if any(isinstance(d, ast.Name) and d.id == 'staticmethod' for d in eh.decorator_list):
            hps = ['self'] + hps
        if len(hps) < 3:
            raise poly.NotPolynomial('eval_h does not take (f, g)')
        hf, hg = hps[1:3]
        ok_h = poly.norm(one_return(eh)) == poly.norm(poly.parse("1 - sqrt(%s / %s)" % (hf, hg)))
        rt = one_return(ev)
        ok_e = False
        if isinstance(rt, (ast.List, ast.Tuple)) and len(rt.elts) == 2:
            x1 = poly.norm(poly.parse("%s.vector[0]" % xp))
            state = {"args_ok": True, "g": 0, "h": 0}

            class Inl(ast.NodeTransformer):
                def visit_Call(self, n):
                    self.generic_visit(n)
                    p_ = access_path(n.func) or ""
                    if p_ == "self.eval_g":
                        state["g"] += 1
                        if not (len(n.args) == 1 and access_path(n.args[0]) == xp):
                            state["args_ok"] = False
                        return ast.Name(id="G", ctx=ast.Load())
                    if p_ == "self.eval_h":
                        state["h"] += 1
                        if not (len(n.args) == 2 and access_path(n.args[1]) == "G" and poly.equal(n.args[0], poly.parse("%s.vector[0]" % xp))):
                            state["args_ok"] = False
                        return ast.Name(id="H", ctx=ast.Load())
                    return n
            f1 = poly.norm(Inl().visit(copy.deepcopy(rt.elts[0])))
            f2 = poly.norm(Inl().visit(copy.deepcopy(rt.elts[1])))
            ok_e = state["args_ok"] and state["g"] >= 1 and state["h"] == 1 and f1 == x1 and f2 == poly.norm(poly.parse("H * G"))
        if ok_g and ok_h and ok_e:
            ctx.holds("R3", C, where(cls.module, ev), "g == 1 + 9/(n-1)*(sum(x)-x1), h == 1 - sqrt(f1/g), f2 == g*h (rational normal forms)")
        else:
            bad = [n for n, okx in (("eval_g", ok_g), ("eval_h", ok_h), ("evaluate", ok_e)) if not okx]
            ctx.violated("R3", C, where(cls.module, {"eval_g": eg, "eval_h": eh, "evaluate": ev}[bad[0]]),
                         "the ZDT1 identity f2 = g(1 - sqrt(f1/g)), g = 1 + 9 mean(x2..xn) does not hold symbolically: %s deviates" % ", ".join(bad))
    except (poly.NotPolynomial, IndexError, AttributeError) as e:
        ctx.inconclusive("R3", C, where(cls.module, ev), "not normalisable: %s" % e)


def run(ctx):
    for rid, doc in (("R1", "DTLZ telescoping schema (index equality, same angle, common factor once, distance range)"),
                     ("R2", "common factor = 1 (1/2) with distance variables at 0.5 for all position values"),
                     ("R3", "ZDT1 / bi-objective identities as rational normal forms"), ("R4", "objectives non-negative on the box (interval evaluation)"),
                     ("R5", "refutation: family identity inside rigorous enclosures at sample points, m = 2..5"),
                     ("R6", "family identity as an equality of exact normal forms for fixed instance sizes (loops unrolled, coordinates as atoms)")):
        ctx.rule(rid, doc)
    ctx.axiom("telescoping: sum_i [prod_{j<m-i-1} c_j] s_{m-i-1} (s_m := 1) equals 1 when c_j + s_j = 1, and the squares sum to 1 when c_j^2 + s_j^2 = 1")
    ctx.assume("the identities as numeric facts at concrete points are not decided; interval evaluations use m in {2,3}")
    repo = ctx.repo
    n = 0
    for cname, k_of in (("DTLZI", lambda m: m + 4), ("DTLZII", lambda m: m + 9), ("DTLZIII", lambda m: m + 9), ("DTLZIV", lambda m: m + 9)):
        first = len(ctx.instances)
        try:
            info = r1_schema(ctx, repo, cname)
        except (AttributeError, IndexError, TypeError, KeyError) as e_:
            ctx.inconclusive("R1", "%s.evaluate" % cname, "", "schema recogniser gave up (%s: %s)" % (type(e_).__name__, e_), key="schema")
            info = None
        distance_range(ctx, repo, cname, info)
        r2_r4(ctx, repo, cname, info, k_of)
        r5_points(ctx, repo, cname, k_of(2) - 1)
        if r6_instances(ctx, repo, cname) and not any(i.outcome == "VIOLATED" for i in ctx.instances[first:]):
            # the general-m schema (R1) may not recognise a new spelling of the products; the identity itself is then
            # established for the enumerated instance sizes only, which is what the verdict says
            waived = ctx.extra.setdefault("coverage_waived", [])
            for r_ in ("R1", "R2"):
                if r_ not in waived and any(i.outcome == "INCONCLUSIVE" and i.rule in ("R1", "R2") for i in ctx.instances[first:]):
                    waived.append(r_)
            for i in ctx.instances[first:]:
                if i.outcome == "INCONCLUSIVE" and i.rule in ("R1", "R2"):
                    i.outcome = "HOLDS"
                    i.detail = "general schema not recognised (%s); the identity is established by R6 for the enumerated instance sizes" % i.detail
        n += 1
    ctx.count("dtlz_classes", n)
    r3_shapes(ctx, repo)
    for cname, box in (("ZDT1", [I(0.0, 1.0)] * 30), ("BiObjectiveTestProblem", [I(0.1, 1.0), I(0.0, 5.0)])):
        cls = repo.cls(cname, "benchmark_pareto")
        try:
            val, env, it = eval_box(cls, 2, len(box), box)
            los = [as_iv(v).lo for v in val]
            if min(los) >= -1e-9:
                ctx.holds("R4", "%s.evaluate" % cname, where(cls.module, cls.methods["evaluate"]), "objective lower bounds on the box: %s" % ["%.3g" % l for l in los], key="nonneg")
            else:
                ctx.inconclusive("R4", "%s.evaluate" % cname, where(cls.module, cls.methods["evaluate"]), "lower bounds %s not provably >= 0" % los, key="nonneg")
        except DomainError as e:
            ctx.violated("R4", "%s.evaluate" % cname, where(cls.module, cls.methods["evaluate"]), "possible domain error on the box: %s" % e, key="nonneg")
        except Unsupported as e:
            ctx.inconclusive("R4", "%s.evaluate" % cname, where(cls.module, cls.methods["evaluate"]), "interval evaluation not possible: %s" % e, key="nonneg")
