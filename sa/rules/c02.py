"""C02 - non-dominated sorting assigns every individual its true Pareto rank.

Deb's counter/peeling algorithm ranks correctly for any strict partial order
(theorem); the check proves that Selector.fast_nondominated_sorting *is* that
algorithm.

R1  pair coverage: the two loops visit every unordered pair exactly once
    (inner start = outer index + 1, inner stop = len of the same list) and
    every visited pair reaches the comparator exactly once on every path - no
    pair is skipped.
R2  mirror bookkeeping per verdict: 1 -> first argument's dominated-list gets
    the second's id and the second's counter += 1; 2 -> mirror image; 0 ->
    nothing.
R3  reset before the pair loop: counter 0, front None, a fresh dominated-list
    per member.
R4  the "counter == 0 => front 1" test for p sits after p's inner loop.
R5  peeling (affine index tracking over the while body): the previous front
    is the one tested non-empty; each recorded id is decremented exactly once;
    a member is ranked when its counter reaches zero with (previous front
    index + 1), into the list of that index; front numbering starts at 1.
R6  ownership: every write to the three bookkeeping features in the function
    is one of the writes named above.
"""
import ast

from ..astutil import oriented, flag_values, call_arg
from ..astutil import (text, access_path, calls_in, func_params, stmts_of, is_const, const_value, method_call, range_bounds,
                       store_targets, fold)
from ..loader import where, AnalysisError
from ..paths import Enumerator
from ..terms import Terms, PathEnv
from .. import poly
from .c04 import drop_outside_domain

FEATS = ("domination_counter", "front_number", "dominate")


def feat(node):
    """(owner_path, feature) for X.features['name'] nodes"""
    if isinstance(node, ast.Subscript) and isinstance(node.slice, ast.Constant) and isinstance(node.value, ast.Attribute) \
            and node.value.attr == "features":
        return access_path(node.value.value), node.slice.value
    return None


def body_fn(stmts, args, lineno=0):
    return ast.FunctionDef(name="body", args=args, body=stmts, decorator_list=[], returns=None, type_comment=None, lineno=lineno, col_offset=0)


def arity_ok(call, init):
    """can `K(*call.args, **call.keywords)` be bound to K.__init__ (self excluded)?"""
    a = init.args
    params = [x.arg for x in a.args][1:]
    ndef = len(a.defaults)
    required = set(params[:len(params) - ndef] if ndef else params)
    if len(call.args) > len(params) and not a.vararg:
        return False
    bound = set(params[:len(call.args)])
    for k in call.keywords:
        if k.arg is None:
            return None
        if k.arg not in params and k.arg not in [x.arg for x in a.kwonlyargs] and not a.kwarg:
            return False
        if k.arg in bound:
            return False
        bound.add(k.arg)
    return required <= bound


def r7_comparator_class(ctx, repo):
    """the relation the ranks are taken under is Pareto dominance: every way the package offers to construct a selector
    leaves an instance of ParetoDominance in the attribute that fast_nondominated_sorting compares with"""
    sel = repo.cls("Selector", "operators")
    fn = sel.methods.get("fast_nondominated_sorting")
    selfn = func_params(fn)[0]
    used = {access_path(c.func.value) for c in calls_in(fn) if isinstance(c.func, ast.Attribute) and c.func.attr == "compare"}
    attrs = {u[len(selfn) + 1:] for u in used if u and u.startswith(selfn + ".")}
    if len(attrs) != 1:
        ctx.inconclusive("R7", "Selector.fast_nondominated_sorting", where(sel.module, fn), "comparator attribute not recognised (%s)" % sorted(used))
        return
    attr = next(iter(attrs))
    doms = [c for c in repo.subclasses("Dominance")] if repo.has_cls("Dominance") else []
    bad = unknown = None
    nwrites = 0
    ncalls = 0
    owners = {}
    for k in [sel] + repo.subclasses("Selector"):
        for mname, m in k.methods.items():
            me = func_params(m)[0] if func_params(m) else None
            mparams = func_params(m)[1:]
            for st in stmts_of(m):
                if not isinstance(st, ast.Assign) or not any(access_path(t) == "%s.%s" % (me, attr) for t in st.targets):
                    continue
                nwrites += 1
                v = st.value
                C = "%s.%s" % (k.name, mname)
                # self.comparator = self.dominance (one object under two names): what was bound to the other name in this method
                hops = 0
                while isinstance(v, ast.Attribute) and isinstance(v.value, ast.Name) and v.value.id == me and hops < 3:
                    src = [s2.value for s2 in stmts_of(m) if isinstance(s2, ast.Assign) and any(access_path(t) == access_path(v) for t in s2.targets)
                           and getattr(s2, "lineno", 0) <= getattr(st, "lineno", 0) and s2 is not st]
                    if len(src) != 1:
                        break
                    v = src[0]
                    hops += 1
                if isinstance(v, ast.Call) and isinstance(v.func, ast.Name) and repo.has_cls(v.func.id):
                    if v.func.id != "ParetoDominance":
                        bad = bad or (k, st, "%s sets the ranking comparator to %s(...)" % (C, v.func.id))
                elif isinstance(v, ast.Call) and isinstance(v.func, ast.Name) and v.func.id in mparams:
                    # a comparator class chosen by the caller.  A caller who names another relation for the RANKING has asked
                    # for it; what the property is about is what the package does when nobody asks: the default of the
                    # parameter, what the package's own constructions pass, and that the choice is a choice of the ranking
                    # relation only (one parameter that also configures another comparator of the object leaks that
                    # configuration into the ranks)
                    pname = v.func.id
                    ppos = mparams.index(pname)
                    nd = len(m.args.defaults)
                    allp = [a_.arg for a_ in m.args.args]
                    di_ = allp.index(pname) - (len(allp) - nd)
                    default = m.args.defaults[di_] if 0 <= di_ < nd else None
                    if default is None:
                        unknown = unknown or (k, st, "%s: the comparator class `%s` has no default" % (C, pname))
                    elif access_path(default) != "ParetoDominance":
                        bad = bad or (k, st, "%s builds the ranking comparator as %s and the default of `%s` is %s, not ParetoDominance" % (C, text(v), pname, text(default)))
                    # other roles of the same object / the same choice in this method
                    shared = [s2 for s2 in stmts_of(m) if isinstance(s2, ast.Assign) and s2 is not st and any(
                        (access_path(t) or "").startswith(me + ".") and access_path(t) != "%s.%s" % (me, attr) for t in s2.targets)
                        and (any(isinstance(n_, ast.Name) and n_.id == pname for n_ in ast.walk(s2.value)) or
                             any(access_path(n_) == "%s.%s" % (me, attr) for n_ in ast.walk(s2.value)))]
                    same_stmt = [t for t in st.targets if access_path(t) != "%s.%s" % (me, attr)]
                    if shared or same_stmt:
                        other = text(same_stmt[0]) if same_stmt else text(shared[0].targets[0])
                        for d in doms:
                            di = repo.find_method(d, "__init__")
                            ok = arity_ok(v, di[1]) if di else (not v.args and not v.keywords)
                            if ok and d.name != "ParetoDominance":
                                bad = bad or (k, st, "%s builds the ranking comparator as %s and the same choice also configures %s: constructed with %s=%s it ranks with %s, "
                                              "which is not Pareto dominance (it never calls two equal cost vectors incomparable), so the front numbers are not the Pareto ranks"
                                              % (C, text(v), other, pname, d.name, d.name))
                            elif ok is None:
                                unknown = unknown or (k, st, "%s: call %s not resolvable" % (C, text(v)))
                    # what the package itself passes
                    if mname == "__init__":
                        holders = [k] + [c_ for c_ in repo.subclasses(k.name) if "__init__" not in c_.methods
                                         and (repo.find_method(c_, "__init__") or (None, None))[1] is m]
                        hnames = {c_.name for c_ in holders}
                        for mod_ in repo.modules.values():
                            for c_ in [x for x in ast.walk(mod_.tree) if isinstance(x, ast.Call)]:
                                fpath = access_path(c_.func) or ""
                                is_ctor = isinstance(c_.func, ast.Name) and c_.func.id in hnames
                                is_super = fpath.endswith(".__init__") and (fpath.startswith("super()") or fpath.split(".")[0] == k.name) \
                                    or (isinstance(c_.func, ast.Attribute) and c_.func.attr == "__init__" and isinstance(c_.func.value, ast.Call)
                                        and access_path(c_.func.value.func) == "super")
                                if is_super:
                                    # only super-calls written inside a subclass of k whose next __init__ in the MRO is m
                                    if mod_.name not in owners:
                                        owners[mod_.name] = {id(n_): c2 for c2 in mod_.classes.values() for f_ in c2.methods.values() for n_ in ast.walk(f_) if isinstance(n_, ast.Call)}
                                    owner = owners[mod_.name].get(id(c_))
                                    if owner is None or owner is k or k not in repo.mro(owner):
                                        continue
                                    nxt = next((c3.methods["__init__"] for c3 in repo.mro(owner)[1:] if "__init__" in c3.methods), None)
                                    if nxt is not m:
                                        continue
                                    pos_shift = 1 if fpath.split(".")[0] == k.name else 0
                                elif is_ctor:
                                    pos_shift = 0
                                else:
                                    continue
                                a_ = call_arg(c_, ppos + pos_shift, pname)
                                ncalls += 1
                                if a_ is None:
                                    continue
                                if access_path(a_) == "ParetoDominance":
                                    continue
                                if isinstance(a_, ast.Name) and repo.has_cls(a_.id):
                                    bad = bad or (mod_, c_, "%s constructs %s with %s=%s: the package itself ranks with %s, which is not Pareto dominance"
                                                  % (mod_.name, k.name, pname, a_.id, a_.id))
                                else:
                                    unknown = unknown or (mod_, c_, "%s passes %s=%s to %s: the ranking comparator is chosen at run time" % (mod_.name, pname, text(a_), k.name))
                else:
                    unknown = unknown or (k, st, "%s assigns %s to the ranking comparator" % (C, text(v)))
    if bad:
        ctx.violated("R7", "Selector(%s)" % attr, where(getattr(bad[0], "module", bad[0]), bad[1]), bad[2])
    elif unknown:
        ctx.inconclusive("R7", "Selector(%s)" % attr, where(getattr(unknown[0], "module", unknown[0]), unknown[1]), unknown[2])
    elif nwrites == 0:
        ctx.inconclusive("R7", "Selector(%s)" % attr, where(sel.module, sel.node), "the ranking comparator is never assigned")
    else:
        ctx.holds("R7", "Selector(%s)" % attr, where(sel.module, sel.node), "every assignment of the ranking comparator (%d) yields a ParetoDominance instance unless a caller names another relation for the ranking alone: "
                  "the default is ParetoDominance, the package's own %d construction(s) leave it there, and no other comparator of the object is configured by the same choice" % (nwrites, ncalls))


def r8_lookup(ctx, repo):
    """the id -> member lookup used while peeling must answer from the population it is given: every value it returns is
    an element of its population argument (or None); a value read from the selector's own state was put there by an earlier
    call, possibly for another population whose members carry the same ids (copies, members read back from a store)"""
    cls = repo.cls("Selector", "operators")
    mod = cls.module
    fn = cls.methods.get("individual")
    C = "Selector.individual"
    if fn is None:
        ctx.inconclusive("R8", C, where(mod, cls.node), "lookup method not found")
        return
    ps = func_params(fn)
    if len(ps) < 3:
        ctx.inconclusive("R8", C, where(mod, fn), "signature not recognised")
        return
    selfn, pop = ps[0], ps[1]
    from ..terms import Terms as _T, PathEnv as _PE
    bad = unknown = None
    n = 0
    for p in Enumerator(loop_counts=(0, 1, 2)).function_paths(fn):
        if p.outcome == "raise":
            continue
        n += 1
        pe = _PE(fn, p.events)
        for i, e in enumerate(p.events):
            if e.kind != "return" or e.node.value is None:
                continue
            v = pe.expand_at(e.node.value, i)
            if isinstance(v, ast.Constant) and v.value is None:
                continue
            reads = {n_.id for n_ in ast.walk(v) if isinstance(n_, ast.Name)}
            from_state = [text(a) for a in ast.walk(v) if isinstance(a, ast.Attribute) and isinstance(a.value, ast.Name) and a.value.id == selfn]
            # the loop variable of a loop over the population argument, or a term over the population argument
            loop_vars = {ev.node.target.id for ev in p.events[:i] if ev.kind == "iter" and isinstance(ev.node, ast.For) and isinstance(ev.node.target, ast.Name)
                         and access_path(ev.node.iter) == pop}
            if from_state:
                bad = bad or (e.node, "returns %s, read from the selector's own state %s: it was stored by an earlier call and need not be a member of the population "
                                      "passed now (another population with the same ids is ranked through the objects of the first)" % (text(v)[:80], from_state[0]))
            elif isinstance(v, ast.Name) and v.id in loop_vars:
                continue
            elif pop in reads and selfn not in reads:
                continue
            else:
                unknown = unknown or (e.node, "returned value %s not recognised as a member of %s" % (text(v)[:80], pop))
    if bad:
        ctx.violated("R8", C, where(mod, bad[0]), bad[1])
    elif unknown or n == 0:
        ctx.inconclusive("R8", C, where(mod, (unknown or (fn,))[0]), unknown[1] if unknown else "no path")
    else:
        ctx.holds("R8", C, where(mod, fn), "every returned value is an element of the population argument or None (%d paths)" % n)


def run(ctx):
    ctx.rule("R7", "the ranking comparator is Pareto dominance for every constructible selector")
    ctx.rule("R8", "the id lookup answers from the population it is given, not from state kept across calls")
    r7_comparator_class(ctx, ctx.repo)
    r8_lookup(ctx, ctx.repo)
    run_sorting(ctx)
    # the front numbers are ranks under Pareto dominance only if the comparator the sorting calls IS Pareto dominance:
    # the comparator rules of C01 are discharged for it here as well
    ctx.rule("R9", "the ranking comparator satisfies the comparator rules of C01 (Pareto dominance with the feasibility cascade)")
    from . import c01
    from .c18 import SubCtx
    from ..loader import Repo
    light = Repo(ctx.repo.root, comp=False)
    if light.has_cls("ParetoDominance"):
        c01.analyse(SubCtx(ctx, "R9", prefix="ranking comparator ParetoDominance: "), light, "ParetoDominance", False)


def run_sorting(ctx):
    for rid, doc in (("R1", "pair coverage and unconditional comparison"), ("R2", "mirror bookkeeping per verdict"), ("R3", "reset with fresh lists"),
                     ("R4", "zero-test after the inner loop"), ("R5", "peeling: index relations, one decrement per recorded id, rank = previous + 1"),
                     ("R6", "ownership of the bookkeeping features")):
        ctx.rule(rid, doc)
    ctx.axiom("Deb's counter/peeling algorithm yields rank(x) = 1 + max rank of the dominators of x for any strict partial order (comparator: C01)")
    ctx.assume("individual ids are unique within the sorted population")
    repo = ctx.repo
    cls = repo.cls("Selector", "operators")
    mod = cls.module
    fn = cls.methods.get("fast_nondominated_sorting")
    if fn is None:
        raise AnalysisError("Selector.fast_nondominated_sorting not found")
    C = "Selector.fast_nondominated_sorting"
    selfn, pop = func_params(fn)[:2]
    # a re-ordered copy of the population (X = sorted(pop, ...), list(pop), pop[:]) bound once holds the same member objects:
    # every rule below is about unordered pairs of members and about writes to the members, so X is read as pop
    import copy as _copy
    perm = []
    for s_ in fn.body:
        if isinstance(s_, ast.Assign) and len(s_.targets) == 1 and isinstance(s_.targets[0], ast.Name):
            v_ = s_.value
            src = None
            if isinstance(v_, ast.Call) and access_path(v_.func) in ("sorted", "list") and len(v_.args) == 1 and all(k.arg in ("key", "reverse") for k in v_.keywords):
                src = access_path(v_.args[0])
            elif isinstance(v_, ast.Subscript) and isinstance(v_.slice, ast.Slice) and v_.slice.lower is None and v_.slice.upper is None and v_.slice.step is None:
                src = access_path(v_.value)
            x_ = s_.targets[0].id
            nbind = sum(1 for n_ in ast.walk(fn) if isinstance(n_, ast.Name) and n_.id in (x_, pop) and isinstance(n_.ctx, (ast.Store, ast.Del)))
            mutated = any(isinstance(c_.func, ast.Attribute) and access_path(c_.func.value) in (x_, pop)
                          and c_.func.attr in ("append", "remove", "pop", "insert", "extend", "clear", "sort", "reverse") for c_ in ast.walk(fn) if isinstance(c_, ast.Call))
            if src == pop and x_ != pop and nbind == 1 and not mutated:
                perm.append(s_)
    if len(perm) == 1:
        x_ = perm[0].targets[0].id
        idx_ = fn.body.index(perm[0])
        fn = _copy.deepcopy(fn)
        del fn.body[idx_]
        for n_ in ast.walk(fn):
            if isinstance(n_, ast.Name) and n_.id == x_:
                n_.id = pop
        ctx.assume("the pair loops run over `%s`, a re-ordered copy of the population with the same members: read as the population itself" % x_)
    top = fn.body
    fors = [s for s in top if isinstance(s, ast.For)]
    whiles = [s for s in top if isinstance(s, ast.While)]
    pair = None
    for lp in fors:
        inner = [s for s in lp.body if isinstance(s, ast.For)]
        if inner and any((access_path(c.func) or "").endswith(".compare") for c in calls_in(inner[0])):
            pair = (lp, inner[0])
    if pair is None or len(whiles) != 1:
        ctx.inconclusive("R1", C, where(mod, fn), "pair loops / peeling loop not recognised")
        return
    outer, inner = pair
    handled_writes = set()

    # ------------------------------------------------------------ R3 reset
    reset = [lp for lp in fors if top.index(lp) < top.index(outer) and access_path(lp.iter) == pop and isinstance(lp.target, ast.Name)]
    r3 = {}
    if reset:
        lv = reset[0].target.id
        for s in reset[0].body:
            if isinstance(s, ast.Assign) and len(s.targets) == 1:
                f = feat(s.targets[0])
                if f and f[0] == lv:
                    r3[f[1]] = s.value
                    handled_writes.add(id(s))
    ok3 = "domination_counter" in r3 and is_const(r3["domination_counter"]) and const_value(r3["domination_counter"]) == 0 \
        and "front_number" in r3 and is_const(r3["front_number"]) and const_value(r3["front_number"]) is None \
        and "dominate" in r3 and isinstance(r3["dominate"], ast.List) and not r3["dominate"].elts
    if ok3:
        ctx.holds("R3", C, where(mod, reset[0]), "every member: counter = 0, front = None, dominated-list = fresh []")
    elif "dominate" in r3 and not (isinstance(r3["dominate"], ast.List)):
        ctx.violated("R3", C, where(mod, reset[0]), "the dominated-list is reset to %s, not to a fresh list per member: members would share one list" % text(r3["dominate"]))
    else:
        ctx.violated("R3", C, where(mod, (reset or [fn])[0]), "the bookkeeping features are not all reset for every member before the pair loop (found %s): stale counters/lists from a previous sort corrupt the ranks" % sorted(r3))

    # ------------------------------------------------------------ R1 coverage
    # the two members of a pair as elements of the population: pop[I] and pop[J(inner index)]
    TT = Terms(fn)
    cmp_stmt = [s for s in stmts_of(inner) if isinstance(s, ast.Assign) and isinstance(s.value, ast.Call) and (access_path(s.value.func) or "").endswith(".compare")]
    if len(cmp_stmt) != 1 or len(cmp_stmt[0].value.args) != 2:
        ctx.inconclusive("R1", C, where(mod, inner), "comparator call not recognised", key="pair-compare")
        return
    cs = cmp_stmt[0]
    flag = access_path(cs.targets[0])
    io, ii = TT.loop_of(outer), TT.loop_of(inner)

    def member_index(arg):
        """index expression E when arg denotes pop[E].costs_signed (loop variables replaced by elements)"""
        x = TT.expand(arg, at=cs, elems=True)
        if isinstance(x, ast.Attribute) and x.attr == "costs_signed" and isinstance(x.value, ast.Subscript) and access_path(x.value.value) == pop:
            return x.value.slice
        return None
    e0, e1 = member_index(cs.value.args[0]), member_index(cs.value.args[1])
    ivar = io.index if io is not None else None
    jidx = ii.index if ii is not None else None
    if e0 is None or e1 is None or ivar is None or jidx is None:
        ctx.inconclusive("R1", C, where(mod, outer), "loop headers not recognised (%s / %s)" % (text(outer.iter), text(inner.iter)), key="pair-range")
        return
    # which argument is the outer member
    if access_path(e0) == ivar:
        ei, ej, first_is_outer = e0, e1, True
    elif access_path(e1) == ivar:
        ei, ej, first_is_outer = e1, e0, False
    else:
        ctx.violated("R1", C, where(mod, cs), "the comparator is applied to (%s, %s), not to the signed costs of the two members of the pair" % (text(cs.value.args[0]), text(cs.value.args[1])), key="pair-compare")
        return
    # outer range must cover [0, len) or [0, len-1)
    o_lo = io.lo
    o_hi = TT.expand(io.hi, at=outer) if io.hi is not None else None
    outer_ok = (o_lo is None or text(o_lo) == "0") and o_hi is not None and io.step is None and \
        (poly.equal(o_hi, poly.parse("len(%s)" % pop)) or poly.equal(o_hi, poly.parse("len(%s) - 1" % pop)))
    j_lo = ii.lo if ii.lo is not None else ast.Constant(value=0)
    j_hi = ii.hi
    try:
        start = poly.norm(ej, {jidx: TT.expand(j_lo, at=inner)})
        stop = poly.norm(ej, {jidx: TT.expand(j_hi, at=inner)}) if j_hi is not None else None
        slope = poly.norm(ej, {jidx: poly.parse("1")}) - poly.norm(ej, {jidx: poly.parse("0")})
    except poly.NotPolynomial:
        start = stop = slope = None
    if not outer_ok or stop is None or slope is None or not slope.is_const() or slope.const() != 1 or ii.step is not None:
        ctx.inconclusive("R1", C, where(mod, outer), "loop headers not recognised (%s / %s)" % (text(outer.iter), text(inner.iter)), key="pair-range")
        return
    want_start, want_stop = poly.norm(poly.parse("%s + 1" % ivar)), poly.norm(poly.parse("len(%s)" % pop))
    if start == want_start and stop == want_stop:
        ctx.holds("R1", C, where(mod, inner), "pairs (i, j) with i < j < len: every unordered pair exactly once", key="pair-range")
    elif start == poly.norm(poly.parse(ivar)) and stop == want_stop:
        ctx.violated("R1", C, where(mod, inner), "inner loop starts at i: every member is also compared with itself (harmless only for an irreflexive comparator; with the epsilon comparator a member would count as dominating itself)", key="pair-range")
    elif not ({k_ for m_ in list(stop.num) + list(start.num) for k_, _e in m_} <= {k_ for r_ in (want_start, want_stop) for m_ in r_.num for k_, _e in m_}):
        ctx.inconclusive("R1", C, where(mod, inner), "inner loop %s: bounds [%s, %s) contain terms the rule does not know" % (text(inner.iter), poly.key_of(start), poly.key_of(stop)), key="pair-range")
    else:
        ctx.violated("R1", C, where(mod, inner), "inner loop %s visits members [%s, %s): it does not enumerate every pair (i, j), i < j < len(%s): some pairs are never compared" % (text(inner.iter), poly.key_of(start), poly.key_of(stop), pop), key="pair-range")
    # names of the two members (used by the bookkeeping rules below)
    def member_name(arg):
        b = arg.value if isinstance(arg, ast.Attribute) else None
        return access_path(b) if b is not None else None
    a0n, a1n = member_name(cs.value.args[0]), member_name(cs.value.args[1])
    if a0n is None or a1n is None or a0n == a1n:
        ctx.inconclusive("R1", C, where(mod, inner), "the two members of the pair are not bound to names", key="pair-compare")
        return
    pvar, qvar = (a0n, a1n) if first_is_outer else (a1n, a0n)
    a0, a1 = text(cs.value.args[0]), text(cs.value.args[1])
    first, second = (pvar, qvar) if a0.startswith(pvar + ".") else (qvar, pvar)
    paths = Enumerator(loop_counts=(0, 1)).function_paths(body_fn(inner.body, fn.args, inner.lineno))
    paths = drop_outside_domain(paths, flag, (0, 1, 2))
    bad1 = bad2 = None
    table = {}
    for p in paths:
        ncmp = sum(1 for e in p.events if e.kind == "stmt" and e.node is cs)
        if ncmp != 1:
            bad1 = bad1 or (p, "a pair can be skipped without being compared (path [%s]): its dominance relation is never recorded" % p.describe(4))
            continue
        fv = flag_values(p.events, flag, (0, 1, 2))
        verdict = next(iter(fv)) if len(fv) == 1 else None
        eff = set()
        for e in p.events:
            if e.kind != "stmt":
                continue
            s = e.node
            if isinstance(s, ast.AugAssign):
                f = feat(s.target)
                if f and f[1] == "domination_counter":
                    handled_writes.add(id(s))
                    try:
                        eff.add(("inc" if (isinstance(s.op, ast.Add) and fold(s.value) == 1) else "bad-inc", f[0]))
                    except ValueError:
                        eff.add(("bad-inc", f[0]))
            for c in calls_in(s):
                mc = method_call(c)
                if mc and mc[1] == "append":
                    f = feat(mc[0])
                    if f and f[1] == "dominate" and c.args:
                        handled_writes.add(id(s))
                        arg = text(c.args[0])
                        eff.add(("dom", f[0], arg[:-3] if arg.endswith(".id") else "?" + arg))
        table[str(verdict)] = sorted(map(str, eff))
        want = {1: {("dom", first, second), ("inc", second)}, 2: {("dom", second, first), ("inc", first)}}.get(verdict, set())
        if verdict is None:
            want = set()
            if eff:
                bad2 = bad2 or (p, "bookkeeping is written without a decided verdict: %s" % sorted(eff))
        if eff != want:
            bad2 = bad2 or (p, "verdict %s (compare(%s, %s)): effects %s, expected %s" % (verdict, first, second, sorted(eff), sorted(want)))
    ctx.extra["pair_bookkeeping_table"] = table
    ctx.sample({"verdict -> bookkeeping effects": table, "compare args": [first, second]})
    if bad1:
        ctx.violated("R1", C, where(mod, inner), bad1[1], key="pair-compare")
    else:
        ctx.holds("R1", C, where(mod, cs), "every visited pair is compared exactly once on all %d body paths" % len(paths), key="pair-compare")
    if bad2:
        ctx.violated("R2", C, where(mod, inner), bad2[1])
    else:
        ctx.holds("R2", C, where(mod, inner), "verdict 1: %s's list gets %s.id and %s's counter += 1; verdict 2: mirrored; verdict 0: nothing" % (first, second, second))

    # ------------------------------------------------------------ front lists as abstract indices
    # A front list is denoted by its 0-based position in the list of fronts, written a*F + b with F the value
    # of the front counter at the head of the peeling loop (a = 0: absolute position).  Names bound to a front
    # list (first_front, current_front, ...) and subscripts fronts[front_number + c] are both resolved to such
    # positions, so the rules below do not depend on how the lists are referred to.
    w = whiles[0]
    FN = None          # the front counter
    for s in top:
        if isinstance(s, ast.Assign) and isinstance(s.targets[0], ast.Name) and is_const(s.value) and isinstance(const_value(s.value), int) \
                and not isinstance(const_value(s.value), bool) and any(isinstance(x, ast.AugAssign) and access_path(x.target) == s.targets[0].id for x in w.body):
            FN = s.targets[0].id
    if FN is None:
        # not the counter/peeling schema.  One variant is a recognised contradiction: a work list processed
        # last-in-first-out where a member released by its last dominator gets that dominator's rank + 1.
        lifo = None
        wl = access_path(w.test.left.args[0]) if (isinstance(w.test, ast.Compare) and isinstance(w.test.left, ast.Call) and access_path(w.test.left.func) == "len"
                                                  and w.test.left.args) else access_path(w.test)
        if wl:
            pops = [s for s in w.body if isinstance(s, ast.Assign) and isinstance(s.value, ast.Call) and method_call(s.value)
                    and access_path(method_call(s.value)[0]) == wl and method_call(s.value)[1] == "pop" and isinstance(s.targets[0], ast.Name)]
            if len(pops) == 1:
                mvar = pops[0].targets[0].id
                a_ = pops[0].value.args
                is_lifo = not a_ or (is_const(a_[0]) and const_value(a_[0]) == -1)
                from_member = [s for s in stmts_of(w) if isinstance(s, ast.Assign) and isinstance(s.value, ast.BinOp) and isinstance(s.value.op, ast.Add)
                               and feat(s.value.left) == (mvar, "front_number") and is_const(s.value.right) and const_value(s.value.right) == 1]
                once = [s for s in stmts_of(w) if isinstance(s, ast.If) and "domination_counter" in text(s.test) and "== 0" in text(s.test)
                        and any(isinstance(b, ast.Assign) and feat(b.targets[0]) and feat(b.targets[0])[1] == "front_number"
                                and from_member and access_path(b.value) == access_path(from_member[0].targets[0]) for b in s.body)]
                if is_lifo and from_member and once:
                    lifo = pops[0]
        if lifo is not None:
            ctx.violated("R5", C, where(mod, lifo),
                         "members are ranked from a work list taken last-in-first-out (%s) and a released member gets the rank of the dominator that released it + 1: "
                         "with a1 > q, a2 > b > q (a1, a2 non-dominated) the stack processes a2, b, a1, so q is released by a1 with rank 2 although b (rank 2) dominates it"
                         % text(lifo).strip())
        else:
            ctx.inconclusive("R5", C, where(mod, w), "front counter not recognised: the ranking loop is not the counter/peeling schema")
        ctx.inconclusive("R4", C, where(mod, fn), "front counter not recognised")
        return

    class FrontEnv:
        def __init__(self):
            self.F = None          # (a, b): value of the counter
            self.L = None          # (a, b): number of front lists
            self.PF = None         # name of the list of fronts
            self.alias = {}        # name -> (a, b) position
            self.fresh = set()     # names bound to a new empty list not yet placed

        def copy(self):
            o = FrontEnv()
            o.F, o.L, o.PF, o.alias, o.fresh = self.F, self.L, self.PF, dict(self.alias), set(self.fresh)
            return o

        def lin(self, e):
            """(a, b) for an integer expression linear in the counter"""
            if is_const(e) and isinstance(const_value(e), int):
                return (0, const_value(e))
            if access_path(e) == FN:
                return self.F
            if isinstance(e, ast.BinOp) and isinstance(e.op, (ast.Add, ast.Sub)):
                l, r = self.lin(e.left), self.lin(e.right)
                if l is None or r is None:
                    return None
                sg = 1 if isinstance(e.op, ast.Add) else -1
                return (l[0] + sg * r[0], l[1] + sg * r[1])
            if isinstance(e, ast.Call) and access_path(e.func) == "len" and e.args and access_path(e.args[0]) == self.PF:
                return self.L
            return None

        def pos(self, e):
            """position of the front list denoted by e, or None"""
            if isinstance(e, ast.Name) and e.id in self.alias:
                return self.alias[e.id]
            if isinstance(e, ast.Subscript) and access_path(e.value) == self.PF and self.PF is not None and not isinstance(e.slice, ast.Slice):
                k = self.lin(e.slice)
                if k is None:
                    return None
                if k[0] == 0 and k[1] < 0 and self.L is not None:       # negative literal: from the end
                    return (self.L[0], self.L[1] + k[1])
                return k
            return None

        def step(self, s):
            """effect of a simple statement; returns False when it touches the front structure in an unknown way"""
            if isinstance(s, ast.Assign) and len(s.targets) == 1 and isinstance(s.targets[0], ast.Name):
                t, v = s.targets[0].id, s.value
                if t == FN:
                    k = self.lin(v)
                    if k is None:
                        return False
                    self.F = k
                    return True
                if isinstance(v, ast.List) and not v.elts:
                    self.fresh.add(t)
                    self.alias.pop(t, None)
                    return True
                if isinstance(v, ast.List) and self.PF is None and all((isinstance(x, ast.List) and not x.elts) or (isinstance(x, ast.Name) and x.id in self.fresh) for x in v.elts) and v.elts:
                    self.PF = t
                    self.L = (0, len(v.elts))
                    for i_, x in enumerate(v.elts):
                        if isinstance(x, ast.Name):
                            self.alias[x.id] = (0, i_)
                            self.fresh.discard(x.id)
                    return True
                p_ = self.pos(v)
                if p_ is not None:
                    self.alias[t] = p_
                    self.fresh.discard(t)
                    return True
                if t in self.alias or t in self.fresh or t == self.PF:
                    return False
                return True
            if isinstance(s, ast.AugAssign) and access_path(s.target) == FN:
                k = self.lin(s.value)
                if k is None or k[0] != 0 or not isinstance(s.op, (ast.Add, ast.Sub)):
                    return False
                sg = 1 if isinstance(s.op, ast.Add) else -1
                self.F = (self.F[0], self.F[1] + sg * k[1])
                return True
            if isinstance(s, ast.Expr) and isinstance(s.value, ast.Call) and method_call(s.value):
                recv, meth, call = method_call(s.value)
                if access_path(recv) == self.PF and self.PF is not None:
                    if meth == "append" and len(call.args) == 1:
                        a = call.args[0]
                        if isinstance(a, ast.List) and not a.elts:
                            self.L = (self.L[0], self.L[1] + 1)
                            return True
                        if isinstance(a, ast.Name) and a.id in self.fresh:
                            self.alias[a.id] = self.L
                            self.fresh.discard(a.id)
                            self.L = (self.L[0], self.L[1] + 1)
                            return True
                        return False
                    if meth == "pop" and not call.args:
                        self.L = (self.L[0], self.L[1] - 1)
                        return True
                    return False
            return True

    fe = FrontEnv()
    pre_ok = True
    for s in top[:top.index(w)]:
        if isinstance(s, (ast.For, ast.While, ast.If, ast.Try, ast.With)):
            continue
        pre_ok = fe.step(s) and pre_ok
    if not pre_ok or fe.PF is None or fe.F is None or fe.F[0] != 0:
        ctx.inconclusive("R4", C, where(mod, fn), "initial front structure not recognised")
        ctx.inconclusive("R5", C, where(mod, w), "initial front structure not recognised")
        return
    F0, L0 = fe.F[1], fe.L[1]
    fronts_var = fe.PF

    # ------------------------------------------------------------ R4 zero-test placement
    pos_inner = outer.body.index(inner)
    zero_ifs = [s for s in outer.body if isinstance(s, ast.If) and "domination_counter" in text(s.test)]
    misplaced = [s for s in stmts_of(inner) if isinstance(s, ast.If) and "domination_counter" in text(s.test) and "== 0" in text(s.test)]
    if misplaced:
        ctx.violated("R4", C, where(mod, misplaced[0]), "the 'counter == 0 => first front' test is inside the inner loop: it runs before all pairs containing the member were compared")
    elif zero_ifs and all(outer.body.index(z) > pos_inner for z in zero_ifs):
        # the statements after p's inner loop, path by path: counter == 0 <=> rank F0 and put into the first front list
        zi = zero_ifs[0]
        tail = outer.body[pos_inner + 1:]
        verdicts = []
        for tp in Enumerator(loop_counts=(0, 1)).function_paths(body_fn(tail, fn.args, zi.lineno)):
            zero = None
            other_guard = False
            for e in tp.events:
                if e.kind != "guard":
                    continue
                o_ = oriented(e.node, lambda n_: feat(n_) == (pvar, "domination_counter"))
                if o_ is not None and is_const(o_[2]) and const_value(o_[2]) == 0 and o_[1] in (ast.Eq, ast.NotEq):
                    zero = e.val if o_[1] is ast.Eq else not e.val
                else:
                    other_guard = True
            ranks = [e.node for e in tp.events if e.kind == "stmt" and isinstance(e.node, ast.Assign) and feat(e.node.targets[0]) == (pvar, "front_number")]
            apps = [c for e in tp.events if e.kind == "stmt" for c in calls_in(e.node) if method_call(c) and method_call(c)[1] == "append" and c.args and access_path(c.args[0]) == pvar]
            for s_ in ranks:
                handled_writes.add(id(s_))
            verdicts.append((zero, other_guard, [fe.lin(s_.value) for s_ in ranks], [fe.pos(method_call(c)[0]) for c in apps], tp))
        problem = unknown4 = None
        for zero, og, rv, dests, tp in verdicts:
            if zero is True and not og:
                if rv == [(0, 1)] and dests == [(0, 0)]:
                    continue
                if len(rv) == 1 and rv[0] is not None and rv[0] != (0, 1):
                    problem = problem or "a non-dominated member is given front number %s, expected 1" % (rv[0][1],)
                elif len(dests) == 1 and dests[0] is not None and dests[0] != (0, 0):
                    problem = problem or "a non-dominated member is put into front list %d, expected the first front list" % dests[0][1]
                elif not rv or not dests:
                    problem = problem or "a member whose counter is zero after all comparisons is not given the first front (path [%s])" % tp.describe(4)
                else:
                    unknown4 = unknown4 or "first-front assignment / destination list not resolved"
            elif zero is False and (rv or dests):
                problem = problem or "a member is put into the first front although its counter is not zero"
            elif zero is None and (rv or dests):
                problem = problem or "the first-front test/assignment is not `counter == 0 -> front_number, append to the first front` (%s)" % text(zi.test)
            elif og and zero is True:
                unknown4 = unknown4 or "the first-front assignment depends on a further condition"
        if F0 != 1:
            ctx.violated("R4", C, where(mod, zi), "front numbering starts at %r, the property requires the non-dominated members to get front 1" % (F0,))
        elif problem:
            ctx.violated("R4", C, where(mod, zi), problem)
        elif unknown4 or not any(v[0] is True for v in verdicts):
            ctx.inconclusive("R4", C, where(mod, zi), unknown4 or "first-front test not recognised")
        else:
            ctx.holds("R4", C, where(mod, zi), "after p's inner loop: counter == 0 => front 1, member put into the first front list")
    elif zero_ifs and outer.body.index(zero_ifs[0]) < pos_inner:
        ctx.violated("R4", C, where(mod, zero_ifs[0]), "the 'counter == 0' test for a member runs before its inner loop: pairs with later members are not yet counted")
    else:
        ctx.inconclusive("R4", C, where(mod, outer), "first-front test not found after the inner loop")

    # ------------------------------------------------------------ R5 peeling (induction over the loop)
    problems = []
    # head of the loop: counter F, L = F + (L0 - F0) lists, loop-carried aliases keep their position relative to F
    he = fe.copy()
    he.F = (1, 0)
    he.L = (1, L0 - F0)
    he.alias = {k: (1, v[1] - F0) if v[0] == 0 else v for k, v in fe.alias.items()}
    carried = dict(he.alias)
    wt = w.test
    tested = None
    tnode = None
    if isinstance(wt, ast.Compare) and isinstance(wt.left, ast.Call) and access_path(wt.left.func) == "len" and len(wt.ops) == 1 \
            and ((isinstance(wt.ops[0], ast.Gt) and text(wt.comparators[0]) == "0") or (isinstance(wt.ops[0], ast.NotEq) and text(wt.comparators[0]) == "0")
                 or (isinstance(wt.ops[0], ast.GtE) and text(wt.comparators[0]) == "1")):
        tnode = wt.left.args[0]
    elif isinstance(wt, (ast.Subscript, ast.Name)):
        tnode = wt
    elif isinstance(wt, ast.Call) and access_path(wt.func) == "len" and wt.args:
        tnode = wt.args[0]
    if tnode is not None:
        tested = he.pos(tnode)
    if tested is None:
        problems.append(("inconclusive", "loop condition %s is not a non-emptiness test of a front list" % text(wt)))
    elif tested != (1, -1):
        problems.append(("violated", "the loop condition tests front list index front_number%+d, expected the last filled front (front_number - 1)" % tested[1]))
    be = he.copy()
    loop_prev = None
    body_ok = True
    for s in w.body:
        if isinstance(s, ast.For):
            loop_prev = (s, be.copy())
            continue
        if isinstance(s, (ast.While, ast.If, ast.Try, ast.With)):
            body_ok = False
            continue
        body_ok = be.step(s) and body_ok
    if not body_ok:
        problems.append(("inconclusive", "the peeling loop changes the front structure in a way the rule does not follow"))
    if loop_prev is None:
        problems.append(("inconclusive", "loop over the previous front not found"))
    else:
        lp, le = loop_prev
        it_pos = le.pos(lp.iter)
        if it_pos is None:
            problems.append(("inconclusive", "the peel iterates %s, which is not recognised as a front list" % text(lp.iter)))
        elif it_pos != (1, -1):
            problems.append(("violated", "the peel iterates front list index F%+d, expected the front that was just tested non-empty (F-1)" % it_pos[1]))
        # per peel: the counter grows by one, one list is added, carried names keep their relative position
        if be.F != (1, 1) or be.L != (1, L0 - F0 + 1):
            problems.append(("violated", "per peel the front index grows by %d and %d list(s) are appended (expected 1 and 1)" % (be.F[1], be.L[1] - (L0 - F0))))
        for k_, v_ in carried.items():
            used = any(isinstance(x, ast.Name) and x.id == k_ for x in ast.walk(wt)) or any(isinstance(x, ast.Name) and x.id == k_ for x in ast.walk(lp.iter))
            if used and be.alias.get(k_) != (1, v_[1] + 1):
                got = be.alias.get(k_)
                problems.append(("violated" if got is not None else "inconclusive",
                                 "`%s` is not moved on to the next front at the end of a peel (position F%+d instead of F%+d): the same front is peeled again" % (k_, (got or (1, 0))[1] - 1, v_[1])))
        rank_at_loop = le.F
        m = lp.target.id if isinstance(lp.target, ast.Name) else None
        idloops = [s for s in lp.body if isinstance(s, ast.For) and feat(s.iter) == (m, "dominate")]
        if len(idloops) != 1:
            problems.append(("inconclusive", "loop over the recorded ids of a front member not found"))
        else:
            il = idloops[0]
            idv = il.target.id
            qn = None
            for s in il.body:
                if isinstance(s, ast.Assign) and isinstance(s.value, ast.Call) and (access_path(s.value.func) or "") == selfn + ".individual" \
                        and [access_path(a) for a in s.value.args] == [pop, idv]:
                    qn = access_path(s.targets[0])
            if qn is None:
                # ... or through a table id -> member filled from the same population (one entry per member, keyed by its id)
                tables = set()
                for lp0 in [x for x in ast.walk(fn) if isinstance(x, ast.For) and access_path(x.iter) == pop and isinstance(x.target, ast.Name)]:
                    mv = lp0.target.id
                    for c0 in calls_in(lp0):
                        if isinstance(c0.func, ast.Attribute) and c0.func.attr == "setdefault" and len(c0.args) == 2 and access_path(c0.args[0]) == mv + ".id" \
                                and access_path(c0.args[1]) == mv and isinstance(c0.func.value, ast.Name):
                            tables.add(c0.func.value.id)
                    for a0 in [x for x in ast.walk(lp0) if isinstance(x, ast.Assign)]:
                        t0 = a0.targets[0]
                        if isinstance(t0, ast.Subscript) and isinstance(t0.value, ast.Name) and access_path(t0.slice) == mv + ".id" and access_path(a0.value) == mv:
                            tables.add(t0.value.id)
                for a0 in [x for x in ast.walk(fn) if isinstance(x, ast.Assign) and isinstance(x.value, ast.DictComp) and isinstance(x.targets[0], ast.Name)]:
                    dc = a0.value
                    if len(dc.generators) == 1 and not dc.generators[0].ifs and access_path(dc.generators[0].iter) == pop and isinstance(dc.generators[0].target, ast.Name) \
                            and access_path(dc.key) == dc.generators[0].target.id + ".id" and access_path(dc.value) == dc.generators[0].target.id:
                        tables.add(a0.targets[0].id)
                # the table is not written anywhere else in the function
                for tb in list(tables):
                    writes = [x for x in ast.walk(fn) if (isinstance(x, ast.Call) and isinstance(x.func, ast.Attribute) and access_path(x.func.value) == tb
                                                          and x.func.attr in ("setdefault", "update", "pop", "clear", "popitem"))
                              or (isinstance(x, ast.Assign) and isinstance(x.targets[0], ast.Subscript) and access_path(x.targets[0].value) == tb)]
                    if len(writes) != 1:
                        tables.discard(tb)
                for s in il.body:
                    if isinstance(s, ast.Assign) and len(s.targets) == 1 and isinstance(s.targets[0], ast.Name):
                        v0 = s.value
                        if isinstance(v0, ast.Subscript) and access_path(v0.value) in tables and access_path(v0.slice) == idv:
                            qn = s.targets[0].id
                        elif isinstance(v0, ast.Call) and isinstance(v0.func, ast.Attribute) and v0.func.attr == "get" and access_path(v0.func.value) in tables \
                                and len(v0.args) == 1 and access_path(v0.args[0]) == idv:
                            qn = s.targets[0].id
            if qn is None:
                problems.append(("inconclusive", "recorded id is not resolved through self.individual(population, id)"))
            else:
                bp = Enumerator(loop_counts=(0, 1)).function_paths(body_fn(il.body, fn.args, il.lineno))
                for p in bp:
                    decs = [e.node for e in p.events if e.kind == "stmt" and isinstance(e.node, ast.AugAssign) and feat(e.node.target) == (qn, "domination_counter")]
                    for dnode in decs:
                        handled_writes.add(id(dnode))
                    if len(decs) != 1 or not isinstance(decs[0].op, ast.Sub) or not (is_const(decs[0].value) and const_value(decs[0].value) == 1):
                        problems.append(("violated", "a recorded id is decremented %d time(s) per peel (expected exactly once, by 1) on the path [%s]" % (len(decs), p.describe(4))))
                        break
                    zero = None
                    for e in p.events:
                        o_ = oriented(e.node, lambda n_: feat(n_) == (qn, "domination_counter")) if e.kind == "guard" else None
                        if o_ is not None and is_const(o_[2]) and const_value(o_[2]) == 0 and o_[1] in (ast.Eq, ast.NotEq):
                            zero = e.val if o_[1] is ast.Eq else not e.val
                            di = p.events.index(e)
                            if not any(x.kind == "stmt" and x.node is decs[0] for x in p.events[:di]):
                                problems.append(("violated", "the zero test reads the counter before it is decremented"))
                    ranks = [e.node for e in p.events if e.kind == "stmt" and isinstance(e.node, ast.Assign) and feat(e.node.targets[0]) == (qn, "front_number")]
                    for rnode in ranks:
                        handled_writes.add(id(rnode))
                    apps = [c for e in p.events if e.kind == "stmt" for c in calls_in(e.node) if method_call(c) and method_call(c)[1] == "append"
                            and c.args and access_path(c.args[0]) == qn and le.pos(method_call(c)[0]) is not None]
                    other_apps = [c for e in p.events if e.kind == "stmt" for c in calls_in(e.node) if method_call(c) and method_call(c)[1] == "append"
                                  and c.args and access_path(c.args[0]) == qn and le.pos(method_call(c)[0]) is None]
                    if zero is True:
                        nn = [e for e in p.events if e.kind == "guard" and "front_number" in text(e.node) and "None" in text(e.node)]
                        skipped = any(isinstance(e.node, ast.Compare) and isinstance(e.node.ops[0], ast.Is) and not e.val for e in nn)
                        if skipped:
                            continue
                        if other_apps:
                            problems.append(("inconclusive", "a newly ranked member is appended to %s, which is not recognised as a front list" % text(method_call(other_apps[0])[0])))
                            continue
                        rv = [le.lin(r_.value) for r_ in ranks]
                        if len(ranks) != 1 or rv[0] is None or rv[0][0] != 1:
                            problems.append(("violated", "a member whose counter reaches zero is not given the current front number"))
                        elif rv[0] != (1, 1):
                            problems.append(("violated", "members peeled from front F get rank F%+d, expected F+1" % rv[0][1]))
                        dest = le.pos(method_call(apps[0])[0]) if len(apps) == 1 else None
                        if len(apps) != 1 or dest != (1, 0):
                            problems.append(("violated", "a newly ranked member is not appended to the list of its own front"))
                    elif zero is False and (ranks or apps or other_apps):
                        problems.append(("violated", "a member is ranked although its counter has not reached zero"))
                    elif zero is None and (ranks or apps or other_apps):
                        problems.append(("violated", "a member is ranked without testing that its counter reached zero"))
    viol = [m_ for k, m_ in problems if k == "violated"]
    inc = [m_ for k, m_ in problems if k == "inconclusive"]
    if viol:
        ctx.violated("R5", C, where(mod, w), viol[0])
    elif inc:
        ctx.inconclusive("R5", C, where(mod, w), inc[0])
    else:
        ctx.holds("R5", C, where(mod, w), "peel of front F: iterate list F-1, each recorded id decremented once, counter 0 => rank F+1 into list F; F grows by one per peel")

    # ------------------------------------------------------------ R6 ownership
    stray = []
    for s in stmts_of(fn):
        tg = []
        if isinstance(s, (ast.Assign, ast.AugAssign)):
            tg = store_targets(s)
        for t in tg:
            f = feat(t)
            if f and f[1] in FEATS and id(s) not in handled_writes:
                stray.append(s)
        if isinstance(s, ast.Expr):
            for c in calls_in(s):
                mc = method_call(c)
                if mc and feat(mc[0]) and feat(mc[0])[1] in FEATS and mc[1] in ("append", "extend", "remove", "pop", "clear", "insert") and id(s) not in handled_writes:
                    stray.append(s)
    # when R5 could not read the peel, the peel's own writes (inside the loop over a member's recorded ids) are unattributed,
    # not additional: no verdict about them
    if stray and inc and not viol:
        idloop_stmts = {id(x) for lp_ in ast.walk(w) if isinstance(lp_, ast.For) and feat(lp_.iter) and feat(lp_.iter)[1] == "dominate" for x in stmts_of(lp_)}
        unattributed = [x for x in stray if id(x) in idloop_stmts]
        stray = [x for x in stray if id(x) not in idloop_stmts]
        if unattributed and not stray:
            ctx.inconclusive("R6", C, where(mod, unattributed[0]), "the peeling loop was not followed (R5): its writes are not attributed")
            stray = None
    if stray is None:
        pass
    elif stray:
        ctx.violated("R6", C, where(mod, stray[0]), "additional write to the rank bookkeeping outside the algorithm's schema: %s" % text(stray[0]).strip())
    else:
        ctx.holds("R6", C, where(mod, fn), "the bookkeeping features are written only by the reset, the pair bookkeeping, the first-front test and the peel")
