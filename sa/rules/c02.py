"""C02 - non-dominated sorting assigns every individual its true Pareto rank.

Deb's counter/peeling algorithm ranks correctly for any strict partial order
(theorem); the check proves that Selector.fast_nondominated_sorting *is* that
algorithm.

R1  pair coverage: the two loops visit every unordered pair exactly once
    (inner start = outer index + 1, inner stop = len of the same list) and
    every visited pair reaches the comparator exactly once on every path - no
    pair is skipped.
R2  mirror bookkeeping per verdict: 1 -> first argument's dominated-list gets
    the second's id and the second's counter += 1; 2 -> mirror image; 0 ->
    nothing.
R3  reset before the pair loop: counter 0, front None, a fresh dominated-list
    per member.
R4  the "counter == 0 => front 1" test for p sits after p's inner loop.
R5  peeling (affine index tracking over the while body): the previous front
    is the one tested non-empty; each recorded id is decremented exactly once;
    a member is ranked when its counter reaches zero with (previous front
    index + 1), into the list of that index; front numbering starts at 1.
R6  ownership: every write to the three bookkeeping features in the function
    is one of the writes named above.
"""
import ast

from ..astutil import (text, access_path, calls_in, func_params, stmts_of, is_const, const_value, method_call, range_bounds,
                       store_targets, fold)
from ..loader import where, AnalysisError
from ..paths import Enumerator
from .c04 import drop_outside_domain

FEATS = ("domination_counter", "front_number", "dominate")


def feat(node):
    """(owner_path, feature) for X.features['name'] nodes"""
    if isinstance(node, ast.Subscript) and isinstance(node.slice, ast.Constant) and isinstance(node.value, ast.Attribute) \
            and node.value.attr == "features":
        return access_path(node.value.value), node.slice.value
    return None


def body_fn(stmts, args, lineno=0):
    return ast.FunctionDef(name="body", args=args, body=stmts, decorator_list=[], returns=None, type_comment=None, lineno=lineno, col_offset=0)


def run(ctx):
    for rid, doc in (("R1", "pair coverage and unconditional comparison"), ("R2", "mirror bookkeeping per verdict"), ("R3", "reset with fresh lists"),
                     ("R4", "zero-test after the inner loop"), ("R5", "peeling: index relations, one decrement per recorded id, rank = previous + 1"),
                     ("R6", "ownership of the bookkeeping features")):
        ctx.rule(rid, doc)
    ctx.axiom("Deb's counter/peeling algorithm yields rank(x) = 1 + max rank of the dominators of x for any strict partial order (comparator: C01)")
    ctx.assume("individual ids are unique within the sorted population")
    repo = ctx.repo
    cls = repo.cls("Selector", "operators")
    mod = cls.module
    fn = cls.methods.get("fast_nondominated_sorting")
    if fn is None:
        raise AnalysisError("Selector.fast_nondominated_sorting not found")
    C = "Selector.fast_nondominated_sorting"
    selfn, pop = func_params(fn)[:2]
    top = fn.body
    fors = [s for s in top if isinstance(s, ast.For)]
    whiles = [s for s in top if isinstance(s, ast.While)]
    pair = None
    for lp in fors:
        inner = [s for s in lp.body if isinstance(s, ast.For)]
        if inner and any((access_path(c.func) or "").endswith(".compare") for c in calls_in(inner[0])):
            pair = (lp, inner[0])
    if pair is None or len(whiles) != 1:
        ctx.inconclusive("R1", C, where(mod, fn), "pair loops / peeling loop not recognised")
        return
    outer, inner = pair
    handled_writes = set()

    # ------------------------------------------------------------ R3 reset
    reset = [lp for lp in fors if top.index(lp) < top.index(outer) and access_path(lp.iter) == pop and isinstance(lp.target, ast.Name)]
    r3 = {}
    if reset:
        lv = reset[0].target.id
        for s in reset[0].body:
            if isinstance(s, ast.Assign) and len(s.targets) == 1:
                f = feat(s.targets[0])
                if f and f[0] == lv:
                    r3[f[1]] = s.value
                    handled_writes.add(id(s))
    ok3 = "domination_counter" in r3 and is_const(r3["domination_counter"]) and const_value(r3["domination_counter"]) == 0 \
        and "front_number" in r3 and is_const(r3["front_number"]) and const_value(r3["front_number"]) is None \
        and "dominate" in r3 and isinstance(r3["dominate"], ast.List) and not r3["dominate"].elts
    if ok3:
        ctx.holds("R3", C, where(mod, reset[0]), "every member: counter = 0, front = None, dominated-list = fresh []")
    elif "dominate" in r3 and not (isinstance(r3["dominate"], ast.List)):
        ctx.violated("R3", C, where(mod, reset[0]), "the dominated-list is reset to %s, not to a fresh list per member: members would share one list" % text(r3["dominate"]))
    else:
        ctx.violated("R3", C, where(mod, (reset or [fn])[0]), "the bookkeeping features are not all reset for every member before the pair loop (found %s): stale counters/lists from a previous sort corrupt the ranks" % sorted(r3))

    # ------------------------------------------------------------ R1 coverage
    # outer: for i, p in enumerate(pop)  |  for i in range(len(pop))
    ivar = pvar = None
    if isinstance(outer.iter, ast.Call) and access_path(outer.iter.func) == "enumerate" and access_path(outer.iter.args[0]) == pop \
            and isinstance(outer.target, ast.Tuple):
        ivar, pvar = outer.target.elts[0].id, outer.target.elts[1].id
    elif range_bounds(outer.iter) and isinstance(outer.target, ast.Name):
        rb = range_bounds(outer.iter)
        if (rb[0] is None or text(rb[0]) == "0") and text(rb[1]) in ("len(%s)" % pop, "len(%s) - 1" % pop):
            ivar = outer.target.id
            for s in outer.body:
                if isinstance(s, ast.Assign) and text(s.value) == "%s[%s]" % (pop, ivar):
                    pvar = access_path(s.targets[0])
    rb = range_bounds(inner.iter)
    jvar = inner.target.id if isinstance(inner.target, ast.Name) else None
    if ivar is None or pvar is None or rb is None or jvar is None:
        ctx.inconclusive("R1", C, where(mod, outer), "loop headers not recognised (%s / %s)" % (text(outer.iter), text(inner.iter)), key="pair-range")
        return
    start_t = text(rb[0]) if rb[0] is not None else "0"
    stop_t = text(rb[1])
    if start_t.replace(" ", "") == "%s+1" % ivar and stop_t == "len(%s)" % pop and rb[2] is None:
        ctx.holds("R1", C, where(mod, inner), "pairs (i, j) with i < j < len: every unordered pair exactly once", key="pair-range")
    elif start_t == ivar and stop_t == "len(%s)" % pop:
        ctx.violated("R1", C, where(mod, inner), "inner loop starts at i: every member is also compared with itself (harmless only for an irreflexive comparator; with the epsilon comparator a member would count as dominating itself)", key="pair-range")
    elif stop_t != "len(%s)" % pop or start_t.replace(" ", "") not in ("%s+1" % ivar,):
        ctx.violated("R1", C, where(mod, inner), "inner range(%s, %s) does not enumerate every pair (i, j), i < j < len(%s): some pairs are never compared" % (start_t, stop_t, pop), key="pair-range")
    qvar = None
    for s in inner.body:
        if isinstance(s, ast.Assign) and text(s.value) == "%s[%s]" % (pop, jvar):
            qvar = access_path(s.targets[0])
    if qvar is None:
        ctx.inconclusive("R1", C, where(mod, inner), "second member of the pair not bound from %s[%s]" % (pop, jvar), key="pair-compare")
        return
    cmp_stmt = [s for s in stmts_of(inner) if isinstance(s, ast.Assign) and isinstance(s.value, ast.Call) and (access_path(s.value.func) or "").endswith(".compare")]
    if len(cmp_stmt) != 1 or len(cmp_stmt[0].value.args) != 2:
        ctx.inconclusive("R1", C, where(mod, inner), "comparator call not recognised", key="pair-compare")
        return
    cs = cmp_stmt[0]
    flag = access_path(cs.targets[0])
    a0, a1 = text(cs.value.args[0]), text(cs.value.args[1])
    if {a0, a1} != {pvar + ".costs_signed", qvar + ".costs_signed"}:
        ctx.violated("R1", C, where(mod, cs), "the comparator is applied to (%s, %s), not to the signed costs of the two members of the pair" % (a0, a1), key="pair-compare")
        return
    first, second = (pvar, qvar) if a0.startswith(pvar + ".") else (qvar, pvar)
    paths = Enumerator(loop_counts=(0, 1)).function_paths(body_fn(inner.body, fn.args, inner.lineno))
    paths = drop_outside_domain(paths, flag, (0, 1, 2))
    bad1 = bad2 = None
    table = {}
    for p in paths:
        ncmp = sum(1 for e in p.events if e.kind == "stmt" and e.node is cs)
        if ncmp != 1:
            bad1 = bad1 or (p, "a pair can be skipped without being compared (path [%s]): its dominance relation is never recorded" % p.describe(4))
            continue
        verdict = None
        for e in p.events:
            if e.kind == "guard" and isinstance(e.node, ast.Compare) and access_path(e.node.left) == flag and is_const(e.node.comparators[0]) \
                    and isinstance(e.node.ops[0], (ast.Eq, ast.NotEq)):
                t = e.val if isinstance(e.node.ops[0], ast.Eq) else not e.val
                if t:
                    verdict = const_value(e.node.comparators[0])
        eff = set()
        for e in p.events:
            if e.kind != "stmt":
                continue
            s = e.node
            if isinstance(s, ast.AugAssign):
                f = feat(s.target)
                if f and f[1] == "domination_counter":
                    handled_writes.add(id(s))
                    try:
                        eff.add(("inc" if (isinstance(s.op, ast.Add) and fold(s.value) == 1) else "bad-inc", f[0]))
                    except ValueError:
                        eff.add(("bad-inc", f[0]))
            for c in calls_in(s):
                mc = method_call(c)
                if mc and mc[1] == "append":
                    f = feat(mc[0])
                    if f and f[1] == "dominate" and c.args:
                        handled_writes.add(id(s))
                        arg = text(c.args[0])
                        eff.add(("dom", f[0], arg[:-3] if arg.endswith(".id") else "?" + arg))
        table[str(verdict)] = sorted(map(str, eff))
        want = {1: {("dom", first, second), ("inc", second)}, 2: {("dom", second, first), ("inc", first)}}.get(verdict, set())
        if verdict is None:
            want = set()
            if eff:
                bad2 = bad2 or (p, "bookkeeping is written without a decided verdict: %s" % sorted(eff))
        if eff != want:
            bad2 = bad2 or (p, "verdict %s (compare(%s, %s)): effects %s, expected %s" % (verdict, first, second, sorted(eff), sorted(want)))
    ctx.extra["pair_bookkeeping_table"] = table
    ctx.sample({"verdict -> bookkeeping effects": table, "compare args": [first, second]})
    if bad1:
        ctx.violated("R1", C, where(mod, inner), bad1[1], key="pair-compare")
    else:
        ctx.holds("R1", C, where(mod, cs), "every visited pair is compared exactly once on all %d body paths" % len(paths), key="pair-compare")
    if bad2:
        ctx.violated("R2", C, where(mod, inner), bad2[1])
    else:
        ctx.holds("R2", C, where(mod, inner), "verdict 1: %s's list gets %s.id and %s's counter += 1; verdict 2: mirrored; verdict 0: nothing" % (first, second, second))

    # ------------------------------------------------------------ R4 zero-test placement
    pos_inner = outer.body.index(inner)
    zero_ifs = [s for s in outer.body if isinstance(s, ast.If) and "domination_counter" in text(s.test)]
    misplaced = [s for s in stmts_of(inner) if isinstance(s, ast.If) and "domination_counter" in text(s.test) and "== 0" in text(s.test)]
    init_front = None
    for s in top:
        if isinstance(s, ast.Assign) and access_path(s.targets[0]) == "front_number" and is_const(s.value):
            init_front = const_value(s.value)
    fronts_var = None
    for s in top:
        if isinstance(s, ast.Assign) and isinstance(s.value, ast.List) and len(s.value.elts) == 1 and isinstance(s.value.elts[0], ast.List):
            fronts_var = access_path(s.targets[0])
    if misplaced:
        ctx.violated("R4", C, where(mod, misplaced[0]), "the 'counter == 0 => first front' test is inside the inner loop: it runs before all pairs containing the member were compared")
    elif len(zero_ifs) == 1 and outer.body.index(zero_ifs[0]) > pos_inner:
        zi = zero_ifs[0]
        t = zi.test
        okt = isinstance(t, ast.Compare) and feat(t.left) == (pvar, "domination_counter") and isinstance(t.ops[0], ast.Eq) and is_const(t.comparators[0]) and const_value(t.comparators[0]) == 0
        sets_front = [s for s in zi.body if isinstance(s, ast.Assign) and feat(s.targets[0]) == (pvar, "front_number") and access_path(s.value) == "front_number"]
        app = [c for s in zi.body for c in calls_in(s) if method_call(c) and method_call(c)[1] == "append" and c.args and access_path(c.args[0]) == pvar
               and text(method_call(c)[0]).replace(" ", "") == "%s[front_number-1]" % fronts_var]
        for s in sets_front:
            handled_writes.add(id(s))
        if okt and sets_front and app and init_front == 1:
            ctx.holds("R4", C, where(mod, zi), "after p's inner loop: counter == 0 => front 1, member put into the first front list")
        elif init_front != 1:
            ctx.violated("R4", C, where(mod, zi), "front numbering starts at %r, the property requires the non-dominated members to get front 1" % (init_front,))
        else:
            ctx.violated("R4", C, where(mod, zi), "the first-front test/assignment is not `counter == 0 -> front_number, append to the first front` (%s)" % text(t))
    elif zero_ifs and outer.body.index(zero_ifs[0]) < pos_inner:
        ctx.violated("R4", C, where(mod, zero_ifs[0]), "the 'counter == 0' test for a member runs before its inner loop: pairs with later members are not yet counted")
    else:
        ctx.inconclusive("R4", C, where(mod, outer), "first-front test not found after the inner loop")

    # ------------------------------------------------------------ R5 peeling
    w = whiles[0]
    problems = []
    F_off = 0     # front_number == F + F_off while walking the body

    def idx_of(sub):
        """offset d of <fronts>[front_number + d] relative to current front_number"""
        if isinstance(sub, ast.Subscript) and access_path(sub.value) == fronts_var:
            sl = sub.slice
            if access_path(sl) == "front_number":
                return 0
            if isinstance(sl, ast.BinOp) and access_path(sl.left) == "front_number" and is_const(sl.right):
                c = const_value(sl.right)
                return c if isinstance(sl.op, ast.Add) else -c
        return None
    # while test: len(fronts[front_number - 1]) > 0
    wt = w.test
    d_test = None
    if isinstance(wt, ast.Compare) and isinstance(wt.left, ast.Call) and access_path(wt.left.func) == "len":
        d_test = idx_of(wt.left.args[0])
    elif isinstance(wt, ast.Subscript):
        d_test = idx_of(wt)
    if d_test != -1:
        problems.append(("inconclusive" if d_test is None else "violated", "the loop condition tests front list index front_number%+d, expected the last filled front (front_number - 1)" % (d_test or 0)))
    n_lists = 0   # lists appended so far in the body (relative)
    loop_prev = None
    for s in w.body:
        if isinstance(s, ast.AugAssign) and access_path(s.target) == "front_number" and isinstance(s.op, ast.Add) and is_const(s.value):
            F_off += const_value(s.value)
        elif isinstance(s, ast.Expr) and isinstance(s.value, ast.Call) and method_call(s.value) and access_path(method_call(s.value)[0]) == fronts_var \
                and method_call(s.value)[1] == "append":
            n_lists += 1
        elif isinstance(s, ast.For):
            loop_prev = (s, F_off, n_lists)
    if loop_prev is None:
        problems.append(("inconclusive", "loop over the previous front not found"))
    else:
        lp, off_at_loop, lists_at_loop = loop_prev
        d = idx_of(lp.iter)
        # absolute (0-based) index iterated = F + off + d ; previous front (tested non-empty) = F - 1
        if d is None or off_at_loop + d != -1:
            problems.append(("violated" if d is not None else "inconclusive", "the peel iterates front list index F%+d, expected the front that was just tested non-empty (F-1)" % (off_at_loop + (d or 0))))
        # final F_off after body must be +1 and exactly one list appended
        if F_off != 1 or n_lists != 1:
            problems.append(("violated", "per peel the front index grows by %d and %d list(s) are appended (expected 1 and 1)" % (F_off, n_lists)))
        m = lp.target.id if isinstance(lp.target, ast.Name) else None
        idloops = [s for s in lp.body if isinstance(s, ast.For) and feat(s.iter) == (m, "dominate")]
        if len(idloops) != 1:
            problems.append(("inconclusive", "loop over the recorded ids of a front member not found"))
        else:
            il = idloops[0]
            idv = il.target.id
            qn = None
            for s in il.body:
                if isinstance(s, ast.Assign) and isinstance(s.value, ast.Call) and (access_path(s.value.func) or "") == selfn + ".individual" \
                        and [access_path(a) for a in s.value.args] == [pop, idv]:
                    qn = access_path(s.targets[0])
            if qn is None:
                problems.append(("inconclusive", "recorded id is not resolved through self.individual(population, id)"))
            else:
                bp = Enumerator(loop_counts=(0, 1)).function_paths(body_fn(il.body, fn.args, il.lineno))
                for p in bp:
                    decs = [e.node for e in p.events if e.kind == "stmt" and isinstance(e.node, ast.AugAssign) and feat(e.node.target) == (qn, "domination_counter")]
                    for dnode in decs:
                        handled_writes.add(id(dnode))
                    if len(decs) != 1 or not isinstance(decs[0].op, ast.Sub) or not (is_const(decs[0].value) and const_value(decs[0].value) == 1):
                        problems.append(("violated", "a recorded id is decremented %d time(s) per peel (expected exactly once, by 1) on the path [%s]" % (len(decs), p.describe(4))))
                        break
                    zero = None
                    for e in p.events:
                        if e.kind == "guard" and isinstance(e.node, ast.Compare) and feat(e.node.left) == (qn, "domination_counter") \
                                and is_const(e.node.comparators[0]) and const_value(e.node.comparators[0]) == 0 and isinstance(e.node.ops[0], ast.Eq):
                            zero = e.val
                            di = p.events.index(e)
                            if not any(x.kind == "stmt" and x.node is decs[0] for x in p.events[:di]):
                                problems.append(("violated", "the zero test reads the counter before it is decremented"))
                    ranks = [e.node for e in p.events if e.kind == "stmt" and isinstance(e.node, ast.Assign) and feat(e.node.targets[0]) == (qn, "front_number")]
                    for rnode in ranks:
                        handled_writes.add(id(rnode))
                    apps = [c for e in p.events if e.kind == "stmt" for c in calls_in(e.node) if method_call(c) and method_call(c)[1] == "append"
                            and c.args and access_path(c.args[0]) == qn and access_path(method_call(c)[0].value if isinstance(method_call(c)[0], ast.Subscript) else method_call(c)[0]) == fronts_var]
                    if zero is True:
                        nn = [e for e in p.events if e.kind == "guard" and "front_number" in text(e.node) and "None" in text(e.node)]
                        already = any((not e.val) if isinstance(e.node.ops[0], ast.Is) else e.val for e in nn if isinstance(e.node, ast.Compare)) if False else False
                        skipped = any(isinstance(e.node, ast.Compare) and isinstance(e.node.ops[0], ast.Is) and not e.val for e in nn)
                        if skipped:
                            continue
                        if len(ranks) != 1 or access_path(ranks[0].value) != "front_number":
                            problems.append(("violated", "a member whose counter reaches zero is not given the current front number"))
                        elif off_at_loop != 1:
                            problems.append(("violated", "members peeled from front F get rank F%+d, expected F+1" % off_at_loop))
                        if len(apps) != 1 or idx_of(method_call(apps[0])[0]) is None or off_at_loop + idx_of(method_call(apps[0])[0]) != 0:
                            problems.append(("violated", "a newly ranked member is not appended to the list of its own front"))
                    elif zero is False and (ranks or apps):
                        problems.append(("violated", "a member is ranked although its counter has not reached zero"))
                    elif zero is None and (ranks or apps):
                        problems.append(("violated", "a member is ranked without testing that its counter reached zero"))
    viol = [m_ for k, m_ in problems if k == "violated"]
    inc = [m_ for k, m_ in problems if k == "inconclusive"]
    if viol:
        ctx.violated("R5", C, where(mod, w), viol[0])
    elif inc:
        ctx.inconclusive("R5", C, where(mod, w), inc[0])
    else:
        ctx.holds("R5", C, where(mod, w), "peel of front F: iterate list F-1, each recorded id decremented once, counter 0 => rank F+1 into list F; F grows by one per peel")

    # ------------------------------------------------------------ R6 ownership
    stray = []
    for s in stmts_of(fn):
        tg = []
        if isinstance(s, (ast.Assign, ast.AugAssign)):
            tg = store_targets(s)
        for t in tg:
            f = feat(t)
            if f and f[1] in FEATS and id(s) not in handled_writes:
                stray.append(s)
        if isinstance(s, ast.Expr):
            for c in calls_in(s):
                mc = method_call(c)
                if mc and feat(mc[0]) and feat(mc[0])[1] in FEATS and mc[1] in ("append", "extend", "remove", "pop", "clear", "insert") and id(s) not in handled_writes:
                    stray.append(s)
    if stray:
        ctx.violated("R6", C, where(mod, stray[0]), "additional write to the rank bookkeeping outside the algorithm's schema: %s" % text(stray[0]).strip())
    else:
        ctx.holds("R6", C, where(mod, fn), "the bookkeeping features are written only by the reset, the pair bookkeeping, the first-front test and the peel")
