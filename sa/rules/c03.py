"""C03 - environmental selection: rank first, then crowding, no duplicates.

R1  nondominated_cmp decision table (D-ORD over front order x crowding order):
    lower front first; at equal front, larger crowding first; else 0.
R2  nondominated_truncate: the sorted value flows from set(<population>) (one
    representative per design), ascending sort under cmp_to_key(<the function
    of R1>) or a key (front, -crowding), result = prefix [:size] with `size`
    the parameter.
R3  crowding_distance stencil: fronts of <= 2 members get inf; zero
    initialisation outside the objective loop; the objective loop excludes the
    marker; per objective the front is sorted by that objective; positions 0
    and -1 get inf; the interior loop range(1, n-1) with neighbours i+1 / i-1
    covers exactly the interior; the normalised gap is accumulated (+=) and
    divided by front[-1]-front[0] of the same objective.
R4  tournament table (front order x comparator verdict -> returned candidate):
    never the worse front, never the dominated one; every returned value is a
    member of the input population; candidates = random.sample(<input>, 2).
"""
import ast
import itertools

from ..absint import Evaluator, Interp, TOP, fin, boolean, sym, obj, Unsupported
from ..astutil import (text, access_path, func_params, stmts_of, calls_in, is_const, const_value, single_defs, canon, canon_text,
                       range_bounds, fold, is_method_call)
from ..loader import where, AnalysisError
from ..paths import Enumerator
from ..terms import Terms, PathEnv
from .. import poly
from .c02 import body_fn


# ------------------------------------------------------------------ R1
class CmpHooks:
    def __init__(self, p, q):
        self.p, self.q = p, q

    def lookup(self, node, env, ev):
        t = text(node)
        for side, nm in (("p", self.p), ("q", self.q)):
            if t == "%s.features['front_number']" % nm:
                return [sym("f", side)]
            if t == "%s.features['crowding_distance']" % nm:
                return [sym("c", side)]
        return None


def r1_cmp(ctx, repo):
    mod = repo.module("operators")
    fn = mod.functions.get("nondominated_cmp")
    if fn is None:
        raise AnalysisError("nondominated_cmp not found in operators.py")
    C = "operators.nondominated_cmp"
    p, q = func_params(fn)[:2]
    table = {}
    bad = unsure = None
    for sf, sc in itertools.product("<=>", "<=>"):
        hooks = CmpHooks(p, q)
        interp = Interp(Evaluator(hooks=hooks), hooks)
        try:
            outs = interp.run(fn.body, {("sigma", "f"): sf, ("sigma", "c"): sc}, None)
        except Unsupported as e:
            ctx.inconclusive("R1", C, where(mod, fn), "outside the analysable fragment: %s" % e)
            return
        want = -1 if sf == "<" else (1 if sf == ">" else (-1 if sc == ">" else (1 if sc == "<" else 0)))
        got = set()
        for o in outs:
            v = o.value[1] if (o.kind == "return" and o.value[0] == "fin") else None
            got.add(v)
            if v is None or o.tainted:
                unsure = unsure or (sf, sc, o)
            elif (v > 0) - (v < 0) != want:
                bad = bad or (sf, sc, v, want, o)
        table["front %s, crowding %s" % (sf, sc)] = sorted(str(g) for g in got)
    ctx.extra["nondominated_cmp_table"] = table
    ctx.sample({"nondominated_cmp(p,q) by (front p?q, crowding p?q)": table})
    if bad:
        sf, sc, v, want, o = bad
        ctx.violated("R1", C, where(mod, o.node or fn), "front(p) %s front(q), crowding(p) %s crowding(q): returns %r, the required sign is %d (lower front first, then larger crowding distance)" % (sf, sc, v, want),
                     facts={"front": sf, "crowding": sc, "returned": v, "expected_sign": want})
    elif unsure:
        ctx.inconclusive("R1", C, where(mod, fn), "abstract result not definite for front %s crowding %s" % (unsure[0], unsure[1]))
    else:
        ctx.holds("R1", C, where(mod, fn), "all 9 (front order, crowding order) cases give the required sign")


# ------------------------------------------------------------------ R2
def r2_truncate(ctx, repo):
    mod = repo.module("operators")
    fn = mod.functions.get("nondominated_truncate")
    if fn is None:
        raise AnalysisError("nondominated_truncate not found")
    C = "operators.nondominated_truncate"
    pop, size = func_params(fn)[:2]
    tags = {pop: ("INPUT",)}
    problems = []
    ret = None
    VALS.clear()
    for s in fn.body:
        if isinstance(s, ast.Expr) and isinstance(s.value, ast.Constant):
            continue
        if isinstance(s, ast.Assign) and len(s.targets) == 1 and isinstance(s.targets[0], ast.Name):
            VALS[s.targets[0].id] = s.value
            if isinstance(s.value, (ast.Lambda,)) or (isinstance(s.value, ast.Call) and (access_path(s.value.func) or "").endswith("cmp_to_key")):
                continue        # a sort key bound to a name: looked up where it is used
            tags[s.targets[0].id] = tag_of(s.value, tags, size, problems)
        elif isinstance(s, ast.Return):
            ret = tag_of(s.value, tags, size, problems) if s.value is not None else None
        elif isinstance(s, ast.For) and isinstance(s.target, ast.Name) and isinstance(s.iter, ast.Name) and tags.get(s.iter.id, ("?",))[0] in ("INPUT", "DEDUP"):
            # dictionary-based de-duplication:  d.setdefault(KEY, x)  /  d[KEY] = x  for x in population
            lv = s.target.id
            key = dct = None
            ldefs = {}
            for b in s.body:
                if isinstance(b, ast.Assign) and isinstance(b.targets[0], ast.Name):
                    ldefs[b.targets[0].id] = b.value
                for c in calls_in(b):
                    if isinstance(c.func, ast.Attribute) and c.func.attr == "setdefault" and len(c.args) == 2 and access_path(c.args[1]) == lv:
                        key, dct = c.args[0], access_path(c.func.value)
                if isinstance(b, ast.Assign) and isinstance(b.targets[0], ast.Subscript) and access_path(b.value) == lv:
                    key, dct = b.targets[0].slice, access_path(b.targets[0].value)
            if key is None:
                problems.append(("inconclusive", "statement not understood: %s" % text(s).split("\n")[0]))
            else:
                kt = text(canon(key, ldefs))
                coarse = any(k_ in kt for k_ in ("round(", "int(", "//", "floor(", "format(", "%"))
                exact = kt in ("tuple(%s.vector)" % lv, lv, "tuple(x for x in %s.vector)" % lv)
                hashed = kt in ("hash(%s)" % lv, "hash(tuple(%s.vector))" % lv, "%s.__hash__()" % lv)
                if hashed:
                    problems.append(("violated", "designs are de-duplicated by the key %s alone: equal hashes do not imply equal designs (in CPython hash(-1.0) == hash(-2.0), and any 64-bit "
                                                 "collision), so a distinct design is discarded; a set or a dict keyed by the design itself consults equality as well" % kt))
                    tags[dct] = ("BADDEDUP",)
                elif coarse:
                    problems.append(("violated", "designs are de-duplicated by the key %s, which merges designs that differ by less than the rounding step although they are different design points (equality is 1e-10): distinct designs are dropped and fewer than min(k, distinct) survive" % kt))
                    tags[dct] = ("BADDEDUP",)
                elif exact:
                    tags[dct] = ("DEDUP", tags[s.iter.id])
                else:
                    problems.append(("inconclusive", "de-duplication key %s not recognised" % kt))
        elif isinstance(s, ast.Expr) and is_method_call(s.value, "sort") and isinstance(s.value.func.value, ast.Name):
            nm = s.value.func.value.id
            tags[nm] = sort_tag(tags.get(nm), s.value.keywords, problems)
        else:
            problems.append(("inconclusive", "statement not understood: %s" % text(s).split("\n")[0]))
    if any(isinstance(c_, ast.Call) and (access_path(c_.func) or "").endswith("groupby") for c_ in ast.walk(fn)):
        problems.append(("violated", "duplicates are removed with itertools.groupby, which only merges ADJACENT equal designs: copies of one design that are not neighbours in the sorted order both survive"))
    if ret is None:
        problems.append(("inconclusive", "no returned value"))
    elif ret[0] == "?":
        problems.append(("inconclusive", "the returned value %s is built by constructs outside the order algebra" % (ret,)))
    elif ret[0] != "PREFIX":
        problems.append(("violated", "the result is not the first `%s` members of the ranked, de-duplicated population (%s)" % (size, ret,)))
    else:
        inner = ret[1]
        if inner[0] == "?":
            problems.append(("inconclusive", "the truncated list is built by constructs outside the order algebra"))
        elif inner[0] != "SORTED":
            problems.append(("violated", "the truncated list is not sorted by (front, crowding): %s" % (inner,)))
        elif inner[1][0] == "?":
            problems.append(("inconclusive", "the sorted value is not recognisably the (de-duplicated) input population"))
        elif inner[1][0] != "DEDUP":
            problems.append(("violated", "the population is not de-duplicated with set() before ranking: a design could survive twice"))
    sk = _scalar_key(fn)
    if sk:
        problems.append(("violated", sk))
    # members put back after the de-duplication: a list that holds each design once is extended by members of the input
    # population that were left out - the copies that had just been removed
    dedup_names = {k for k, v in tags.items() if v and ("DEDUP" in repr(v))}
    from_input = {pop}
    for _ in range(3):
        for a_ in ast.walk(fn):
            if isinstance(a_, ast.Assign) and len(a_.targets) == 1 and isinstance(a_.targets[0], ast.Name) and a_.targets[0].id not in dedup_names:
                if any(isinstance(n_, ast.Name) and n_.id in from_input for n_ in ast.walk(a_.value)) and not any(
                        isinstance(c_, ast.Call) and access_path(c_.func) in ("set", "frozenset") for c_ in ast.walk(a_.value)):
                    from_input.add(a_.targets[0].id)
            elif isinstance(a_, ast.For) and isinstance(a_.target, ast.Name) and any(isinstance(n_, ast.Name) and n_.id in from_input for n_ in ast.walk(a_.iter)):
                from_input.add(a_.target.id)
            elif isinstance(a_, ast.Call) and isinstance(a_.func, ast.Attribute) and a_.func.attr in ("append", "extend") and isinstance(a_.func.value, ast.Name) \
                    and a_.func.value.id not in dedup_names and a_.args and any(isinstance(n_, ast.Name) and n_.id in from_input for n_ in ast.walk(a_.args[0])):
                from_input.add(a_.func.value.id)
    for c_ in ast.walk(fn):
        if isinstance(c_, ast.Call) and isinstance(c_.func, ast.Attribute) and c_.func.attr in ("extend", "append") and access_path(c_.func.value) in dedup_names and c_.args:
            if any(isinstance(n_, ast.Name) and n_.id in from_input for n_ in ast.walk(c_.args[0])):
                problems.append(("violated", "after the copies of a design were removed, `%s` is filled up again from the input population (%s): the members left out were exactly the removed "
                                 "copies, so a design can be returned more than once and the result has more than min(size, number of distinct designs) members"
                                 % (access_path(c_.func.value), text(c_)[:90])))
                break
    um = _unrecorded_membership(fn)
    if um:
        problems.append(("violated", um))
    viol = [m for k, m in problems if k == "violated"]
    inc = [m for k, m in problems if k == "inconclusive"]
    if viol:
        ctx.violated("R2", C, where(mod, fn), "; ".join(viol))
    elif inc:
        ctx.inconclusive("R2", C, where(mod, fn), "; ".join(inc))
    else:
        ctx.holds("R2", C, where(mod, fn), "result = sorted(set(population), by (front asc, crowding desc))[:size]")


def _unrecorded_membership(fn):
    """for x in ITEMS: if x not in SEEN: OUT.append(x) - and x is not put into SEEN: the filter knows what was taken before
    the loop, not what the loop itself has taken, so two equal designs among ITEMS are both admitted"""
    aliases = {(access_path(a.targets[0]), access_path(a.value)) for a in ast.walk(fn) if isinstance(a, ast.Assign) and len(a.targets) == 1
               and access_path(a.targets[0]) and isinstance(a.value, ast.Name)}
    for lp in [n for n in ast.walk(fn) if isinstance(n, ast.For) and isinstance(n.target, ast.Name)]:
        x = lp.target.id
        for st in [n for n in ast.walk(lp) if isinstance(n, ast.If)]:
            t = st.test
            if not (isinstance(t, ast.Compare) and len(t.ops) == 1 and isinstance(t.ops[0], ast.NotIn) and access_path(t.left) == x and isinstance(t.comparators[0], ast.Name)):
                continue
            seen = t.comparators[0].id
            outs = [c for b in st.body for c in ast.walk(b) if isinstance(c, ast.Call) and isinstance(c.func, ast.Attribute) and c.func.attr == "append"
                    and c.args and access_path(c.args[0]) == x and isinstance(c.func.value, ast.Name)]
            if not outs:
                continue
            out = outs[0].func.value.id
            if out == seen or (out, seen) in aliases or (seen, out) in aliases:
                continue
            recorded = any(isinstance(c, ast.Call) and isinstance(c.func, ast.Attribute) and c.func.attr in ("add", "append", "update", "extend", "setdefault")
                           and access_path(c.func.value) == seen for b in st.body for c in ast.walk(b)) or \
                any(isinstance(a, (ast.Assign, ast.AugAssign)) and any(isinstance(tg, ast.Subscript) and access_path(tg.value) == seen
                                                                         for tg in (a.targets if isinstance(a, ast.Assign) else [a.target])) for b in st.body for a in ast.walk(b))
            if not recorded:
                return ("the loop over %s admits a design when it is `not in %s` but does not put it into `%s`: the test sees what was kept before this loop, not what this loop "
                        "has admitted, so of two equal designs in %s both are appended to `%s` - a repeated design survives and a distinct one is cut"
                        % (text(lp.iter), seen, seen, text(lp.iter), out))
    return None


def _scalar_key(fn):
    """the (front, crowding) order packed into ONE number that is then sorted (argsort / sort on the number): the packing is
    faithful only if no value of the crowding part can carry a member over into the next front's range.  The packed key is
    evaluated (plain float arithmetic on the expression, nothing of the package is run) at the two members that decide it:
    the most crowded member of a front (distance 0) and a boundary member of the next front (distance inf)"""
    from ..ivlinterp import Interp as _IvI, Unsupported as _Un
    from ..ivl import DomainError as _DE
    defs = {}
    for st in ast.walk(fn):
        if isinstance(st, ast.Assign) and len(st.targets) == 1 and isinstance(st.targets[0], ast.Name):
            defs.setdefault(st.targets[0].id, []).append(st.value)
    for c in [c for c in ast.walk(fn) if isinstance(c, ast.Call) and (access_path(c.func) or "").split(".")[-1] in ("argsort", "lexsort", "sort", "sorted") and c.args]:
        key = c.args[0]
        if isinstance(key, ast.Name) and len(defs.get(key.id, [])) == 1:
            key = defs[key.id][0]
        roles = {}
        for nm in {n.id for n in ast.walk(key) if isinstance(n, ast.Name)}:
            src = " ".join(text(v) for v in defs.get(nm, []))
            if "'front_number'" in src and "'crowding_distance'" not in src:
                roles[nm] = "rank"
            elif "'crowding_distance'" in src and "'front_number'" not in src:
                roles[nm] = "crowd"
        if sorted(roles.values()) != ["crowd", "rank"] or not isinstance(key, ast.BinOp):
            continue
        rn = next(k for k, v in roles.items() if v == "rank")
        cn = next(k for k, v in roles.items() if v == "crowd")

        def val(r, d):
            it = _IvI()
            it.concrete_lib = True
            return it.ev(key, {rn: float(r), cn: float(d)})
        try:
            pairs = [((1, d1), (2, d2)) for d1 in (0.0, 1e-12, 0.5, 1.0, 1e12) for d2 in (float("inf"), 1e12, 1.0, 0.0)]
            for (r1, d1), (r2, d2) in pairs:
                k1, k2 = val(r1, d1), val(r2, d2)
                if isinstance(k1, float) and isinstance(k2, float) and not (k1 < k2):
                    return ("the crowded comparison is packed into one number, %s, and sorted on it: a member of front %d with crowding distance %r gets %r, a member of front %d "
                            "with distance %r gets %r - the key does not put the better front first (ties are left to the incoming order), so a member of a worse front can be "
                            "kept while one of a better front is cut" % (text(key), r1, d1, k1, r2, d2, k2))
        except (_Un, _DE, ZeroDivisionError, OverflowError, TypeError):
            return None
    return None


VALS = {}      # local name -> bound expression (sort keys held in a local)


def sort_tag(src, keywords, problems):
    key = [k.value for k in keywords if k.arg == "key"]
    key = [VALS.get(k.id, k) if isinstance(k, ast.Name) else k for k in key]
    rev = [k.value for k in keywords if k.arg == "reverse"]
    if rev and not (is_const(rev[0]) and const_value(rev[0]) is False):
        problems.append(("violated", "the population is sorted in reverse order: the worst fronts come first"))
        return ("BAD",)
    if not key:
        problems.append(("violated", "the population is sorted without the (front, crowding) key"))
        return ("BAD",)
    k = key[0]
    ok = False
    if isinstance(k, ast.Call) and (access_path(k.func) or "").endswith("cmp_to_key") and k.args and access_path(k.args[0]) == "nondominated_cmp":
        ok = True
    elif isinstance(k, ast.Lambda) and isinstance(k.body, ast.Tuple) and len(k.body.elts) == 2:
        x = k.args.args[0].arg
        a, b = text(k.body.elts[0]), text(k.body.elts[1])
        if a == "%s.features['front_number']" % x and b == "-%s.features['crowding_distance']" % x:
            ok = True
        elif a == "%s.features['front_number']" % x and b == "%s.features['crowding_distance']" % x:
            problems.append(("violated", "the key orders crowding distance ascending: the most crowded members of the cut front are kept"))
            return ("BAD",)
    if not ok:
        problems.append(("inconclusive", "sort key %s not recognised" % text(k)))
        return ("?",)
    return ("SORTED", src or ("?",))


def tag_of(v, tags, size, problems):
    if isinstance(v, ast.Name):
        return tags.get(v.id, ("?",))
    if isinstance(v, ast.Call):
        nm = access_path(v.func)
        if nm == "set" and len(v.args) == 1:
            inner = tag_of(v.args[0], tags, size, problems)
            return ("DEDUP", inner) if inner[0] in ("INPUT", "DEDUP") else ("?",)
        if nm in ("list", "tuple") and len(v.args) == 1:
            a0 = v.args[0]
            if isinstance(a0, ast.Call) and isinstance(a0.func, ast.Attribute) and a0.func.attr == "values" and access_path(a0.func.value) in tags:
                return tags[access_path(a0.func.value)]
            return tag_of(v.args[0], tags, size, problems)
        if nm == "sorted" and v.args:
            return sort_tag(tag_of(v.args[0], tags, size, problems), v.keywords, problems)
    if isinstance(v, ast.Subscript) and isinstance(v.slice, ast.Slice):
        inner = tag_of(v.value, tags, size, problems)
        sl = v.slice
        if sl.lower is None and access_path(sl.upper) == size and sl.step is None:
            return ("PREFIX", inner)
        problems.append(("violated", "the slice %s does not keep the first `%s` members" % (text(v), size)))
        return ("BADSLICE", inner)
    return ("?",)


# ------------------------------------------------------------------ R3
INF_TEXTS = ("math.inf", "np.inf", "float('inf')", "inf", "numpy.inf", "float('Inf')", "float('infinity')")


def _subst_len(node, front, n_val):
    """copy of node with len(<front>) replaced by the literal n_val"""
    import copy

    class L(ast.NodeTransformer):
        def visit_Call(self, n):
            if isinstance(n.func, ast.Name) and n.func.id == "len" and len(n.args) == 1 and access_path(n.args[0]) == front:
                return ast.copy_location(ast.Constant(value=n_val), n)
            return self.generic_visit(n)
    return L().visit(copy.deepcopy(node))


def _fold_bool(test, front, n_val):
    """truth value of a guard under len(front) == n_val, or None"""
    t = _subst_len(test, front, n_val)
    if isinstance(t, ast.Compare) and len(t.ops) == 1:
        try:
            a, b = fold(t.left), fold(t.comparators[0])
        except ValueError:
            return None
        op = t.ops[0]
        return {ast.Eq: a == b, ast.NotEq: a != b, ast.Lt: a < b, ast.LtE: a <= b, ast.Gt: a > b, ast.GtE: a >= b}.get(type(op))
    if isinstance(t, ast.UnaryOp) and isinstance(t.op, ast.Not):
        r = _fold_bool(t.operand, front, n_val)
        return None if r is None else not r
    if isinstance(t, ast.BoolOp):
        rs = [_fold_bool(v, front, n_val) for v in t.values]
        if isinstance(t.op, ast.And):
            return False if any(r is False for r in rs) else (True if all(r is True for r in rs) else None)
        return True if any(r is True for r in rs) else (False if all(r is False for r in rs) else None)
    if access_path(t) == front:
        return n_val > 0
    return None


def _member_index(expr, front, n_val):
    """position (0..n_val-1) of the member denoted by front[c] for a literal c, else None"""
    if isinstance(expr, ast.Subscript) and access_path(expr.value) == front:
        try:
            c = fold(_subst_len(expr.slice, front, n_val))
        except ValueError:
            return None
        if isinstance(c, int) and -n_val <= c < n_val:
            return c % n_val
    return None


def r3_crowding(ctx, repo):
    mod = repo.module("operators")
    fn = mod.functions.get("crowding_distance")
    if fn is None:
        raise AnalysisError("crowding_distance not found")
    C = "operators.crowding_distance"
    front = func_params(fn)[0]
    T = Terms(fn)
    FEAT = "features['crowding_distance']"

    def is_cd(target):
        """member expression M for a store target M.features['crowding_distance'], else None"""
        if isinstance(target, ast.Subscript) and isinstance(target.slice, ast.Constant) and target.slice.value == "crowding_distance" \
                and isinstance(target.value, ast.Attribute) and target.value.attr == "features":
            return target.value.value
        return None

    # ---------------------------------------------------------------- loops of the function, classified
    top_loops = [s for s in fn.body if isinstance(s, ast.For)]
    obj_loop = None
    for lp in top_loops:
        if any(isinstance(s, ast.Expr) and is_method_call(s.value, "sort") for s in lp.body) or any(isinstance(s, ast.For) for s in lp.body):
            obj_loop = lp

    def over_members(lp):
        """the loop visits every member once: for x in front / for i in range(len(front)) / enumerate(front)"""
        info = T.loop_of(lp)
        if info is None:
            return False
        if info.seqs and all(access_path(q) == front for q in info.seqs) and not isinstance(lp.iter, ast.Call):
            return True
        if isinstance(lp.iter, ast.Call) and access_path(lp.iter.func) == "enumerate" and access_path(lp.iter.args[0]) == front:
            return True
        rb = range_bounds(T.expand(lp.iter, at=lp))
        return bool(rb and (rb[0] is None or text(rb[0]) == "0") and rb[2] is None and text(rb[1]) == "len(%s)" % front)

    # ---------------------------------------------------------------- (a) small fronts
    # every path that is consistent with len(front) == 1 (== 2) must leave every member with an infinite distance
    small = {}
    for n_val in (1, 2):
        def counts(lp, n_val=n_val):
            if isinstance(lp, ast.For):
                if over_members(lp):
                    return (n_val,)
                if lp is obj_loop:
                    return (1,)
                info = T.loop_of(lp)
                it = T.expand(lp.iter, at=lp)
                rb = range_bounds(it)
                if rb:
                    try:
                        a = fold(_subst_len(rb[0], front, n_val)) if rb[0] is not None else 0
                        b = fold(_subst_len(rb[1], front, n_val))
                        st_ = fold(_subst_len(rb[2], front, n_val)) if rb[2] is not None else 1
                        return (len(range(a, b, st_)),)
                    except (ValueError, TypeError):
                        return (0, 1)
                if info is not None and info.hi is not None and info.lo is None:
                    try:
                        return (max(0, fold(_subst_len(info.hi, front, n_val))),)
                    except (ValueError, TypeError):
                        return (0, 1)
            return (0, 1)
        try:
            paths = Enumerator(loop_counts=counts, max_paths=4000).function_paths(fn)
        except Exception as ex:  # TooManyPaths
            small[n_val] = (None, "path enumeration failed: %s" % ex)
            continue
        verdict = True
        why = ""
        nok = 0
        for p in paths:
            pe = PathEnv(fn, p.events)
            consistent = True
            for k_, e in enumerate(p.events):
                if e.kind == "guard":
                    tv = _fold_bool(pe.expand_at(e.node, k_), front, n_val)
                    if tv is not None and tv != bool(e.val):
                        consistent = False
                        break
            if not consistent or p.outcome == "raise":
                continue
            nok += 1
            state = {}
            iters = {}
            unknown_member = False
            for k_, e in enumerate(p.events):
                if e.kind == "iter" and isinstance(e.node, ast.For):
                    iters[id(e.node)] = e.val
                if e.kind != "stmt" or not isinstance(e.node, (ast.Assign, ast.AugAssign)):
                    continue
                st_ = e.node
                tg = st_.targets[0] if isinstance(st_, ast.Assign) else st_.target
                m = is_cd(tg)
                if m is None:
                    continue
                mx = pe.expand_at(m, k_)
                idx = _member_index(mx, front, n_val)
                if idx is None and isinstance(mx, ast.Name):
                    # loop variable of a members loop: position = iteration number
                    for lp in [x for x in stmts_of(fn) if isinstance(x, ast.For) and over_members(x)]:
                        info = T.loop_of(lp)
                        if mx.id in getattr(info, "valid_elems", {}) and id(lp) in iters:
                            idx = iters[id(lp)]
                if idx is None and isinstance(mx, ast.Subscript) and access_path(mx.value) == front and isinstance(mx.slice, ast.Name):
                    for lp in [x for x in stmts_of(fn) if isinstance(x, ast.For) and over_members(x)]:
                        info = T.loop_of(lp)
                        if info.index == mx.slice.id and id(lp) in iters:
                            idx = iters[id(lp)]
                if idx is None:
                    unknown_member = True
                    continue
                vt = text(pe.expand_at(st_.value, k_))
                if isinstance(st_, ast.Assign):
                    state[idx] = "inf" if vt in INF_TEXTS else "fin"
                elif state.get(idx) != "inf":
                    state[idx] = "fin"
            if unknown_member:
                verdict = None if verdict is True else verdict
                why = why or "a distance is stored for a member the analysis cannot place"
                continue
            if any(state.get(i) != "inf" for i in range(n_val)):
                verdict = False
                why = "member(s) %s of a front of %d end with %s on the path [%s]" % (
                    [i for i in range(n_val) if state.get(i) != "inf"], n_val,
                    {i: state.get(i, "no value") for i in range(n_val)}, p.describe(5))
                break
        if nok == 0:
            verdict, why = None, "no path consistent with a front of %d member(s)" % n_val
        small[n_val] = (verdict, why)
    bad_small = [(k, w) for k, (v, w) in small.items() if v is False]
    unk_small = [(k, w) for k, (v, w) in small.items() if v is None]
    if bad_small:
        ctx.violated("R3", C, where(mod, fn), "fronts of %s member(s) do not get infinite crowding distance for all members: %s" % ([k for k, _ in bad_small], bad_small[0][1]), key="small-fronts")
    elif unk_small:
        ctx.inconclusive("R3", C, where(mod, fn), "small fronts: %s" % unk_small[0][1], key="small-fronts")
    else:
        ctx.holds("R3", C, where(mod, fn), "fronts of one or two members get infinite distance for every member (all paths consistent with n = 1, 2)", key="small-fronts")

    # ---------------------------------------------------------------- (b) general fronts
    if obj_loop is None:
        ctx.inconclusive("R3", C, where(mod, fn), "objective loop not found", key="objective-loop")
        return
    # zero init outside the objective loop, over all members
    init_loop = None
    for lp in top_loops:
        if lp is obj_loop or fn.body.index(lp) > fn.body.index(obj_loop) or not over_members(lp):
            continue
        for s_ in lp.body:
            if isinstance(s_, ast.Assign) and is_cd(s_.targets[0]) is not None and is_const(s_.value) and const_value(s_.value) == 0:
                mx = T.expand(is_cd(s_.targets[0]), at=s_, elems=True)
                info = T.loop_of(lp)
                if isinstance(mx, ast.Subscript) and access_path(mx.value) == front and text(mx.slice) == info.index:
                    init_loop = lp
    zero_inside = [s_ for s_ in stmts_of(obj_loop) if isinstance(s_, ast.Assign) and is_cd(s_.targets[0]) is not None and is_const(s_.value) and const_value(s_.value) == 0]
    if zero_inside:
        ctx.violated("R3", C, where(mod, zero_inside[0]), "the distances are reset to zero inside the objective loop: only the last objective contributes", key="zero-init")
    elif init_loop is not None:
        ctx.holds("R3", C, where(mod, init_loop), "all members start from 0.0 once, before the objective loop", key="zero-init")
    else:
        zero_any = [s_ for s_ in stmts_of(fn) if isinstance(s_, ast.Assign) and is_cd(s_.targets[0]) is not None and is_const(s_.value) and const_value(s_.value) == 0]
        # no reset at all is a recognised contradiction; a reset in a shape the rule cannot place is not
        ctx.check3(None if zero_any else False, "R3", C, where(mod, fn), "",
                   "the crowding distance of every member is not reset to zero before the objective loop (stale values from earlier calls are accumulated)",
                   "a zero reset exists but is not recognised as covering every member before the objective loop", key="zero-init")

    # objective range excludes the marker
    rb = range_bounds(T.expand(obj_loop.iter, at=obj_loop))
    dim = obj_loop.target.id if isinstance(obj_loop.target, ast.Name) else None
    stop = text(rb[1]).replace(" ", "") if rb else ""
    good_stops = {"len(%s[0].costs_signed[:-1])" % front, "len(%s[0].costs_signed)-1" % front}
    if rb and (rb[0] is None or text(rb[0]) == "0") and stop in good_stops:
        ctx.holds("R3", C, where(mod, obj_loop), "objective loop runs over the objectives only (marker excluded)", key="objective-loop")
    elif rb and stop == "len(%s[0].costs_signed)" % front:
        ctx.violated("R3", C, where(mod, obj_loop), "the feasibility marker is counted as an objective", key="objective-loop")
    elif rb and (stop in {"len(%s[0].costs_signed[:-1])-1" % front, "len(%s[0].costs_signed)-2" % front} or (rb[0] is not None and text(rb[0]) != "0")):
        ctx.violated("R3", C, where(mod, obj_loop), "the objective loop %s skips an objective" % text(obj_loop.iter), key="objective-loop")
    else:
        ctx.inconclusive("R3", C, where(mod, obj_loop), "objective range %s not recognised" % text(obj_loop.iter), key="objective-loop")

    # every objective must be processed: the objective loop is never left early
    early = []
    for st in stmts_of(obj_loop):
        if st is obj_loop:
            continue
        if isinstance(st, ast.Return):
            early.append(st)
        if isinstance(st, ast.Break):
            owner = None
            for lp_ in [x for x in stmts_of(obj_loop) if isinstance(x, (ast.For, ast.While))]:
                if st in stmts_of(lp_) and (owner is None or lp_ in stmts_of(owner)):
                    owner = lp_
            if owner is None:
                early.append(st)
    if early:
        ctx.violated("R3", C, where(mod, early[0]), "the objective loop is left early (%s): the remaining objectives contribute nothing and their extreme members do not get infinite distance" % type(early[0]).__name__.lower(), key="all-objectives")
    else:
        ctx.holds("R3", C, where(mod, obj_loop), "no break/return inside the objective loop: every objective is processed", key="all-objectives")
    # sort by that objective
    sorts = [s_ for s_ in obj_loop.body if isinstance(s_, ast.Expr) and is_method_call(s_.value, "sort") and access_path(s_.value.func.value) == front]
    okk = None
    if sorts:
        kw = {k.arg: k.value for k in sorts[0].value.keywords}
        k = kw.get("key")
        if isinstance(k, ast.Lambda) and len(k.args.args) == 1:
            if text(k.body) == "%s.costs_signed[%s]" % (k.args.args[0].arg, dim) and "reverse" not in kw:
                okk = True
            else:
                okk = False
        elif k is None:
            okk = False
    if okk:
        ctx.holds("R3", C, where(mod, sorts[0]), "front sorted ascending by the current objective", key="sort-by-objective")
    elif okk is False or not [c for c in calls_in(obj_loop) if (access_path(c.func) or "").split(".")[-1] in ("sort", "sorted")]:
        ctx.violated("R3", C, where(mod, (sorts or [obj_loop])[0]), "inside the objective loop the front is not sorted ascending by the current objective `%s`" % dim, key="sort-by-objective")
    else:
        ctx.inconclusive("R3", C, where(mod, obj_loop), "sorting step not recognised", key="sort-by-objective")

    # boundaries infinite: on every path through one round of the objective loop both ends of the sorted front get inf
    def inf_positions(stmt):
        out = set()
        if isinstance(stmt, ast.Assign) and text(T.expand(stmt.value, at=stmt)) in INF_TEXTS and is_cd(stmt.targets[0]) is not None:
            mx = T.expand(is_cd(stmt.targets[0]), at=stmt)
            if isinstance(mx, ast.Subscript) and access_path(mx.value) == front:
                t_ = text(mx.slice).replace(" ", "")
                if t_ in ("0",):
                    out.add("0")
                if t_ in ("-1", "len(%s)-1" % front):
                    out.add("-1")
        return out
    missing = None
    nrounds = 0
    for p_ in Enumerator(loop_counts=(0, 1)).function_paths(body_fn(obj_loop.body, fn.args, obj_loop.lineno)):
        if p_.outcome == "raise":
            continue
        nrounds += 1
        got = set()
        for e_ in p_.events:
            if e_.kind == "stmt":
                got |= inf_positions(e_.node)
        if got != {"0", "-1"}:
            missing = missing or (p_, got)
    after = [s_ for s_ in fn.body[fn.body.index(obj_loop) + 1:] if inf_positions(s_)] if obj_loop in fn.body else []
    if missing is None and nrounds:
        ctx.holds("R3", C, where(mod, obj_loop), "both ends of the front sorted by the current objective get inf on all %d paths of a round" % nrounds, key="boundary-inf")
    elif missing is not None and after:
        ctx.violated("R3", C, where(mod, after[0]), "the ends of the sorted front are set to inf only after the objective loop (line %d): only the extremes of the LAST objective become "
                     "infinite, the extremes of the other objectives keep a finite distance and can be truncated away" % after[0].lineno, key="boundary-inf")
    elif missing is not None:
        ctx.violated("R3", C, where(mod, obj_loop), "extreme members of each objective (positions 0 and -1 after sorting) get inf: found %s on the path [%s]"
                     % (sorted(missing[1]), missing[0].describe(4)), key="boundary-inf")
    else:
        ctx.inconclusive("R3", C, where(mod, obj_loop), "no path through the objective loop body", key="boundary-inf")

    # interior loop
    inner = [s_ for s_ in obj_loop.body if isinstance(s_, ast.For)]
    if len(inner) != 1 or not any(isinstance(x_, (ast.AugAssign, ast.Assign)) and is_cd(x_.target if isinstance(x_, ast.AugAssign) else x_.targets[0]) is not None
                                  for x_ in stmts_of(inner[0])):
        # the loop that credits the members, wherever it stands in the round (under a guard on the range, next to a loop that
        # only collects the sorted values)
        inner = [s_ for s_ in stmts_of(obj_loop) if isinstance(s_, ast.For) and s_ is not obj_loop and any(
            isinstance(x_, (ast.AugAssign, ast.Assign)) and is_cd(x_.target if isinstance(x_, ast.AugAssign) else x_.targets[0]) is not None for x_ in s_.body)]
    if len(inner) != 1:
        ctx.inconclusive("R3", C, where(mod, obj_loop), "interior loop not found", key="interior")
        return
    il = inner[0]
    info = T.loop_of(il)
    acc = [s_ for s_ in stmts_of(il) if isinstance(s_, (ast.AugAssign, ast.Assign)) and is_cd(s_.target if isinstance(s_, ast.AugAssign) else s_.targets[0]) is not None]
    if len(acc) != 1 or info is None or info.index is None:
        ctx.inconclusive("R3", C, where(mod, il), "accumulation statement / loop index not found", key="gap")
        return
    st = acc[0]
    tgt_node = st.target if isinstance(st, ast.AugAssign) else st.targets[0]
    mx = T.expand(is_cd(tgt_node), at=st, elems=True)
    if not (isinstance(mx, ast.Subscript) and access_path(mx.value) == front):
        ctx.inconclusive("R3", C, where(mod, st), "credited member %s is not an element of the front" % text(mx), key="gap")
        return
    J = mx.slice   # position of the credited member as an expression over the loop index
    # positions covered: J(lo) .. J(hi) (J is index + constant)
    k = info.index
    lo = info.lo if info.lo is not None else ast.Constant(value=0)
    hi = info.hi
    n_expr = poly.parse("len(%s)" % front)
    lo_x = T.expand(lo, at=il)
    hi_x = T.expand(hi, at=il) if hi is not None else None
    try:
        jlo = poly.norm(J, {k: lo_x})
        jhi = poly.norm(J, {k: hi_x}) if hi_x is not None else None
        slope = poly.norm(J, {k: poly.parse("1")}) - poly.norm(J, {k: poly.parse("0")})
    except poly.NotPolynomial:
        jlo = jhi = slope = None
    if jlo is None or jhi is None or not slope.is_const() or slope.const() != 1 or getattr(info, "step", None) is not None:
        ctx.inconclusive("R3", C, where(mod, il), "interior positions %s over %s not normalisable" % (text(J), text(il.iter)), key="interior")
    elif jlo == poly.norm(poly.parse("1")) and jhi == poly.norm(poly.parse("len(%s) - 1" % front)):
        ctx.holds("R3", C, where(mod, il), "interior positions [1, n-1): {0, n-1} + [1, n-1) = [0, n), neighbours in bounds", key="interior")
    else:
        ctx.violated("R3", C, where(mod, il), "interior loop %s credits positions [%s, %s), not exactly the interior positions 1..n-2" % (text(il.iter), poly.key_of(jlo), poly.key_of(jhi)), key="interior")
    # gap and accumulation
    if isinstance(st, ast.Assign):
        v = st.value
        if not (isinstance(v, ast.BinOp) and isinstance(v.op, ast.Add) and text(v.left) == text(tgt_node)):
            ctx.violated("R3", C, where(mod, st), "the normalised gap overwrites the distance instead of being added: only the last objective counts", key="gap")
            return
        term = v.right
    else:
        if not isinstance(st.op, ast.Add):
            ctx.violated("R3", C, where(mod, st), "the normalised gap is not added", key="gap")
            return
        term = st.value
    from ..terms import index_of_map
    term = index_of_map(T.expand(term, at=st, elems=True))
    # values collected once per round from the sorted front (V = [E(v) for v in front], built by a loop): V[k] is E(front[k])
    # as long as the front is not reordered or resized between the collection and the use
    import copy as _copy
    body_ = obj_loop.body
    for bi_, b_ in enumerate(body_):
        if isinstance(b_, ast.For) and access_path(b_.iter) == front and isinstance(b_.target, ast.Name) and len(b_.body) == 1 and isinstance(b_.body[0], ast.Expr) \
                and is_method_call(b_.body[0].value, "append") and isinstance(b_.body[0].value.func.value, ast.Name) and len(b_.body[0].value.args) == 1:
            V_ = b_.body[0].value.func.value.id
            fresh_ = any(isinstance(x_, ast.Assign) and access_path(x_.targets[0]) == V_ and isinstance(x_.value, ast.List) and not x_.value.elts for x_ in body_[:bi_])
            later_ = [x_ for x_ in body_[bi_ + 1:] for x_ in ast.walk(x_)]
            moved_ = any(isinstance(x_, ast.Call) and isinstance(x_.func, ast.Attribute) and access_path(x_.func.value) in (front, V_)
                         and x_.func.attr in ("sort", "reverse", "append", "pop", "insert", "remove", "extend", "clear") for x_ in later_) or \
                any(isinstance(x_, ast.Assign) and any(access_path(t_) in (front, V_) for t_ in x_.targets) for x_ in later_)
            if fresh_ and not moved_:
                E_, v_ = b_.body[0].value.args[0], b_.target.id

                class VM(ast.NodeTransformer):
                    def visit_Subscript(self, n_):
                        self.generic_visit(n_)
                        if isinstance(n_.value, ast.Name) and n_.value.id == V_ and not isinstance(n_.slice, ast.Slice):
                            el_ = ast.Subscript(value=ast.Name(id=front, ctx=ast.Load()), slice=n_.slice, ctx=ast.Load())

                            class S1(ast.NodeTransformer):
                                def visit_Name(self, m_):
                                    return _copy.deepcopy(el_) if m_.id == v_ else m_
                            return ast.fix_missing_locations(ast.copy_location(S1().visit(_copy.deepcopy(E_)), n_))
                        return n_
                term = VM().visit(_copy.deepcopy(term))
    if not (isinstance(term, ast.BinOp) and isinstance(term.op, ast.Div)):
        ctx.check3(None, "R3", C, where(mod, st), unknown_detail="the added term %s is not recognised as gap / range" % text(term)[:120], key="gap")
        return

    def cost_of(e):
        """(position expr, objective text) for front[P].costs_signed[d]"""
        if isinstance(e, ast.Subscript) and isinstance(e.value, ast.Attribute) and e.value.attr == "costs_signed" \
                and isinstance(e.value.value, ast.Subscript) and access_path(e.value.value.value) == front:
            return e.value.value.slice, text(e.slice)
        return None
    g, r = term.left, term.right
    parts = []
    for side in (g, r):
        if isinstance(side, ast.BinOp) and isinstance(side.op, ast.Sub) and cost_of(side.left) and cost_of(side.right):
            parts.append((cost_of(side.left), cost_of(side.right)))
        else:
            parts.append(None)
    if parts[0] is None or parts[1] is None:
        ctx.check3(None, "R3", C, where(mod, st), unknown_detail="gap %s / range %s not recognised as differences of objective values" % (text(g)[:80], text(r)[:80]), key="gap")
        return
    (ga, gb), (ra, rb_) = parts
    try:
        up = poly.norm(ga[0]) - poly.norm(J)
        dn = poly.norm(J) - poly.norm(gb[0])
        one = poly.norm(poly.parse("1"))
        gap_ok = up == one and dn == one and ga[1] == dim and gb[1] == dim
    except poly.NotPolynomial:
        gap_ok = None
    rng_ok = text(ra[0]).replace(" ", "") in ("-1", "len(%s)-1" % front) and text(rb_[0]) == "0" and ra[1] == dim and rb_[1] == dim
    if gap_ok is None:
        ctx.inconclusive("R3", C, where(mod, st), "neighbour positions not normalisable", key="gap")
    elif not gap_ok:
        ctx.violated("R3", C, where(mod, st), "the gap is %s, expected the difference of the two neighbours f[j+1] - f[j-1] of the credited member j = %s in objective %s" % (text(g), text(J), dim), key="gap")
    elif not rng_ok:
        ctx.violated("R3", C, where(mod, st), "the gap is normalised by %s, expected the objective's range f[-1] - f[0]" % text(r), key="gap")
    else:
        ctx.holds("R3", C, where(mod, st), "interior += (f[j+1]-f[j-1]) / (f[-1]-f[0]) for the current objective", key="gap")


# ------------------------------------------------------------------ R4
class TourClient:
    def __init__(self, fn, pop, selfn):
        self.fn, self.pop, self.selfn = fn, pop, selfn
        self.cand = None
        self.flagvar = None
        self.orient = None
        self.sample_ok = None

    def cand_of(self, node, env, ev):
        """'candidate0' / 'candidate1' when the expression denotes one of the two drawn candidates"""
        t = text(node)
        if self.cand:
            for k in ("0", "1"):
                if t == "%s[%s]" % (self.cand, k):
                    return "candidate" + k
        p = access_path(node)
        if p is not None and p in env and env[p][0] == "obj" and str(env[p][1]).startswith("candidate"):
            return env[p][1]
        return None

    def lookup(self, node, env, ev):
        t = text(node)
        if isinstance(node, ast.Subscript) and isinstance(node.slice, ast.Constant) and node.slice.value == "front_number" \
                and isinstance(node.value, ast.Attribute) and node.value.attr == "features":
            c = self.cand_of(node.value.value, env, ev)
            if c is not None:
                return [sym("f", "p" if c == "candidate0" else "q")]
        c = self.cand_of(node, env, ev) if isinstance(node, ast.Subscript) else None
        if c is not None:
            return [obj(c)]
        if t == "%s[0]" % self.pop:
            return [obj("member")]
        return None

    def call(self, node, env, ev):
        nm = access_path(node.func) or ""
        if nm in ("random.choice", "choice") and node.args:
            a = access_path(node.args[0])
            if a == self.cand:
                return [obj("candidate0"), obj("candidate1")]
            if a == self.pop:
                return [obj("member")]
        return None

    def assign_hook(self, stmt, env, ref, interp):
        if len(stmt.targets) != 1 or not isinstance(stmt.value, ast.Call):
            return None
        nm = access_path(stmt.value.func) or ""
        tgt = access_path(stmt.targets[0])
        if nm in ("random.sample", "sample"):
            self.cand = tgt
            a = stmt.value.args
            self.sample_ok = len(a) == 2 and access_path(a[0]) == self.pop and is_const(a[1]) and const_value(a[1]) == 2
            return [(dict(env), ref)]
        if nm in ("random.choices", "choices") or (nm.endswith("choice") and False):
            self.cand = tgt
            self.sample_ok = False
            return [(dict(env), ref)]
        if nm.endswith(".compare") and len(stmt.value.args) == 2:
            self.flagvar = tgt
            def owner(a):
                return self.cand_of(a.value, env, None) if isinstance(a, ast.Attribute) and a.attr == "costs_signed" else None
            o0, o1 = owner(stmt.value.args[0]), owner(stmt.value.args[1])
            if (o0, o1) == ("candidate0", "candidate1"):
                self.orient = 1
            elif (o0, o1) == ("candidate1", "candidate0"):
                self.orient = 2
            out = []
            for v in (0, 1, 2):
                e2 = dict(env)
                e2[tgt] = fin(v)
                e2["__flag__"] = fin(v)
                out.append((e2, ref))
            return out
        return None


def r4_tournament(ctx, repo):
    cls = repo.cls("TournamentSelector", "operators")
    mod = cls.module
    fn = cls.methods.get("select")
    if fn is None:
        raise AnalysisError("TournamentSelector.select not found")
    C = "TournamentSelector.select"
    selfn, pop = func_params(fn)[:2]
    table = {}
    bad = unsure = None
    unknown = None
    client = None
    # path rule (independent of the table below): with equal front numbers a candidate may only be returned after the
    # dominance comparator has been consulted
    cand_vars = {access_path(s_.targets[0]) for s_ in stmts_of(fn) if isinstance(s_, ast.Assign) and isinstance(s_.value, ast.Call)
                 and (access_path(s_.value.func) or "") in ("random.sample", "sample", "random.choices", "choices")}
    for p_ in Enumerator(loop_counts=(0, 1, 2)).function_paths(fn):
        if p_.outcome != "return" or p_.node is None or p_.node.value is None:
            continue
        fg = [e for e in p_.events if e.kind == "guard" and isinstance(e.node, ast.Compare) and len(e.node.ops) == 1
              and isinstance(e.node.ops[0], (ast.Lt, ast.Gt)) and text(e.node).count("front_number") == 2]
        if len(fg) < 2 or any(e.val for e in fg):
            continue
        compared = any(e.kind in ("stmt", "return") and any((access_path(c.func) or "").endswith(".compare") for c in calls_in(e.node)) for e in p_.events)
        rv = PathEnv(fn, p_.events).expand_at(p_.node.value, len(p_.events) - 1)
        from_cands = any(isinstance(n_, ast.Name) and n_.id in cand_vars for n_ in ast.walk(rv)) or \
            any(isinstance(n_, ast.Name) and n_.id in cand_vars for n_ in ast.walk(p_.node.value))
        if not compared and from_cands:
            ctx.violated("R4", C, where(mod, p_.node), "with equal front numbers a candidate is returned without consulting the dominance comparator (path [%s]): "
                         "the dominated candidate of a pair can win" % p_.describe(6), key="table")
            return
    for sf in "<=>":
        client = TourClient(fn, pop, selfn)
        interp = Interp(Evaluator(hooks=client), client)
        try:
            outs = interp.run(fn.body, {("sigma", "f"): sf}, None)
        except Unsupported as e:
            ctx.inconclusive("R4", C, where(mod, fn), "outside the analysable fragment: %s" % e)
            return
        for o in outs:
            flag = o.env.get("__flag__")
            flag = flag[1] if flag else None
            got = o.value
            key = "front %s, verdict %s" % (sf, flag)
            table.setdefault(key, set()).add(str(got[1]) if got[0] == "obj" else str(got))
            verdict_ = None
            if o.kind == "return" and got[0] == "top":
                # the abstract run lost track of the returned value (a table look-up, an unknown helper): no verdict
                unknown = unknown or (sf, flag, got, "the returned value is not resolved (%s)" % (got,), o)
                continue
            if o.kind != "return" or got[0] != "obj":
                verdict_ = "returns %s, which is not a member of the input population" % (got,)
            elif got[1] == "member":
                continue   # single-member population branch
            else:
                c = got[1]
                if sf == "<" and c != "candidate0" or sf == ">" and c != "candidate1":
                    verdict_ = "returns the candidate with the worse front number"
                elif sf == "=" and flag is not None and client.orient:
                    win = {1: "candidate0", 2: "candidate1"} if client.orient == 1 else {1: "candidate1", 2: "candidate0"}
                    if flag in win and c != win[flag]:
                        verdict_ = "at equal front number returns the dominated candidate"
                elif sf == "=" and flag is None:
                    verdict_ = "at equal front number the dominance comparator is not consulted"
            if verdict_ is not None:
                bad = bad or (sf, flag, got, verdict_, o)
    ctx.extra["tournament_table"] = {k: sorted(v) for k, v in sorted(table.items())}
    ctx.sample({"tournament (front c0?c1, compare(c0,c1)) -> returned": ctx.extra["tournament_table"]})
    if client.sample_ok is False:
        ctx.violated("R4", C, where(mod, fn), "the two candidates are not drawn with random.sample(<population>, 2): they need not be two distinct members of the population", key="candidates")
    elif client.sample_ok is None:
        ctx.inconclusive("R4", C, where(mod, fn), "candidate draw not recognised", key="candidates")
    else:
        ctx.holds("R4", C, where(mod, fn), "candidates = random.sample(population, 2)", key="candidates")
    if bad:
        ctx.violated("R4", C, where(mod, bad[4].node or fn), "front(c0) %s front(c1), verdict %s: %s" % (bad[0], bad[1], bad[3]), key="table")
    elif unknown:
        ctx.inconclusive("R4", C, where(mod, unknown[4].node or fn), "front(c0) %s front(c1), verdict %s: %s" % (unknown[0], unknown[1], unknown[3]), key="table")
    else:
        ctx.holds("R4", C, where(mod, fn), "never the worse front, never the dominated candidate; every result is a population member (%d table rows)" % len(table), key="table")


def run(ctx):
    for rid, doc in (("R1", "nondominated_cmp sign table"), ("R2", "truncate = sorted(set(pop), (front asc, crowding desc))[:size]"),
                     ("R3", "crowding stencil"), ("R4", "tournament table")):
        ctx.rule(rid, doc)
    ctx.axiom("set() keeps one representative per (__hash__, __eq__) class (C20); sorted() is ascending and stable; random.sample(L, 2) returns two distinct positions of L")
    ctx.assume("numeric side-clauses for tied objective values are not decided")
    r1_cmp(ctx, ctx.repo)
    r2_truncate(ctx, ctx.repo)
    r3_crowding(ctx, ctx.repo)
    r4_tournament(ctx, ctx.repo)
