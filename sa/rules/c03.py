"""C03 - environmental selection: rank first, then crowding, no duplicates.

R1  nondominated_cmp decision table (D-ORD over front order x crowding order):
    lower front first; at equal front, larger crowding first; else 0.
R2  nondominated_truncate: the sorted value flows from set(<population>) (one
    representative per design), ascending sort under cmp_to_key(<the function
    of R1>) or a key (front, -crowding), result = prefix [:size] with `size`
    the parameter.
R3  crowding_distance stencil: fronts of <= 2 members get inf; zero
    initialisation outside the objective loop; the objective loop excludes the
    marker; per objective the front is sorted by that objective; positions 0
    and -1 get inf; the interior loop range(1, n-1) with neighbours i+1 / i-1
    covers exactly the interior; the normalised gap is accumulated (+=) and
    divided by front[-1]-front[0] of the same objective.
R4  tournament table (front order x comparator verdict -> returned candidate):
    never the worse front, never the dominated one; every returned value is a
    member of the input population; candidates = random.sample(<input>, 2).
"""
import ast
import itertools

from ..absint import Evaluator, Interp, TOP, fin, boolean, sym, obj, Unsupported
from ..astutil import (text, access_path, func_params, stmts_of, calls_in, is_const, const_value, single_defs, canon, canon_text,
                       range_bounds, fold, is_method_call)
from ..loader import where, AnalysisError
from ..paths import Enumerator


# ------------------------------------------------------------------ R1
class CmpHooks:
    def __init__(self, p, q):
        self.p, self.q = p, q

    def lookup(self, node, env, ev):
        t = text(node)
        for side, nm in (("p", self.p), ("q", self.q)):
            if t == "%s.features['front_number']" % nm:
                return [sym("f", side)]
            if t == "%s.features['crowding_distance']" % nm:
                return [sym("c", side)]
        return None


def r1_cmp(ctx, repo):
    mod = repo.module("operators")
    fn = mod.functions.get("nondominated_cmp")
    if fn is None:
        raise AnalysisError("nondominated_cmp not found in operators.py")
    C = "operators.nondominated_cmp"
    p, q = func_params(fn)[:2]
    table = {}
    bad = unsure = None
    for sf, sc in itertools.product("<=>", "<=>"):
        hooks = CmpHooks(p, q)
        interp = Interp(Evaluator(hooks=hooks), hooks)
        try:
            outs = interp.run(fn.body, {("sigma", "f"): sf, ("sigma", "c"): sc}, None)
        except Unsupported as e:
            ctx.inconclusive("R1", C, where(mod, fn), "outside the analysable fragment: %s" % e)
            return
        want = -1 if sf == "<" else (1 if sf == ">" else (-1 if sc == ">" else (1 if sc == "<" else 0)))
        got = set()
        for o in outs:
            v = o.value[1] if (o.kind == "return" and o.value[0] == "fin") else None
            got.add(v)
            if v is None or o.tainted:
                unsure = unsure or (sf, sc, o)
            elif (v > 0) - (v < 0) != want:
                bad = bad or (sf, sc, v, want, o)
        table["front %s, crowding %s" % (sf, sc)] = sorted(str(g) for g in got)
    ctx.extra["nondominated_cmp_table"] = table
    ctx.sample({"nondominated_cmp(p,q) by (front p?q, crowding p?q)": table})
    if bad:
        sf, sc, v, want, o = bad
        ctx.violated("R1", C, where(mod, o.node or fn), "front(p) %s front(q), crowding(p) %s crowding(q): returns %r, the required sign is %d (lower front first, then larger crowding distance)" % (sf, sc, v, want),
                     facts={"front": sf, "crowding": sc, "returned": v, "expected_sign": want})
    elif unsure:
        ctx.inconclusive("R1", C, where(mod, fn), "abstract result not definite for front %s crowding %s" % (unsure[0], unsure[1]))
    else:
        ctx.holds("R1", C, where(mod, fn), "all 9 (front order, crowding order) cases give the required sign")


# ------------------------------------------------------------------ R2
def r2_truncate(ctx, repo):
    mod = repo.module("operators")
    fn = mod.functions.get("nondominated_truncate")
    if fn is None:
        raise AnalysisError("nondominated_truncate not found")
    C = "operators.nondominated_truncate"
    pop, size = func_params(fn)[:2]
    tags = {pop: ("INPUT",)}
    problems = []
    ret = None
    for s in fn.body:
        if isinstance(s, ast.Expr) and isinstance(s.value, ast.Constant):
            continue
        if isinstance(s, ast.Assign) and len(s.targets) == 1 and isinstance(s.targets[0], ast.Name):
            tags[s.targets[0].id] = tag_of(s.value, tags, size, problems)
        elif isinstance(s, ast.Return):
            ret = tag_of(s.value, tags, size, problems) if s.value is not None else None
        elif isinstance(s, ast.For) and isinstance(s.target, ast.Name) and isinstance(s.iter, ast.Name) and tags.get(s.iter.id, ("?",))[0] in ("INPUT", "DEDUP"):
            # dictionary-based de-duplication:  d.setdefault(KEY, x)  /  d[KEY] = x  for x in population
            lv = s.target.id
            key = dct = None
            ldefs = {}
            for b in s.body:
                if isinstance(b, ast.Assign) and isinstance(b.targets[0], ast.Name):
                    ldefs[b.targets[0].id] = b.value
                for c in calls_in(b):
                    if isinstance(c.func, ast.Attribute) and c.func.attr == "setdefault" and len(c.args) == 2 and access_path(c.args[1]) == lv:
                        key, dct = c.args[0], access_path(c.func.value)
                if isinstance(b, ast.Assign) and isinstance(b.targets[0], ast.Subscript) and access_path(b.value) == lv:
                    key, dct = b.targets[0].slice, access_path(b.targets[0].value)
            if key is None:
                problems.append(("inconclusive", "statement not understood: %s" % text(s).split("\n")[0]))
            else:
                kt = text(canon(key, ldefs))
                coarse = any(k_ in kt for k_ in ("round(", "int(", "//", "floor(", "format(", "%"))
                exact = kt in ("tuple(%s.vector)" % lv, lv, "hash(%s)" % lv, "tuple(x for x in %s.vector)" % lv)
                if coarse:
                    problems.append(("violated", "designs are de-duplicated by the key %s, which merges designs that differ by less than the rounding step although they are different design points (equality is 1e-10): distinct designs are dropped and fewer than min(k, distinct) survive" % kt))
                    tags[dct] = ("BADDEDUP",)
                elif exact:
                    tags[dct] = ("DEDUP", tags[s.iter.id])
                else:
                    problems.append(("inconclusive", "de-duplication key %s not recognised" % kt))
        elif isinstance(s, ast.Expr) and is_method_call(s.value, "sort") and isinstance(s.value.func.value, ast.Name):
            nm = s.value.func.value.id
            tags[nm] = sort_tag(tags.get(nm), s.value.keywords, problems)
        else:
            problems.append(("inconclusive", "statement not understood: %s" % text(s).split("\n")[0]))
    if any(isinstance(c_, ast.Call) and (access_path(c_.func) or "").endswith("groupby") for c_ in ast.walk(fn)):
        problems.append(("violated", "duplicates are removed with itertools.groupby, which only merges ADJACENT equal designs: copies of one design that are not neighbours in the sorted order both survive"))
    if ret is None:
        problems.append(("inconclusive", "no returned value"))
    elif ret[0] == "?":
        problems.append(("inconclusive", "the returned value %s is built by constructs outside the order algebra" % (ret,)))
    elif ret[0] != "PREFIX":
        problems.append(("violated", "the result is not the first `%s` members of the ranked, de-duplicated population (%s)" % (size, ret,)))
    else:
        inner = ret[1]
        if inner[0] == "?":
            problems.append(("inconclusive", "the truncated list is built by constructs outside the order algebra"))
        elif inner[0] != "SORTED":
            problems.append(("violated", "the truncated list is not sorted by (front, crowding): %s" % (inner,)))
        elif inner[1][0] == "?":
            problems.append(("inconclusive", "the sorted value is not recognisably the (de-duplicated) input population"))
        elif inner[1][0] != "DEDUP":
            problems.append(("violated", "the population is not de-duplicated with set() before ranking: a design could survive twice"))
    viol = [m for k, m in problems if k == "violated"]
    inc = [m for k, m in problems if k == "inconclusive"]
    if viol:
        ctx.violated("R2", C, where(mod, fn), "; ".join(viol))
    elif inc:
        ctx.inconclusive("R2", C, where(mod, fn), "; ".join(inc))
    else:
        ctx.holds("R2", C, where(mod, fn), "result = sorted(set(population), by (front asc, crowding desc))[:size]")


def sort_tag(src, keywords, problems):
    key = [k.value for k in keywords if k.arg == "key"]
    rev = [k.value for k in keywords if k.arg == "reverse"]
    if rev and not (is_const(rev[0]) and const_value(rev[0]) is False):
        problems.append(("violated", "the population is sorted in reverse order: the worst fronts come first"))
        return ("BAD",)
    if not key:
        problems.append(("violated", "the population is sorted without the (front, crowding) key"))
        return ("BAD",)
    k = key[0]
    ok = False
    if isinstance(k, ast.Call) and (access_path(k.func) or "").endswith("cmp_to_key") and k.args and access_path(k.args[0]) == "nondominated_cmp":
        ok = True
    elif isinstance(k, ast.Lambda) and isinstance(k.body, ast.Tuple) and len(k.body.elts) == 2:
        x = k.args.args[0].arg
        a, b = text(k.body.elts[0]), text(k.body.elts[1])
        if a == "%s.features['front_number']" % x and b == "-%s.features['crowding_distance']" % x:
            ok = True
        elif a == "%s.features['front_number']" % x and b == "%s.features['crowding_distance']" % x:
            problems.append(("violated", "the key orders crowding distance ascending: the most crowded members of the cut front are kept"))
            return ("BAD",)
    if not ok:
        problems.append(("inconclusive", "sort key %s not recognised" % text(k)))
        return ("BAD",)
    return ("SORTED", src or ("?",))


def tag_of(v, tags, size, problems):
    if isinstance(v, ast.Name):
        return tags.get(v.id, ("?",))
    if isinstance(v, ast.Call):
        nm = access_path(v.func)
        if nm == "set" and len(v.args) == 1:
            inner = tag_of(v.args[0], tags, size, problems)
            return ("DEDUP", inner) if inner[0] in ("INPUT", "DEDUP") else ("?",)
        if nm in ("list", "tuple") and len(v.args) == 1:
            a0 = v.args[0]
            if isinstance(a0, ast.Call) and isinstance(a0.func, ast.Attribute) and a0.func.attr == "values" and access_path(a0.func.value) in tags:
                return tags[access_path(a0.func.value)]
            return tag_of(v.args[0], tags, size, problems)
        if nm == "sorted" and v.args:
            return sort_tag(tag_of(v.args[0], tags, size, problems), v.keywords, problems)
    if isinstance(v, ast.Subscript) and isinstance(v.slice, ast.Slice):
        inner = tag_of(v.value, tags, size, problems)
        sl = v.slice
        if sl.lower is None and access_path(sl.upper) == size and sl.step is None:
            return ("PREFIX", inner)
        problems.append(("violated", "the slice %s does not keep the first `%s` members" % (text(v), size)))
        return ("BADSLICE", inner)
    return ("?",)


# ------------------------------------------------------------------ R3
def r3_crowding(ctx, repo):
    mod = repo.module("operators")
    fn = mod.functions.get("crowding_distance")
    if fn is None:
        raise AnalysisError("crowding_distance not found")
    C = "operators.crowding_distance"
    front = func_params(fn)[0]
    defs = single_defs(fn)
    FEAT = "features['crowding_distance']"

    def ct(n):
        return canon_text(n, defs)

    # (a) small fronts: paths with n == 1 / n == 2 decided true
    small_ok = {1: False, 2: False}
    for p in Enumerator(loop_counts=(0, 1)).function_paths(fn):
        n_known = None
        for e in p.events:
            if e.kind == "guard" and e.val and isinstance(e.node, ast.Compare) and isinstance(e.node.ops[0], ast.Eq) \
                    and ct(e.node.left) == "len(%s)" % front and is_const(e.node.comparators[0]):
                n_known = const_value(e.node.comparators[0])
        if n_known in (1, 2):
            idx = set()
            for e in p.events:
                if e.kind == "stmt" and isinstance(e.node, ast.Assign) and text(e.node.value) in ("math.inf", "np.inf", "float('inf')", "inf"):
                    t = text(e.node.targets[0])
                    for i in range(n_known):
                        if t == "%s[%d].%s" % (front, i, FEAT):
                            idx.add(i)
                    if n_known == 2 and t == "%s[-1].%s" % (front, FEAT):
                        idx.add(1)
            if idx == set(range(n_known)) and p.outcome == "return":
                small_ok[n_known] = True
    if all(small_ok.values()):
        ctx.holds("R3", C, where(mod, fn), "fronts of one or two members get infinite distance for every member", key="small-fronts")
    else:
        # the generic code handles small fronts only if boundaries are assigned for n>=1; otherwise flag
        ctx.violated("R3", C, where(mod, fn), "fronts of %s member(s) do not get infinite crowding distance for all members" % [k for k, v in small_ok.items() if not v], key="small-fronts")

    # (b) loops
    top_loops = [s for s in fn.body if isinstance(s, ast.For)]
    obj_loop = None
    init_loop = None
    for lp in top_loops:
        if any(isinstance(s, ast.Expr) and is_method_call(s.value, "sort") for s in lp.body) or any(isinstance(s, ast.For) for s in lp.body):
            obj_loop = lp
        else:
            init_loop = lp
    if obj_loop is None:
        ctx.inconclusive("R3", C, where(mod, fn), "objective loop not found", key="objective-loop")
        return
    # zero init outside objective loop, over all members
    init_ok = False
    if init_loop is not None and fn.body.index(init_loop) < fn.body.index(obj_loop) and isinstance(init_loop.target, ast.Name):
        rb = range_bounds(init_loop.iter)
        iv = init_loop.target.id
        z = [s for s in init_loop.body if isinstance(s, ast.Assign) and text(s.targets[0]) == "%s[%s].%s" % (front, iv, FEAT) and is_const(s.value) and const_value(s.value) == 0]
        if rb and (rb[0] is None or text(rb[0]) == "0") and ct(rb[1]) == "len(%s)" % front and z:
            init_ok = True
        if access_path(init_loop.iter) == front:
            z = [s for s in init_loop.body if isinstance(s, ast.Assign) and text(s.targets[0]) == "%s.%s" % (iv, FEAT) and is_const(s.value) and const_value(s.value) == 0]
            init_ok = bool(z)
    zero_inside = [s for s in stmts_of(obj_loop) if isinstance(s, ast.Assign) and FEAT in text(s.targets[0]) and is_const(s.value) and const_value(s.value) == 0]
    if zero_inside:
        ctx.violated("R3", C, where(mod, zero_inside[0]), "the distances are reset to zero inside the objective loop: only the last objective contributes", key="zero-init")
    elif init_ok:
        ctx.holds("R3", C, where(mod, init_loop), "all members start from 0.0 once, before the objective loop", key="zero-init")
    else:
        ctx.violated("R3", C, where(mod, fn), "the crowding distance of every member is not reset to zero before the objective loop (stale values from earlier calls are accumulated)", key="zero-init")

    # objective range excludes the marker
    rb = range_bounds(obj_loop.iter)
    dim = obj_loop.target.id if isinstance(obj_loop.target, ast.Name) else None
    stop = ct(rb[1]).replace(" ", "") if rb else ""
    good_stops = {"len(%s[0].costs_signed[:-1])" % front, "len(%s[0].costs_signed)-1" % front}
    if rb and (rb[0] is None or text(rb[0]) == "0") and stop in good_stops:
        ctx.holds("R3", C, where(mod, obj_loop), "objective loop runs over the objectives only (marker excluded)", key="objective-loop")
    elif rb and stop == "len(%s[0].costs_signed)" % front:
        ctx.violated("R3", C, where(mod, obj_loop), "the feasibility marker is counted as an objective", key="objective-loop")
    elif rb and (stop in {"len(%s[0].costs_signed[:-1])-1" % front, "len(%s[0].costs_signed)-2" % front} or (rb[0] is not None and text(rb[0]) != "0")):
        ctx.violated("R3", C, where(mod, obj_loop), "the objective loop %s skips an objective" % text(obj_loop.iter), key="objective-loop")
    else:
        ctx.inconclusive("R3", C, where(mod, obj_loop), "objective range %s not recognised" % text(obj_loop.iter), key="objective-loop")

    # every objective must be processed: the objective loop is never left early
    early = []
    for st in stmts_of(obj_loop):
        if st is obj_loop:
            continue
        if isinstance(st, ast.Return):
            early.append(st)
        if isinstance(st, ast.Break):
            # a break belongs to the innermost enclosing loop
            owner = None
            for lp_ in [x for x in stmts_of(obj_loop) if isinstance(x, (ast.For, ast.While))]:
                if st in stmts_of(lp_) and (owner is None or lp_ in stmts_of(owner)):
                    owner = lp_
            if owner is None:
                early.append(st)
    if early:
        ctx.violated("R3", C, where(mod, early[0]), "the objective loop is left early (%s): the remaining objectives contribute nothing and their extreme members do not get infinite distance" % type(early[0]).__name__.lower(), key="all-objectives")
    else:
        ctx.holds("R3", C, where(mod, obj_loop), "no break/return inside the objective loop: every objective is processed", key="all-objectives")
    # a zero-range guard may only skip the division, not the boundary assignment
    # sort by that objective
    sorts = [s for s in obj_loop.body if isinstance(s, ast.Expr) and is_method_call(s.value, "sort") and access_path(s.value.func.value) == front]
    okk = False
    if sorts:
        kw = {k.arg: k.value for k in sorts[0].value.keywords}
        k = kw.get("key")
        if isinstance(k, ast.Lambda) and text(k.body) == "%s.costs_signed[%s]" % (k.args.args[0].arg, dim) and "reverse" not in kw:
            okk = True
    if okk:
        ctx.holds("R3", C, where(mod, sorts[0]), "front sorted ascending by the current objective", key="sort-by-objective")
    else:
        ctx.violated("R3", C, where(mod, (sorts or [obj_loop])[0]), "inside the objective loop the front is not sorted ascending by the current objective `%s`" % dim, key="sort-by-objective")

    # boundaries infinite
    inf_idx = set()
    for s in obj_loop.body:
        if isinstance(s, ast.Assign) and text(s.value) in ("math.inf", "np.inf", "float('inf')", "inf"):
            for i in ("0", "-1"):
                if text(s.targets[0]) == "%s[%s].%s" % (front, i, FEAT):
                    inf_idx.add(i)
    srt_i = obj_loop.body.index(sorts[0]) if sorts else -1
    ctx.check(inf_idx == {"0", "-1"}, "R3", C, where(mod, obj_loop), "extreme members of each objective (positions 0 and -1 after sorting) get inf: found %s" % sorted(inf_idx), key="boundary-inf")

    # interior loop
    inner = [s for s in obj_loop.body if isinstance(s, ast.For)]
    if len(inner) != 1 or not isinstance(inner[0].target, ast.Name):
        ctx.inconclusive("R3", C, where(mod, obj_loop), "interior loop not found", key="interior")
        return
    il = inner[0]
    i = il.target.id
    rb = range_bounds(il.iter)
    a = ct(rb[0]) if rb and rb[0] is not None else "0"
    b = ct(rb[1]).replace(" ", "") if rb else ""
    if a == "1" and b == "len(%s)-1" % front and rb[2] is None:
        ctx.holds("R3", C, where(mod, il), "interior loop range(1, n-1): {0, n-1} + [1, n-1) = [0, n), neighbours i-1/i+1 in bounds", key="interior")
    elif rb:
        ctx.violated("R3", C, where(mod, il), "interior loop %s does not cover exactly the interior positions 1..n-2" % text(il.iter), key="interior")
    else:
        ctx.inconclusive("R3", C, where(mod, il), "interior range not recognised", key="interior")
    # gap and accumulation
    idefs = dict(defs)
    idefs.update(single_defs(ast.FunctionDef(name="x", args=fn.args, body=il.body, decorator_list=[], returns=None, type_comment=None, lineno=0, col_offset=0)))
    acc = [s for s in stmts_of(il) if isinstance(s, (ast.AugAssign, ast.Assign)) and FEAT in text(s.target if isinstance(s, ast.AugAssign) else s.targets[0])]
    if len(acc) != 1:
        ctx.inconclusive("R3", C, where(mod, il), "accumulation statement not found", key="gap")
        return
    st = acc[0]
    tgt = text(st.target if isinstance(st, ast.AugAssign) else st.targets[0])
    if tgt != "%s[%s].%s" % (front, i, FEAT):
        ctx.violated("R3", C, where(mod, st), "the gap is credited to %s instead of member i" % tgt, key="gap")
        return
    if isinstance(st, ast.Assign):
        v = st.value
        if not (isinstance(v, ast.BinOp) and isinstance(v.op, ast.Add) and text(v.left) == tgt):
            ctx.violated("R3", C, where(mod, st), "the normalised gap overwrites the distance instead of being added: only the last objective counts", key="gap")
            return
        term = v.right
    else:
        if not isinstance(st.op, ast.Add):
            ctx.violated("R3", C, where(mod, st), "the normalised gap is not added", key="gap")
            return
        term = st.value
    term = canon(term, idefs)
    want_gap = {"%s[%s + 1].costs_signed[%s] - %s[%s - 1].costs_signed[%s]" % (front, i, dim, front, i, dim)}
    want_rng = "%s[-1].costs_signed[%s] - %s[0].costs_signed[%s]" % (front, dim, front, dim)
    if isinstance(term, ast.BinOp) and isinstance(term.op, ast.Div):
        g, r = text(term.left), text(term.right)
        if g.strip("()") not in want_gap:
            ctx.violated("R3", C, where(mod, st), "the gap is %s, expected the difference of the two neighbours %s" % (g, sorted(want_gap)[0]), key="gap")
        elif r.strip("()") != want_rng:
            ctx.violated("R3", C, where(mod, st), "the gap is normalised by %s, expected the objective's range %s" % (r, want_rng), key="gap")
        else:
            ctx.holds("R3", C, where(mod, st), "interior += (f[i+1]-f[i-1]) / (f[-1]-f[0]) for the current objective", key="gap")
    else:
        ctx.violated("R3", C, where(mod, st), "the added term %s is not the neighbour gap divided by the objective's range" % text(term), key="gap")


# ------------------------------------------------------------------ R4
class TourClient:
    def __init__(self, fn, pop, selfn):
        self.fn, self.pop, self.selfn = fn, pop, selfn
        self.cand = None
        self.flagvar = None
        self.orient = None
        self.sample_ok = None

    def lookup(self, node, env, ev):
        t = text(node)
        if self.cand:
            for k, side in (("0", "p"), ("1", "q")):
                if t == "%s[%s].features['front_number']" % (self.cand, k):
                    return [sym("f", side)]
                if t == "%s[%s]" % (self.cand, k):
                    return [obj("candidate%s" % k)]
        if t == "%s[0]" % self.pop:
            return [obj("member")]
        return None

    def call(self, node, env, ev):
        nm = access_path(node.func) or ""
        if nm in ("random.choice", "choice") and node.args:
            a = access_path(node.args[0])
            if a == self.cand:
                return [obj("candidate0"), obj("candidate1")]
            if a == self.pop:
                return [obj("member")]
        return None

    def assign_hook(self, stmt, env, ref, interp):
        if len(stmt.targets) != 1 or not isinstance(stmt.value, ast.Call):
            return None
        nm = access_path(stmt.value.func) or ""
        tgt = access_path(stmt.targets[0])
        if nm in ("random.sample", "sample"):
            self.cand = tgt
            a = stmt.value.args
            self.sample_ok = len(a) == 2 and access_path(a[0]) == self.pop and is_const(a[1]) and const_value(a[1]) == 2
            return [(dict(env), ref)]
        if nm in ("random.choices", "choices") or (nm.endswith("choice") and False):
            self.cand = tgt
            self.sample_ok = False
            return [(dict(env), ref)]
        if nm.endswith(".compare") and len(stmt.value.args) == 2:
            self.flagvar = tgt
            a0, a1 = text(stmt.value.args[0]), text(stmt.value.args[1])
            if self.cand and a0.startswith(self.cand + "[0]") and a1.startswith(self.cand + "[1]"):
                self.orient = 1
            elif self.cand and a0.startswith(self.cand + "[1]") and a1.startswith(self.cand + "[0]"):
                self.orient = 2
            out = []
            for v in (0, 1, 2):
                e2 = dict(env)
                e2[tgt] = fin(v)
                e2["__flag__"] = fin(v)
                out.append((e2, ref))
            return out
        return None


def r4_tournament(ctx, repo):
    cls = repo.cls("TournamentSelector", "operators")
    mod = cls.module
    fn = cls.methods.get("select")
    if fn is None:
        raise AnalysisError("TournamentSelector.select not found")
    C = "TournamentSelector.select"
    selfn, pop = func_params(fn)[:2]
    table = {}
    bad = unsure = None
    client = None
    for sf in "<=>":
        client = TourClient(fn, pop, selfn)
        interp = Interp(Evaluator(hooks=client), client)
        try:
            outs = interp.run(fn.body, {("sigma", "f"): sf}, None)
        except Unsupported as e:
            ctx.inconclusive("R4", C, where(mod, fn), "outside the analysable fragment: %s" % e)
            return
        for o in outs:
            flag = o.env.get("__flag__")
            flag = flag[1] if flag else None
            got = o.value
            key = "front %s, verdict %s" % (sf, flag)
            table.setdefault(key, set()).add(str(got[1]) if got[0] == "obj" else str(got))
            if o.kind != "return" or got[0] != "obj":
                bad = bad or (sf, flag, got, "returns %s, which is not a member of the input population" % (got,), o)
                continue
            if got[1] == "member":
                continue   # single-member population branch
            c = got[1]
            if sf == "<" and c != "candidate0" or sf == ">" and c != "candidate1":
                bad = bad or (sf, flag, got, "returns the candidate with the worse front number", o)
            elif sf == "=" and flag is not None and client.orient:
                win = {1: "candidate0", 2: "candidate1"} if client.orient == 1 else {1: "candidate1", 2: "candidate0"}
                if flag in win and c != win[flag]:
                    bad = bad or (sf, flag, got, "at equal front number returns the dominated candidate", o)
            elif sf == "=" and flag is None:
                bad = bad or (sf, flag, got, "at equal front number the dominance comparator is not consulted", o)
    ctx.extra["tournament_table"] = {k: sorted(v) for k, v in sorted(table.items())}
    ctx.sample({"tournament (front c0?c1, compare(c0,c1)) -> returned": ctx.extra["tournament_table"]})
    if client.sample_ok is False:
        ctx.violated("R4", C, where(mod, fn), "the two candidates are not drawn with random.sample(<population>, 2): they need not be two distinct members of the population", key="candidates")
    elif client.sample_ok is None:
        ctx.inconclusive("R4", C, where(mod, fn), "candidate draw not recognised", key="candidates")
    else:
        ctx.holds("R4", C, where(mod, fn), "candidates = random.sample(population, 2)", key="candidates")
    if bad:
        ctx.violated("R4", C, where(mod, bad[4].node or fn), "front(c0) %s front(c1), verdict %s: %s" % (bad[0], bad[1], bad[3]), key="table")
    else:
        ctx.holds("R4", C, where(mod, fn), "never the worse front, never the dominated candidate; every result is a population member (%d table rows)" % len(table), key="table")


def run(ctx):
    for rid, doc in (("R1", "nondominated_cmp sign table"), ("R2", "truncate = sorted(set(pop), (front asc, crowding desc))[:size]"),
                     ("R3", "crowding stencil"), ("R4", "tournament table")):
        ctx.rule(rid, doc)
    ctx.axiom("set() keeps one representative per (__hash__, __eq__) class (C20); sorted() is ascending and stable; random.sample(L, 2) returns two distinct positions of L")
    ctx.assume("numeric side-clauses for tied objective values are not decided")
    r1_cmp(ctx, ctx.repo)
    r2_truncate(ctx, ctx.repo)
    r3_crowding(ctx, ctx.repo)
    r4_tournament(ctx, ctx.repo)
