"""C06 - transient evaluation failures are retried, logged, never recorded as results.

All rules are decided on the enumerated paths of Job.evaluate (exception
edges from every call-bearing statement of the try body to every handler
that may match) and on the paths of each handler body.

R1  attempt loop `for _ in range(K)`, K folds to 5; a path that exhausts the
    loop ends in `raise RuntimeError`; no path falls off the end.
R2  the handlers that *retry* (all paths end in `continue`) catch exactly
    {TimeoutError, RuntimeError}, are not shadowed by an earlier handler, and
    on each of their paths: a *new* Individual built from the failing vector
    is appended to problem.failed before the vector is re-sampled from
    gen_vector(problem.parameters); the state is left non-EVALUATED.
R3  every other handler re-raises on all its paths; no finally/else swallows.
R4  `state = EVALUATED` only after the objective call of the same attempt
    completed normally, and the stored vector is not written between that
    call and the return.
"""
import ast

from ..astutil import text, access_path, calls_in, stmts_of, fold, is_const, const_value
from ..jobmodel import JobModel
from ..loader import AnalysisError, where
from ..paths import Enumerator


def is_const_one(n):
    return is_const(n) and const_value(n) == 1


def handler_type_names(h):
    return [n.split(".")[-1] if n else None for n in Enumerator.handler_names(h)]


def body_paths(stmts, args, name="handler"):
    fake = ast.FunctionDef(name=name, args=args, body=stmts, decorator_list=[], returns=None, type_comment=None, lineno=stmts[0].lineno if stmts else 0, col_offset=0)
    return Enumerator(loop_counts=(0, 1, 2)).function_paths(fake)


def r5_callers(ctx, repo):
    """every function of the package that calls <job>.evaluate(X)"""
    n_sites = 0
    for mod in repo.modules.values():
        if mod.name.startswith("test") or "tests" in mod.path.split("/"):
            continue
        fns = [(None, f) for f in mod.functions.values()] + [(c, f) for c in mod.classes.values() for f in c.methods.values()]
        for cls, fn in fns:
            sites = [c for c in ast.walk(fn) if isinstance(c, ast.Call) and isinstance(c.func, ast.Attribute) and c.func.attr == "evaluate"
                     and "job" in (access_path(c.func.value) or "").lower() and len(c.args) == 1 and access_path(c.args[0])]
            if not sites:
                continue
            C = "%s%s" % (cls.name + "." if cls else mod.name + ".", fn.name)
            n_sites += len(sites)
            # the RuntimeError that ends the five attempts has to reach the caller: a handler around the call that catches it
            # (or everything) and does not re-raise on every path turns a design that was never evaluated into a result
            for tr in [t for t in ast.walk(fn) if isinstance(t, ast.Try)]:
                if not any(c in sites for st_ in tr.body for c in ast.walk(st_) if isinstance(c, ast.Call)):
                    continue
                for h in tr.handlers:
                    names = [n.split(".")[-1] if n else None for n in Enumerator.handler_names(h)]
                    if not (h.type is None or any(n in ("RuntimeError", "Exception", "BaseException") for n in names)):
                        continue
                    hp = body_paths(h.body, fn.args) if h.body else []
                    swallow = [p_ for p_ in hp if p_.outcome != "raise"]
                    if swallow:
                        ctx.violated("R5", C, where(mod, h), "%s catches %s around %s and goes on (path [%s]): the RuntimeError raised after five consecutive failures does not reach the caller, "
                                     "and the design, never evaluated successfully, stays in the batch as if it had a result"
                                     % (C, "everything" if h.type is None else "/".join(n for n in names if n), text(sites[0]), swallow[0].describe(4)), key="swallow:" + C)
            bad = None
            npaths = 0
            try:
                paths = Enumerator(loop_counts=(0, 1), max_paths=4000).function_paths(fn)
            except Exception as e:      # too many paths: no verdict for this caller
                ctx.inconclusive("R5", C, where(mod, fn), "paths of the caller not enumerable: %s" % e)
                continue
            for p in paths:
                npaths += 1
                derived = {}       # local -> design it was derived from (through .vector)
                stale = {}         # local -> (design, call)
                for e in p.events:
                    if e.kind not in ("stmt", "guard"):
                        continue
                    s_ = e.node
                    # uses of stale values that identify the design
                    if stale:
                        uses = []
                        for n_ in ast.walk(s_):
                            if isinstance(n_, ast.Subscript) and not isinstance(n_.slice, ast.Slice):
                                uses += [(x.id, "as a key/index in %s" % text(n_)[:80]) for x in ast.walk(n_.slice) if isinstance(x, ast.Name) and x.id in stale]
                            elif isinstance(n_, ast.Call) and isinstance(n_.func, ast.Attribute) and n_.func.attr in ("get", "setdefault", "pop", "index", "__contains__", "add", "discard") and n_.args:
                                uses += [(x.id, "as a key in %s" % text(n_)[:80]) for x in ast.walk(n_.args[0]) if isinstance(x, ast.Name) and x.id in stale]
                            elif isinstance(n_, ast.Call) and (access_path(n_.func) or "").split(".")[-1].startswith("Individual") and n_.args:
                                uses += [(x.id, "as the vector of a new design %s" % text(n_)[:80]) for x in ast.walk(n_.args[0]) if isinstance(x, ast.Name) and x.id in stale]
                            elif isinstance(n_, ast.Compare) and any(isinstance(o, (ast.In, ast.NotIn)) for o in n_.ops):
                                uses += [(x.id, "in the membership test %s" % text(n_)[:80]) for x in ast.walk(n_.left) if isinstance(x, ast.Name) and x.id in stale]
                        if isinstance(s_, ast.Assign) and any((access_path(t) or "").endswith(".vector") for t in s_.targets):
                            uses += [(x.id, "written back into %s" % text(s_.targets[0])) for x in ast.walk(s_.value) if isinstance(x, ast.Name) and x.id in stale]
                        if uses and bad is None:
                            k_, how = uses[0]
                            d_, call_ = stale[k_]
                            bad = (s_, "`%s` is derived from %s.vector before %s and used afterwards %s: a transient failure inside that call re-samples the vector, so what is filed "
                                   "under this value (the design, its costs) no longer belongs to it (path [%s])" % (k_, d_, text(call_), how, p.describe(5)))
                    if e.kind != "stmt":
                        continue
                    if isinstance(s_, ast.Assign) and len(s_.targets) == 1 and isinstance(s_.targets[0], ast.Name):
                        t_ = s_.targets[0].id
                        stale.pop(t_, None)
                        derived.pop(t_, None)
                        src = [access_path(n_.value) for n_ in ast.walk(s_.value) if isinstance(n_, ast.Attribute) and n_.attr == "vector" and access_path(n_.value)]
                        src += [derived[x.id] for x in ast.walk(s_.value) if isinstance(x, ast.Name) and x.id in derived]
                        if src:
                            derived[t_] = src[0]
                    for c in [c for c in ast.walk(s_) if isinstance(c, ast.Call)]:
                        if c in sites:
                            d_ = access_path(c.args[0])
                            for k_, v_ in list(derived.items()):
                                if v_ == d_:
                                    stale[k_] = (d_, c)
            if bad:
                ctx.violated("R5", C, where(mod, bad[0]), bad[1])
            else:
                ctx.holds("R5", C, where(mod, fn), "nothing derived from a design's vector before Job.evaluate identifies it afterwards (%d call site(s), %d paths)" % (len(sites), npaths))
    if n_sites == 0:
        ctx.inconclusive("R5", "callers of Job.evaluate", "", "no call <job>.evaluate(design) found in the package")


def run(ctx):
    ctx.rule("R5", "callers of Job.evaluate: a value derived from the vector before the call is not used as the design's identity after it")
    r5_callers(ctx, ctx.repo)
    for rid, doc in (("R1", "attempt loop bound folds to 5; exhaustion raises RuntimeError; nothing falls off the end"),
                     ("R2", "retry handlers catch exactly {TimeoutError, RuntimeError}; failed copy before re-sample; re-sample from gen_vector(parameters); state non-EVALUATED; continue"),
                     ("R3", "all other handlers re-raise on every path"),
                     ("R4", "EVALUATED only after normal completion of the objective call of the same attempt; vector untouched until return")):
        ctx.rule(rid, doc)
    jm = JobModel(ctx.repo)
    mod, fn, ind = jm.mod, jm.fn, jm.ind
    C = "Job.evaluate"
    ctx.count("paths_enumerated", jm.n_raw)
    ctx.count("paths_feasible", len(jm.paths))
    ctx.axiom("VectorAndNumbers.gen_vector samples a fresh design inside the bounds (decided by C08)")
    ctx.assume("loop unrolled to 1 and 2 attempts: the event-order automata of R1-R4 have at most 3 states, so longer failure sequences add no new behaviour")

    # ---------------------------------------------------------------- R1
    if isinstance(jm.loop, ast.While):
        t = jm.loop.test
        cnt = bound = None
        if isinstance(t, ast.Compare) and len(t.ops) == 1 and isinstance(t.ops[0], (ast.Lt, ast.LtE)):
            cnt = access_path(t.left)
            try:
                bound = fold(t.comparators[0]) + (1 if isinstance(t.ops[0], ast.LtE) else 0)
            except ValueError:
                bound = None
        if cnt is None or bound is None:
            ctx.inconclusive("R1", C, jm.where(jm.loop), "attempt loop `while %s` is not a recognised counter idiom" % text(t), key="bound")
        elif "." in cnt or cnt not in {n.id for n in ast.walk(fn) if isinstance(n, ast.Name) and isinstance(n.ctx, ast.Store)}:
            ctx.violated("R1", C, jm.where(jm.loop),
                         "the attempt counter %s is not local to the call: the Job object is shared by all parallel workers, so the "
                         "five-attempt budget is shared between designs instead of being per design" % cnt, key="bound")
        else:
            inits = [s_ for s_ in fn.body if isinstance(s_, ast.Assign) and any(access_path(x) == cnt for x in s_.targets)]
            init_ok = len(inits) == 1 and fn.body.index(inits[0]) < fn.body.index(jm.loop)
            try:
                start = fold(inits[0].value) if init_ok else None
            except ValueError:
                start = None
            bad_inc = None
            for p in jm.paths:
                incs = 0
                for e in p.events:
                    if e.kind == "iter" and e.node is jm.loop:
                        incs = 0
                    if e.kind == "stmt" and isinstance(e.node, ast.AugAssign) and access_path(e.node.target) == cnt:
                        if isinstance(e.node.op, ast.Add) and is_const_one(e.node.value):
                            incs += 1
                        else:
                            bad_inc = p
                    if (e.kind == "continue" or (e.kind == "exit" and e.node is jm.loop)) and False:
                        pass
                # every completed iteration must have incremented exactly once
                iters = [i for i, e in enumerate(p.events) if e.kind == "iter" and e.node is jm.loop]
                for a, b in zip(iters, iters[1:] + [len(p.events)]):
                    seg = p.events[a:b]
                    n_inc = sum(1 for e in seg if e.kind == "stmt" and isinstance(e.node, ast.AugAssign) and access_path(e.node.target) == cnt)
                    finished = any(e.kind in ("continue",) for e in seg) or b != len(p.events)
                    if finished and n_inc != 1:
                        bad_inc = p
            if start is None or bad_inc is not None:
                ctx.inconclusive("R1", C, jm.where(jm.loop), "counter %s is not initialised by a literal / not incremented exactly once per attempt" % cnt, key="bound")
            else:
                k = bound - start
                ctx.check(k == 5, "R1", C, jm.where(jm.loop), "attempt loop runs at most %d times (property: at most five attempts per design)" % k, key="bound")
    elif not isinstance(jm.loop, ast.For):
        ctx.inconclusive("R1", C, jm.where(), "attempt loop is not a `for ... in range(K)` statement", key="bound")
    else:
        k = jm.attempt_bound()
        if k is None:
            ctx.inconclusive("R1", C, jm.where(jm.loop), "attempt bound %s does not fold to a literal" % text(jm.loop.iter), key="bound")
        else:
            ctx.check(k == 5, "R1", C, jm.where(jm.loop), "attempt loop runs at most %d times (property: at most five attempts per design)" % k, key="bound")
    bad_fall = [p for p in jm.paths if p.outcome == "fall"]
    exhausted_bad = None
    n_exh = 0
    for p in jm.paths:
        ex = [e for e in p.events if e.kind == "exit" and e.node is jm.loop]
        if ex and ex[-1].val[0] == "normal":
            n_exh += 1
            if not (p.outcome == "raise" and (p.exc or "").split(".")[-1] == "RuntimeError"):
                exhausted_bad = exhausted_bad or p
        elif ex and ex[-1].val[0] == "break":
            # leaving the retry loop early without a result
            if not (p.outcome == "raise" and (p.exc or "").split(".")[-1] == "RuntimeError"):
                exhausted_bad = exhausted_bad or p
    if bad_fall or exhausted_bad:
        p = (bad_fall or [exhausted_bad])[0]
        ctx.violated("R1", C, jm.where(jm.loop), "after the attempts are used up the function %s instead of raising RuntimeError: path [%s]"
                     % ("returns normally" if p.outcome != "raise" else "raises %s" % p.exc, p.describe(8)), key="exhaustion")
    elif n_exh == 0:
        ctx.inconclusive("R1", C, jm.where(jm.loop), "no path exhausts the attempt loop", key="exhaustion")
    else:
        ctx.holds("R1", C, jm.where(jm.loop), "all %d loop-exhausting paths end in raise RuntimeError; none falls off the end" % n_exh, key="exhaustion")

    # ---------------------------------------------------------------- handlers
    obj_try = None
    for t in jm.tries:
        if any(jm.obj_call(s) is not None for s in t.body if not isinstance(s, (ast.If, ast.For, ast.While, ast.Try, ast.With))) or \
                any(jm.obj_call(s) is not None for s in stmts_of(ast.Module(body=t.body, type_ignores=[]))):
            obj_try = t
            break
    if obj_try is None:
        raise AnalysisError("the objective call of Job.evaluate is not inside a try statement (anchor artap/job.py)")
    if jm.loop is None or obj_try not in stmts_of(jm.loop):
        ctx.violated("R2", C, jm.where(obj_try), "the try statement around the objective call is not inside the attempt loop", key="handler-set")
    retry_types, retry_handlers, other_handlers = [], [], []
    # falling out of a handler is the same as `continue` when the try statement ends the loop body
    fall_continues = jm.loop is not None and jm.loop.body and jm.loop.body[-1] is obj_try and not obj_try.finalbody
    for h in obj_try.handlers:
        hp = body_paths(h.body, fn.args)
        ends = {("continue" if (p.outcome == "fall" and ((p.events and p.events[-1].kind == "continue") or (fall_continues and not (p.events and p.events[-1].kind == "break")))) else p.outcome) for p in hp}
        if ends == {"continue"}:
            retry_handlers.append((h, hp))
            retry_types.extend(handler_type_names(h))
        else:
            other_handlers.append((h, hp, ends))
    ctx.count("handlers", len(obj_try.handlers))
    want = {"TimeoutError", "RuntimeError"}
    got = set(retry_types)
    if got != want:
        extra, missing = got - want, want - got
        ctx.violated("R2", C, jm.where(obj_try),
                     "the retrying handlers catch %s; expected exactly {TimeoutError, RuntimeError}%s%s"
                     % (sorted(str(x) for x in got), ("; also retried: %s (must propagate immediately)" % sorted(str(x) for x in extra)) if extra else "",
                        ("; not retried: %s" % sorted(missing)) if missing else ""), key="handler-set")
    else:
        # shadowing by an earlier handler
        shadow = None
        for h in obj_try.handlers:
            if any(h is rh for rh, _ in retry_handlers):
                break
            for t in want:
                if Enumerator.handler_matches(h, t) == "yes":
                    shadow = (h, t)
        if shadow:
            ctx.violated("R2", C, jm.where(shadow[0]), "an earlier handler (%s) catches %s before the retry handler" % (text(shadow[0].type) if shadow[0].type else "bare except", shadow[1]), key="handler-set")
        else:
            ctx.holds("R2", C, jm.where(obj_try), "retry handlers catch exactly {TimeoutError, RuntimeError}", key="handler-set")

    # failed designs may be collected in a local list first; the accounting rule below demands that they are published
    local_lists = {access_path(s_.targets[0]) for s_ in stmts_of(fn) if isinstance(s_, ast.Assign) and len(s_.targets) == 1
                   and isinstance(s_.targets[0], ast.Name) and isinstance(s_.value, ast.List) and not s_.value.elts}
    # locals that hold the design's vector: `v = ind.vector` taken inside the attempt loop is the current vector of the
    # attempt; taken before the loop it is the vector the call started with, stale once a failed attempt re-sampled
    loop_stmts = {id(x) for x in stmts_of(jm.loop)} if jm.loop is not None else set()
    vec_locals = {}
    for s_ in stmts_of(fn):
        if isinstance(s_, ast.Assign) and len(s_.targets) == 1 and isinstance(s_.targets[0], ast.Name) and access_path(s_.value) == ind + ".vector":
            vec_locals.setdefault(s_.targets[0].id, []).append("loop" if id(s_) in loop_stmts else "before")
    stale_use = None

    def vec_arg(a):
        """'current' / 'stale' / None for the argument a failed copy is built from"""
        nonlocal stale_use
        if access_path(a) == ind + ".vector":
            return "current"
        if isinstance(a, ast.Name) and a.id in vec_locals:
            kinds = set(vec_locals[a.id])
            if kinds == {"loop"}:
                return "current"
            if kinds == {"before"}:
                stale_use = stale_use or a
                return "stale"
        return None
    # R2 per retry-handler path
    ok_r2 = True
    for h, hp in retry_handlers:
        for p in hp:
            new_fail, appended, resample, state_ev = None, None, None, []
            alias_append = None
            stale_here = False
            for i, e in enumerate(p.events):
                if e.kind != "stmt":
                    continue
                s = e.node
                if isinstance(s, ast.Assign) and len(s.targets) == 1 and isinstance(s.targets[0], ast.Name) and isinstance(s.value, ast.Call) \
                        and (access_path(s.value.func) or "").split(".")[-1].startswith("Individual") and s.value.args \
                        and vec_arg(s.value.args[0]) is not None:
                    new_fail = (i, s.targets[0].id)
                    stale_here = stale_here or vec_arg(s.value.args[0]) == "stale"
                for c in calls_in(s):
                    pth = access_path(c.func) or ""
                    if (pth.endswith(".problem.failed.append") or (pth.endswith(".append") and pth[:-7] in local_lists)) and c.args:
                        a = c.args[0]
                        if isinstance(a, ast.Name) and new_fail and a.id == new_fail[1]:
                            appended = i
                        elif isinstance(a, ast.Call) and (access_path(a.func) or "").split(".")[-1].startswith("Individual") and a.args \
                                and vec_arg(a.args[0]) is not None:
                            appended = i
                            new_fail = (i, None)
                            stale_here = stale_here or vec_arg(a.args[0]) == "stale"
                        elif access_path(a) == ind:
                            alias_append = s
                if jm.is_vector_write(e):
                    v = getattr(s, "value", None)
                    if isinstance(s, ast.Assign) and isinstance(v, ast.Call) and (access_path(v.func) or "").endswith("gen_vector") \
                            and v.args and (access_path(v.args[0]) or "").endswith(".problem.parameters"):
                        resample = i
                    else:
                        resample = resample if resample is not None else -1
                st = jm.state_written(e)
                if st:
                    state_ev.append(st)
            msg = None
            if stale_here and resample is not None:
                msg = ("the failed copy is built from `%s`, bound to %s.vector before the attempt loop: after the first re-sample it is stale, so from the second "
                       "failure on the failed list records the initial vector, not the vector that failed" % (stale_use.id if stale_use is not None else "?", ind))
            elif alias_append is not None and appended is None:
                msg = "the failing design object itself is appended to the failed list; its vector is then overwritten by the re-sample, so the failed vector is lost"
            elif appended is None:
                msg = "no copy of the failing vector is appended to problem.failed"
            elif resample is None:
                msg = "the design is not re-sampled before the retry"
            elif resample == -1:
                msg = "the vector is rewritten by something other than gen_vector(problem.parameters)"
            elif new_fail[0] > resample:
                msg = "the failed copy is taken after the vector was re-sampled: the failed list records the replacement, not the failing vector"
            elif state_ev and state_ev[-1] == "EVALUATED" or "EVALUATED" in state_ev:
                msg = "a failed attempt marks the design EVALUATED"
            if msg and ok_r2:
                ctx.violated("R2", C, jm.where(h), msg + " (handler path [%s])" % p.describe(5), key="handler-effects")
                ok_r2 = False
    if ok_r2 and retry_handlers:
        ctx.holds("R2", C, jm.where(retry_handlers[0][0]), "on every retry-handler path: failed copy of the failing vector appended, then vector re-sampled from gen_vector(problem.parameters), state non-EVALUATED, continue", key="handler-effects")
    elif not retry_handlers:
        ctx.violated("R2", C, jm.where(obj_try), "no handler retries (ends every path with `continue`): transient failures are not retried", key="handler-effects")

    # accounting over whole paths: when evaluate() is left (return or raise), every transient failure of this call has
    # its copy in problem.failed - directly, or through a local list that was published with extend()
    retry_nodes = {id(h) for h, _ in retry_handlers}
    bad_acc = None
    n_acc = 0
    for p in jm.paths:
        fails = sum(1 for e in p.events if e.kind == "catch" and id(e.node) in retry_nodes)
        if fails == 0:
            continue
        n_acc += 1
        pending = {}
        published = 0
        flushed = {}
        for e in p.events:
            if e.kind not in ("stmt", "return"):
                continue
            for c in calls_in(e.node):
                pth = access_path(c.func) or ""
                if pth.endswith(".problem.failed.append") and c.args:
                    published += 1
                elif pth.endswith(".append") and pth[:-7] in local_lists and c.args:
                    pending[pth[:-7]] = pending.get(pth[:-7], 0) + 1
                elif pth.endswith(".problem.failed.extend") and c.args and access_path(c.args[0]) in local_lists:
                    L = access_path(c.args[0])
                    published += pending.get(L, 0) - flushed.get(L, 0) if flushed.get(L, 0) <= pending.get(L, 0) else 0
                    if flushed.get(L, 0):
                        published += flushed[L]          # the same entries are published again (duplicates)
                    flushed[L] = pending.get(L, 0)
                elif (pth.endswith(".problem.failed.extend") or pth.endswith(".problem.failed.clear") or pth.endswith(".problem.failed.pop")
                      or pth.endswith(".problem.failed.remove")):
                    published = None
                    break
            if published is None:
                break
        if published is None:
            continue
        if published != fails:
            bad_acc = bad_acc or (p, fails, published)
    if bad_acc:
        ctx.violated("R2", C, jm.where(obj_try), "on the path [%s] the objective failed transiently %d time(s) but %d failed design(s) are in problem.failed when evaluate() is left: "
                     "a failed design vector is lost (or recorded twice)" % (bad_acc[0].describe(8), bad_acc[1], bad_acc[2]), key="failed-accounting")
    elif n_acc:
        ctx.holds("R2", C, jm.where(obj_try), "on all %d paths with transient failures every failure has exactly one entry in problem.failed when evaluate() is left" % n_acc, key="failed-accounting")

    # ---------------------------------------------------------------- R3
    ok_r3 = True
    for h, hp, ends in other_handlers:
        for p in hp:
            reraises = p.outcome == "raise" and (p.node is not None and isinstance(p.node, ast.Raise) and
                                                 (p.node.exc is None or (h.name and access_path(p.node.exc) == h.name)))
            if not reraises and ok_r3 and p.outcome == "fall" and set(handler_type_names(h)) <= want and None not in handler_type_names(h):
                # a transient-failure handler that runs on into the rest of the loop body: neither a plain retry nor a swallow
                ctx.inconclusive("R3", C, jm.where(h), "handler `except %s` falls through into the rest of the attempt loop body" % text(h.type), key="reraise")
                ok_r3 = False
            elif not reraises and ok_r3:
                ctx.violated("R3", C, jm.where(h), "handler `except %s` does not re-raise on the path [%s]: a non-transient exception is swallowed%s"
                             % (text(h.type) if h.type else "", p.describe(5), " and the attempt loop goes on" if p.outcome == "fall" else ""), key="reraise")
                ok_r3 = False
    if obj_try.finalbody:
        fp = body_paths(obj_try.finalbody, fn.args, "finally")
        if any(p.outcome in ("return",) or (p.events and p.events[-1].kind in ("break", "continue")) for p in fp):
            ctx.violated("R3", C, jm.where(obj_try), "the finally clause returns/continues and thereby discards a propagating exception", key="reraise")
            ok_r3 = False
    if ok_r3:
        ctx.holds("R3", C, jm.where(obj_try), "%d non-retry handler(s) re-raise on every path; exceptions without a handler propagate" % len(other_handlers), key="reraise")

    # ---------------------------------------------------------------- R4
    bad4 = None
    for p in jm.paths:
        last_obj = None
        for i, e in enumerate(p.events):
            if e.kind in ("iter", "catch"):
                last_obj = None
            if jm.is_obj(e):
                last_obj = i
            if jm.state_written(e) == "EVALUATED" and last_obj is None:
                bad4 = bad4 or (p, e, "the design is marked EVALUATED before the objective call of this attempt has completed")
        if p.outcome == "return":
            objs = [i for i, e in enumerate(p.events) if jm.is_obj(e)]
            if objs and not any(e.kind == "catch" for e in p.events[objs[-1]:]):
                for e in p.events[objs[-1] + 1:]:
                    if jm.is_vector_write(e):
                        bad4 = bad4 or (p, e, "the stored vector is rewritten after the successful objective call: stored costs no longer belong to the stored vector")
            if objs and any(e.kind == "catch" for e in p.events[objs[-1]:]):
                bad4 = bad4 or (p, p.events[-1], "the function returns normally after a failed attempt without a result")
    if bad4:
        ctx.violated("R4", C, jm.where(bad4[1].node), bad4[2] + " (path [%s])" % bad4[0].describe(8), key="evaluated-after-call")
    else:
        ctx.holds("R4", C, jm.where(), "EVALUATED only after the attempt's objective call; vector untouched between the successful call and the return (%d paths)" % len(jm.paths), key="evaluated-after-call")
    ctx.sample({"handlers": [{"types": handler_type_names(h), "kind": "retry"} for h, _ in retry_handlers] +
                            [{"types": handler_type_names(h), "kind": "other", "ends": sorted(ends)} for h, _, ends in other_handlers]})
