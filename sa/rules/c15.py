"""C15 - single-objective benchmarks: total on their box, optimum where and as documented.

Everything is decided by abstract interpretation of `evaluate` in the
outward-rounded interval domain with affine forms for linear sub-expressions
(D-IVL); the configuration (box, documented optimum, coordinates, criteria)
is folded from the literals of `set()`.

R1  float-method rule: values derived from coordinates are used only through
    operators and module functions, never through methods plain floats lack.
R2  every return is a one-element list and set() declares one cost.
R3  totality: no possible domain error on the declared box (the box and every
    sub-box visited by R5).
R4  the enclosure of evaluate on the degenerate box {x*} lies within 1e-3 of
    the documented value, for the dimensions the constructor accepts among
    {1,2,3,5,10}.
R5  branch-and-bound (natural extension, centred form with an interval gradient,
    monotonicity test) proves f >= f* - 1e-3 (<= for maximised) on the box at
    n=2 (quick; n in {1,2,3,5} thorough): a sub-box whose whole enclosure beats
    the optimum by more than the tolerance is a definite violation (reported
    with its coordinates), and so is the centre of a visited box whose value
    beats it (a point of the declared box); boxes undecided within the budget
    are counted and do not alarm.  A constructor that documents a separate
    optimal value per accepted dimension (Michalewicz: 2, 5, 10) makes one claim
    per dimension, and the quick tier decides each of them up to n=5.
"""
import ast
import heapq
import math
import os
import time
from concurrent.futures import ProcessPoolExecutor

from ..astutil import text, access_path, func_params, stmts_of, calls_in
from ..ivl import I, DomainError
from ..ivlinterp import Interp, Obj, Ret, Unsupported, as_iv, join, Aff, D, module_env
from ..loader import where, AnalysisError, Repo

TOL = 1e-3
DIMS = (1, 2, 3, 5, 10)


# ------------------------------------------------------------------ configuration folding
class CfgInterp(Interp):
    def __init__(self, selfo, kwargs):
        super().__init__({})
        self.selfo, self.kwargs = selfo, kwargs
        self.concrete_lib = True

    def e_Call(self, n, env):
        nm = access_path(n.func) or ""
        if nm.endswith(".set_dimension"):
            if "dimension" in self.kwargs:
                self.selfo.attrs["dimension"] = self.kwargs["dimension"]
            return None
        if nm.endswith(".set_init_values"):
            return None
        if nm.endswith(".generate_paramlist"):
            args = [self.ev(a, env) for a in n.args]
            kw = {k.arg: self.ev(k.value, env) for k in n.keywords if k.arg}
            dim = args[0]
            lb = kw.get("lb", args[1] if len(args) > 1 else None)
            ub = kw.get("ub", args[2] if len(args) > 2 else None)
            return [{"name": str(i), "bounds": [lb, ub]} for i in range(int(dim))]
        if nm.endswith(".generate_objective_functions"):
            return [{"name": "f_1", "criteria": "minimize"}]
        return super().e_Call(n, env)

    def stmt(self, s, env):
        if isinstance(s, ast.Raise):
            raise DomainError("constructor rejects this configuration: %s" % text(s))
        return super().stmt(s, env)


def fold_config(cls, n):
    """concrete values assigned by set(): parameters, global_optimum, global_optimum_coords, costs, dimension"""
    fn = cls.methods.get("set")
    if fn is None:
        return None
    selfo = Obj()
    kwargs = {"dimension": n} if n is not None else {}
    it = CfgInterp(selfo, kwargs)
    env = {func_params(fn)[0]: selfo}
    if fn.args.kwarg:
        env[fn.args.kwarg.arg] = dict(kwargs)
    try:
        it.block(fn.body, env)
    except Ret:
        pass
    return selfo.attrs


def accepts_dimension(cls):
    fn = cls.methods.get("set")
    return fn is not None and any((access_path(c.func) or "").endswith(".set_dimension") for c in calls_in(fn)) \
        and not any(isinstance(s, ast.Assign) and any(access_path(t) == "self.dimension" for t in s.targets) for s in stmts_of(fn))


# ------------------------------------------------------------------ abstract evaluation
ALL_CLASSES = {}      # class name -> ClassInfo of the analysed tree (filled by run / bnb)


class EvalInterp(Interp):
    def __init__(self, cls, selfo, funcs):
        super().__init__(funcs)
        self.cls, self.selfo = cls, selfo

    def e_Attribute(self, n, env):
        # self.TABLE: a class-level literal of the analysed class (or of a base class in the same module)
        if isinstance(n.value, ast.Name) and env.get(n.value.id) is self.selfo and n.attr not in getattr(self.selfo, "attrs", {}):
            from ..loader import ClassInfo  # noqa: F401
            todo, seen = [self.cls], set()
            while todo:
                k = todo.pop(0)
                if id(k) in seen:
                    continue
                seen.add(id(k))
                if n.attr in k.class_attrs:
                    v = k.class_attrs[n.attr]
                    if not any(isinstance(x, (ast.Call, ast.Lambda, ast.Name)) for x in ast.walk(v)):
                        return self.ev(v, {})
                    break
                for b in k.bases:
                    if b in k.module.classes:
                        todo.append(k.module.classes[b])
                    elif b in ALL_CLASSES:
                        todo.append(ALL_CLASSES[b])
        return super().e_Attribute(n, env)

    def _method(self, name):
        if name in self.cls.methods:
            return self.cls.methods[name]
        # a method inherited from a base class of the package (the common benchmark base included)
        todo, seen = [self.cls], set()
        while todo:
            k = todo.pop(0)
            if id(k) in seen:
                continue
            seen.add(id(k))
            if name in k.methods and name not in ("evaluate", "set", "__init__"):
                return k.methods[name]
            for b in k.bases:
                bk = k.module.classes.get(b) or ALL_CLASSES.get(b)
                if bk is not None:
                    todo.append(bk)
        return None

    def e_Call(self, n, env):
        if isinstance(n.func, ast.Attribute) and isinstance(n.func.value, ast.Name) and env.get(n.func.value.id) is self.selfo \
                and self._method(n.func.attr) is not None:
            args = [self.ev(a, env) for a in n.args]
            meth = self._method(n.func.attr)
            static = any(isinstance(d, ast.Name) and d.id == "staticmethod" for d in meth.decorator_list)
            return self.call_function(meth, args, {}, self_obj=None if static else self.selfo)
        return super().e_Call(n, env)


def abstract_eval(cls, cfg, funcs, box, affine=True, dual=False):
    """-> (interval of the single cost, interp) ; raises DomainError / Unsupported"""
    fn = cls.methods["evaluate"]
    selfo = Obj(**cfg)
    it = EvalInterp(cls, selfo, funcs)
    boxd = dict(enumerate(box))
    if dual:
        vec = [D.var(i, len(box), box[i]) for i in range(len(box))]
    else:
        vec = [Aff.var(i, boxd) if (affine and not box[i].is_point()) else box[i] for i in range(len(box))]
    env = {func_params(fn)[0]: selfo, func_params(fn)[1]: Obj(vector=vec)}
    val = None
    try:
        it.block(fn.body, env)
    except Ret as r:
        val = r.value
    for pv in env.get("__pending_returns__", []):
        val = join(val, pv)
    return val, it


def cost_interval(val):
    if not isinstance(val, (list, tuple)) or len(val) != 1:
        raise Unsupported("evaluate returns %r, not a one-element list" % (val,))
    return as_iv(val[0])


# ------------------------------------------------------------------ branch and bound (runs in worker processes)
def bnb(task):
    """task = (module, class name, n, sense, fstar, max_boxes, max_seconds, repo_root) -> result dict"""
    modname, cname, n, sense, fstar, max_boxes, max_seconds, root = task[:8]
    sub = task[8] if len(task) > 8 else None
    os.environ["VERIF_REPO"] = root
    repo = Repo(root)
    ALL_CLASSES.clear()
    ALL_CLASSES.update(repo.classes)
    benchmark_classes(repo)          # merges inherited evaluate()/set() into the class tables, as in the parent process
    cls = repo.cls(cname, modname)
    cfg = fold_config(cls, n if accepts_dimension(cls) else None)
    funcs = module_env(cls.module)
    box0 = [I(float(p["bounds"][0]), float(p["bounds"][1])) for p in cfg["parameters"]]
    widths0 = [max(b.width, 1e-300) for b in box0]
    if sub is not None:
        box0 = [I(a, b) for a, b in sub]
    thr = fstar - TOL if sense > 0 else fstar + TOL      # violation if f < thr (min) / f > thr (max)
    t0 = time.time()
    res = {"class": cname, "n": n, "boxes": 0, "proved": 0, "undecided": 0, "violation": None, "domain_error": None, "unsupported": None,
           "min_lower_bound": None, "notes": []}
    heap = []
    cnt = 0
    use_gradient = True

    def natural(box):
        val, it = abstract_eval(cls, cfg, funcs, box)
        return cost_interval(val)

    def decided(iv):
        if sense > 0:
            return iv.lo >= thr or iv.hi < thr
        return iv.hi <= thr or iv.lo > thr

    def enclose(box):
        """natural extension; if that does not decide the box, the centred (mean-value) form with an interval
        gradient, and the monotonicity test (a coordinate in which f is strictly monotone on the box is moved
        to the face where the optimum of f over the box lies: the bound over the face bounds the box)"""
        iv = natural(box)
        if decided(iv) or not use_gradient:
            return iv, box
        try:
            val, it = abstract_eval(cls, cfg, funcs, box, dual=True)
        except (Unsupported, DomainError):
            return iv, box
        d = val[0] if isinstance(val, (list, tuple)) and len(val) == 1 else None
        if not isinstance(d, D):
            return iv, box
        # monotonicity
        nb = list(box)
        moved = False
        for i, gi in enumerate(d.g):
            if box[i].is_point():
                continue
            if gi.lo > 0:
                nb[i] = I(box[i].lo) if sense > 0 else I(box[i].hi)
                moved = True
            elif gi.hi < 0:
                nb[i] = I(box[i].hi) if sense > 0 else I(box[i].lo)
                moved = True
        if moved:
            res["notes"].append("monotone") if len(res["notes"]) < 1 else None
            iv2, nb2 = enclose(nb)
            return iv2, nb2
        # centred form
        c = [I(b.mid) for b in box]
        try:
            fc = natural(c)
        except (Unsupported, DomainError):
            return iv, box
        centre[0] = (c, fc)
        mv = fc
        for i, gi in enumerate(d.g):
            mv = mv + gi * (box[i] - c[i])
        lo, hi = max(iv.lo, mv.lo), min(iv.hi, mv.hi)
        if lo <= hi:
            iv = I(lo, hi)
        return iv, box

    centre = [None]

    def push(box):
        nonlocal cnt
        try:
            centre[0] = None
            iv, box = enclose(box)
            if centre[0] is not None and res["violation"] is None:
                # the value at the centre of the box (a point of the declared box) is an upper bound of the minimum: a centre
                # that beats the documented optimum by more than the tolerance is a witness, long before the box itself is small
                c, fc = centre[0]
                if (sense > 0 and fc.hi < thr) or (sense < 0 and fc.lo > thr):
                    res["violation"] = {"box": [[b.lo, b.hi] for b in c], "enclosure": [fc.lo, fc.hi], "threshold": thr}
        except DomainError as e:
            w = max(b.width / w0 for b, w0 in zip(box, widths0))
            if w < 1e-6:
                res["domain_error"] = res["domain_error"] or {"box": [[b.lo, b.hi] for b in box], "error": str(e)}
                return
            heapq.heappush(heap, (-math.inf, cnt, box, None))
            cnt += 1
            return
        key = iv.lo if sense > 0 else -iv.hi
        heapq.heappush(heap, (key, cnt, box, iv))
        cnt += 1
    # the corners of the box first: points exactly ON the bounds are where a guard written with the wrong strictness, or a
    # formula that degenerates at 0, shows - and no interior sub-box ever contains only such points
    if len(box0) <= 5:
        import itertools as _it
        for corner in _it.product(*[(b.lo, b.hi) if not b.is_point() else (b.lo,) for b in box0]):
            try:
                fc = natural([I(c_) for c_ in corner])
            except (DomainError, Unsupported):
                continue
            if (sense > 0 and fc.hi < thr) or (sense < 0 and fc.lo > thr):
                res["violation"] = {"box": [[c_, c_] for c_ in corner], "enclosure": [fc.lo, fc.hi], "threshold": thr}
                break
    try:
        if res["violation"] is None:
            push(box0)
        worst = None
        while heap:
            if res["boxes"] >= max_boxes or time.time() - t0 > max_seconds or res["violation"] is not None:
                break
            key, _, box, iv = heapq.heappop(heap)
            res["boxes"] += 1
            if iv is not None:
                if sense > 0:
                    if iv.lo >= thr:
                        res["proved"] += 1
                        worst = iv.lo if worst is None else min(worst, iv.lo)
                        continue
                    if iv.hi < thr:
                        res["violation"] = {"box": [[b.lo, b.hi] for b in box], "enclosure": [iv.lo, iv.hi], "threshold": thr}
                        break
                else:
                    if iv.hi <= thr:
                        res["proved"] += 1
                        worst = -iv.hi if worst is None else min(worst, -iv.hi)
                        continue
                    if iv.lo > thr:
                        res["violation"] = {"box": [[b.lo, b.hi] for b in box], "enclosure": [iv.lo, iv.hi], "threshold": thr}
                        break
            # split the relatively widest coordinate
            k = max(range(len(box)), key=lambda i: box[i].width / widths0[i])
            if box[k].width <= 1e-12 * widths0[k]:
                res["undecided"] += 1
                continue
            a, b = box[k].split()
            for half in (a, b):
                nb = list(box)
                nb[k] = half
                push(nb)
        res["undecided"] += len(heap)
        res["min_lower_bound"] = worst
    except Unsupported as e:
        res["unsupported"] = str(e)
    res["seconds"] = round(time.time() - t0, 2)
    return res


# ------------------------------------------------------------------ the check
def benchmark_classes(repo):
    out = []
    for modname in ("benchmark_functions", "benchmark_robust"):
        m = repo.module(modname)
        for c in m.classes.values():
            if c.name == "BenchmarkFunction":
                continue
            if repo.cls("BenchmarkFunction", "benchmark_functions") not in repo.mro(c):
                continue
            if "set" not in c.methods and "evaluate" not in c.methods:
                continue
            # a concrete benchmark may inherit evaluate() (or set()) from an intermediate base of the benchmark modules
            full = {}
            for k in reversed(repo.mro(c)):
                if k.name != "BenchmarkFunction" and k.module.name in ("benchmark_functions", "benchmark_robust"):
                    full.update(k.methods)
            if "evaluate" not in full or "set" not in full or "set" not in c.methods:
                continue
            c.methods = full
            out.append((modname, c))
    return out


def r7_integer_powers(ctx, repo, classes):
    """numpy integer arrays have 64 bits: IntArr ** IntArr with base and exponent both growing with the dimension wraps
    around silently (16 ** 16 = 2**64 = 0 in int64), and a reciprocal of the result is inf.  Python ints and floats do not:
    the same formula written with a loop over range() or with a float base is fine."""
    n_pow = 0
    for modname, cls in classes:
        fn = cls.methods.get("evaluate")
        if fn is None:
            continue
        kinds = {}      # local -> "intarr" when it is np.arange(..ints..) possibly shifted/indexed, with a bound that depends on the dimension

        def dim_dep(e):
            t = text(e)
            return ".dimension" in t or ".size" in t or "len(" in t or ".shape" in t

        def kind(e):
            if isinstance(e, ast.Name):
                return kinds.get(e.id)
            if isinstance(e, ast.Call) and (access_path(e.func) or "") in ("np.arange", "numpy.arange") and not e.keywords and e.args \
                    and not any(isinstance(c, ast.Constant) and isinstance(c.value, float) for a in e.args for c in ast.walk(a)):
                return "intarr" if any(dim_dep(a) for a in e.args) else None
            if isinstance(e, ast.Subscript):
                return kind(e.value)
            if isinstance(e, ast.BinOp) and isinstance(e.op, (ast.Add, ast.Sub, ast.Mult)):
                l, r = kind(e.left), kind(e.right)
                other = e.right if l else e.left
                if (l or r) and not any(isinstance(c, ast.Constant) and isinstance(c.value, float) for c in ast.walk(other)) and \
                        (kind(other) or isinstance(other, ast.Constant) or (isinstance(other, ast.Name) and other.id in int_locals)):
                    return "intarr"
            return None
        int_locals = {s_.targets[0].id for s_ in ast.walk(fn) if isinstance(s_, ast.Assign) and len(s_.targets) == 1 and isinstance(s_.targets[0], ast.Name)
                      and isinstance(s_.value, ast.Constant) and isinstance(s_.value.value, int)}
        for s_ in stmts_of(fn):
            if isinstance(s_, ast.Assign) and len(s_.targets) == 1 and isinstance(s_.targets[0], ast.Name):
                k_ = kind(s_.value)
                if k_:
                    kinds[s_.targets[0].id] = k_
        for pw in [n_ for n_ in ast.walk(fn) if isinstance(n_, ast.BinOp) and isinstance(n_.op, ast.Pow)]:
            n_pow += 1
            if kind(pw.left) == "intarr" and kind(pw.right) == "intarr":
                ctx.violated("R7", "%s.evaluate" % cls.name, where(cls.module, pw), "%s raises one 64-bit integer array to another, and both grow with the dimension: the power wraps around without "
                             "a warning once it reaches 2**63 (for dimension 16: 16 ** 16 = 2**64 -> 0), and what is computed from it (a reciprocal: inf) makes the cost non-finite at "
                             "every point of the box, the documented optimum included" % text(pw), key="int-power:" + cls.name)
                return
    ctx.holds("R7", "benchmark evaluate() methods", "", "no power of one dimension-sized integer array by another (%d power expressions looked at)" % n_pow)


def r6_instance_state(ctx, repo, classes):
    """what one benchmark object computes must not depend on how many other objects exist: a mutable attribute that
    lives on the CLASS (class body, or `cls.x = []` in __init_subclass__ / a classmethod) and is filled through `self`
    in set() / __init__ / their helpers accumulates over all instances"""
    MUT = ("append", "extend", "insert", "add", "update", "setdefault", "__setitem__")
    for modname, cls in classes:
        mod = cls.module
        shared = {}
        for k in repo.mro(cls):
            for a, v in k.class_attrs.items():
                if isinstance(v, (ast.List, ast.Dict, ast.Set)) or (isinstance(v, ast.Call) and access_path(v.func) in ("list", "dict", "set", "defaultdict", "collections.defaultdict")):
                    shared.setdefault(a, (k, v))
            for mn, fn in k.methods.items():
                ps = func_params(fn)
                is_cls = mn == "__init_subclass__" or any(isinstance(d, ast.Name) and d.id == "classmethod" for d in fn.decorator_list)
                if is_cls and ps:
                    for s_ in stmts_of(fn):
                        if isinstance(s_, ast.Assign):
                            for t in s_.targets:
                                if isinstance(t, ast.Attribute) and isinstance(t.value, ast.Name) and t.value.id == ps[0] \
                                        and (isinstance(s_.value, (ast.List, ast.Dict, ast.Set)) or (isinstance(s_.value, ast.Call) and access_path(s_.value.func) in ("list", "dict", "set"))):
                                    shared.setdefault(t.attr, (k, s_))
        if not shared:
            continue
        own = set()        # attributes the instance rebinds for itself
        muts = []
        for mn, fn in cls.methods.items():
            ps = func_params(fn)
            if not ps or any(isinstance(d, ast.Name) and d.id in ("classmethod", "staticmethod") for d in fn.decorator_list) or mn == "__init_subclass__":
                continue
            for s_ in stmts_of(fn):
                if isinstance(s_, ast.Assign):
                    for t in s_.targets:
                        if isinstance(t, ast.Attribute) and isinstance(t.value, ast.Name) and t.value.id == ps[0]:
                            own.add(t.attr)
                        if isinstance(t, ast.Subscript) and isinstance(t.value, ast.Attribute) and isinstance(t.value.value, ast.Name) and t.value.value.id == ps[0]:
                            muts.append((t.value.attr, fn, s_))
                for c_ in calls_in(s_) if not isinstance(s_, (ast.For, ast.While, ast.If, ast.Try, ast.With)) else []:
                    if isinstance(c_.func, ast.Attribute) and c_.func.attr in MUT and isinstance(c_.func.value, ast.Attribute) \
                            and isinstance(c_.func.value.value, ast.Name) and c_.func.value.value.id == ps[0]:
                        muts.append((c_.func.value.attr, fn, s_))
        for a, fn, s_ in muts:
            if a in shared and a not in own:
                k, v = shared[a]
                ctx.violated("R6", "%s.%s" % (cls.name, fn.name), where(mod, s_),
                             "self.%s is a mutable attribute of the class %s (%s) and is filled through the instance (%s): every further %s object adds to the same "
                             "object, so the function value depends on how many instances were created" % (a, k.name, text(v).strip()[:50], text(s_).strip()[:60], cls.name),
                             key="shared-class-state:%s" % a)
                break


def run(ctx):
    for rid, doc in (("R1", "no float-incompatible methods on coordinate-derived values"), ("R2", "one-element return, one declared cost"),
                     ("R3", "no possible domain error on the box"), ("R4", "value at the documented optimum within 1e-3"),
                     ("R5", "interval branch-and-bound: no point better than the documented optimum by more than 1e-3")):
        ctx.rule(rid, doc)
    ctx.assume("floating-point evaluation is enclosed by outward-rounded intervals (libm within a few ulps); tolerance 1e-3 absolute")
    ctx.assume("R5 is decided at n=2 (quick; plus every dimension up to 5 with its own documented value) / n in {1,2,3,5} (thorough) for dimension-generic functions and at the fixed dimension otherwise; higher dimensions are not decided")
    repo = ctx.repo
    thorough = ctx.tier == "thorough"
    ALL_CLASSES.clear()
    ALL_CLASSES.update(repo.classes)
    classes = benchmark_classes(repo)
    ctx.count("benchmark_classes", len(classes))
    # the interpreter runs every helper the evaluate() methods call (or gives up with "outside the fragment"): a verdict is
    # never taken behind a helper's back
    for mname_ in ("benchmark_functions", "benchmark_robust"):
        m_ = repo.module(mname_)
        ctx.examined.update(m_.functions)
        for k_ in m_.classes.values():
            ctx.examined.update(k_.methods)
    if os.environ.get("VERIF_C15_ONLY"):          # development aid: analyse the named classes only (never set by a registered command)
        only = set(os.environ["VERIF_C15_ONLY"].split(","))
        classes = [mc for mc in classes if mc[1].name in only] + [mc for mc in classes if mc[1].name not in only][:0]
        ctx.extra["coverage_waived"] = ctx.extra.get("coverage_waived", []) + ["R1", "R2", "R3", "R4", "R5", "R6"]
    if len(classes) < 20 and not os.environ.get("VERIF_C15_ONLY"):
        raise AnalysisError("expected at least 20 single-objective benchmark classes, found %d" % len(classes))
    ctx.rule("R6", "no benchmark keeps per-instance configuration in mutable class-level state")
    r6_instance_state(ctx, repo, classes)
    ctx.rule("R7", "no fixed-width integer power whose base and exponent both grow with the dimension")
    r7_integer_powers(ctx, repo, classes)
    tasks = []
    for modname, cls in classes:
        mod = cls.module
        C = "%s.evaluate" % cls.name
        generic = accepts_dimension(cls)
        dims = list(DIMS) if generic else [None]
        cfgs = {}
        for n in dims:
            try:
                cfg = fold_config(cls, n)
                if cfg and "parameters" in cfg and "costs" in cfg:
                    cfgs[n] = cfg
            except DomainError:
                continue          # the constructor rejects this dimension (e.g. Michalewicz)
            except Unsupported as e:
                ctx.inconclusive("R2", C, where(mod, cls.methods["set"]), "configuration not foldable for n=%s: %s" % (n, e), key="config-n%s" % n)
        if not cfgs:
            ctx.inconclusive("R2", C, where(mod, cls.node), "no foldable configuration", key="config")
            continue
        funcs = module_env(mod)
        any_cfg = next(iter(cfgs.values()))
        if len(any_cfg["costs"]) != 1:
            continue          # not a single-objective benchmark
        criteria = any_cfg["costs"][0].get("criteria", "minimize")
        sense = 1 if criteria == "minimize" else -1
        # ---- R1/R2/R3 on the root box, R4 at the optimum
        r1_done = False
        for n, cfg in cfgs.items():
            box = [I(float(p["bounds"][0]), float(p["bounds"][1])) for p in cfg["parameters"]]
            tag = "n=%s" % (n if n is not None else len(box))
            try:
                val, it = abstract_eval(cls, cfg, funcs, box)
                if it.float_methods and not r1_done:
                    node, meth = it.float_methods[0]
                    ctx.violated("R1", C, where(mod, node), "the coordinate-derived value %s is used through the method .%s(): plain Python floats have no such method, so evaluate() raises for Python-float coordinates" % (text(node.func.value), meth), key="float-method:" + meth)
                    r1_done = True
                iv = cost_interval(val)
                ctx.holds("R2", C, where(mod, cls.methods["evaluate"]), "%s: one finite cost, enclosure on the whole box %r" % (tag, iv), key="one-cost:" + tag)
                if math.isinf(iv.lo) or math.isinf(iv.hi) or iv.lo != iv.lo:
                    ctx.inconclusive("R3", C, where(mod, cls.methods["evaluate"]), "%s: enclosure on the box is unbounded" % tag, key="total:" + tag)
            except DomainError as e:
                # refine: only report if it persists on small boxes - done by R5's search; here note it
                ctx.extra.setdefault("root_domain_errors", {})["%s %s" % (cls.name, tag)] = str(e)
            except Unsupported as e:
                if "one-element" in str(e):
                    ctx.violated("R2", C, where(mod, cls.methods["evaluate"]), "%s: %s" % (tag, e), key="one-cost:" + tag)
                else:
                    ctx.inconclusive("R2", C, where(mod, cls.methods["evaluate"]), "%s: outside the analysable fragment: %s" % (tag, e), key="one-cost:" + tag)
                continue
            # R4
            fstar = cfg.get("global_optimum")
            xs = cfg.get("global_optimum_coords")
            if fstar is None or xs is None or not isinstance(fstar, (int, float)):
                continue
            if len(xs) != len(box):
                ctx.violated("R4", C, where(mod, cls.methods["set"]), "%s: the documented optimum has %d coordinates for %d parameters" % (tag, len(xs), len(box)), key="optimum-value:" + tag)
                continue
            try:
                val, it = abstract_eval(cls, cfg, funcs, [I(float(x)) for x in xs], affine=False)
                iv = cost_interval(val)
                if iv.lo >= fstar - TOL and iv.hi <= fstar + TOL:
                    ctx.holds("R4", C, where(mod, cls.methods["set"]), "%s: f(x*) in %r, documented %r" % (tag, iv, fstar), key="optimum-value:" + tag)
                elif iv.hi < fstar - TOL or iv.lo > fstar + TOL:
                    ctx.violated("R4", C, where(mod, cls.methods["set"]), "%s: at the documented optimal coordinates the value lies in %r, the documented optimum is %r" % (tag, iv, fstar),
                                 key="optimum-value:" + tag, facts={"coords": [float(x) for x in xs], "enclosure": [iv.lo, iv.hi], "documented": fstar})
                else:
                    ctx.inconclusive("R4", C, where(mod, cls.methods["set"]), "%s: enclosure %r too wide against %r" % (tag, iv, fstar), key="optimum-value:" + tag)
                if not all(p["bounds"][0] <= x <= p["bounds"][1] for p, x in zip(cfg["parameters"], xs)):
                    ctx.violated("R4", C, where(mod, cls.methods["set"]), "%s: the documented optimum lies outside the declared box" % tag, key="optimum-in-box:" + tag)
            except DomainError as e:
                ctx.violated("R3", C, where(mod, cls.methods["evaluate"]), "%s: possible domain error at the documented optimum: %s" % (tag, e), key="total-at-optimum:" + tag)
            except Unsupported as e:
                ctx.inconclusive("R4", C, where(mod, cls.methods["evaluate"]), "%s: %s" % (tag, e), key="optimum-value:" + tag)
        # ---- R5 tasks
        if generic:
            bdims = [d for d in ((1, 2, 3, 5) if thorough else (2,)) if d in cfgs]
            if not bdims:
                bdims = [min(cfgs)]
            # a constructor that documents a separate optimal VALUE for each dimension it accepts makes one claim per
            # dimension: the quick tier looks at each of them up to n=5 with a small budget (a box wholly better than the
            # documented value is found best-first long before a proof would complete; an unfinished proof does not alarm)
            opt = {d: cfgs[d].get("global_optimum") for d in cfgs}
            if not thorough and len({repr(v) for v in opt.values()}) > 1:
                bdims += [d for d in sorted(cfgs) if d is not None and d <= 5 and d not in bdims and isinstance(opt[d], (int, float))]
        else:
            bdims = [None]
        for n in bdims:
            cfg = cfgs[n]
            fstar = cfg.get("global_optimum")
            if not isinstance(fstar, (int, float)):
                continue
            nn = n if n is not None else len(cfg["parameters"])
            if nn > 3 and not thorough:
                budget = (1500, 8.0 if n is not None and len(bdims) > 1 and n != bdims[0] else 3.0)
            else:
                budget = (40000, 120.0) if thorough else (6000, 5.0)
            if thorough or (nn > 3 and n not in (None, 2) and len(bdims) > 1 and n != bdims[0]):
                # split the root box into 16 parts so that one function uses all cores
                parts = [[(float(p["bounds"][0]), float(p["bounds"][1])) for p in cfg["parameters"]]]
                w0 = [b - a for a, b in parts[0]]
                for _ in range(4):
                    nxt = []
                    for bx in parts:
                        k = max(range(len(bx)), key=lambda i: (bx[i][1] - bx[i][0]) / max(w0[i], 1e-300))
                        a, b = bx[k]
                        mid = 0.5 * (a + b)
                        for half in ((a, mid), (mid, b)):
                            nb = list(bx)
                            nb[k] = half
                            nxt.append(nb)
                    parts = nxt
                for bx in parts:
                    tasks.append((modname, cls.name, n, sense, float(fstar), budget[0], budget[1], repo.root, bx))
            else:
                tasks.append((modname, cls.name, n, sense, float(fstar), budget[0], budget[1], repo.root))
    # ---- run the branch-and-bound tasks in parallel
    results = []
    with ProcessPoolExecutor(max_workers=min(16, max(1, len(tasks)))) as ex:
        for r in ex.map(bnb, tasks):
            results.append(r)
    # aggregate the parts of one function
    agg = {}
    order = []
    for task, r in zip(tasks, results):
        k = (task[0], task[1], task[2])
        if k not in agg:
            agg[k] = (task, dict(r))
            order.append(k)
        else:
            a = agg[k][1]
            for f in ("boxes", "proved", "undecided"):
                a[f] += r[f]
            a["seconds"] = max(a["seconds"], r["seconds"])
            for f in ("violation", "domain_error", "unsupported"):
                a[f] = a[f] or r[f]
            if r["min_lower_bound"] is not None:
                a["min_lower_bound"] = r["min_lower_bound"] if a["min_lower_bound"] is None else min(a["min_lower_bound"], r["min_lower_bound"])
    summary = []
    for k in order:
        task, r = agg[k]
        modname, cname, n, sense, fstar = task[:5]
        cls = repo.cls(cname, modname)
        mod = cls.module
        C = "%s.evaluate" % cname
        tag = "n=%s" % (n if n is not None else "fixed")
        summary.append({k: r[k] for k in ("class", "n", "boxes", "proved", "undecided", "seconds", "min_lower_bound")})
        if r["unsupported"]:
            ctx.inconclusive("R5", C, where(mod, cls.methods["evaluate"]), "%s: %s" % (tag, r["unsupported"]), key="bound:" + tag)
            continue
        if r["domain_error"]:
            ctx.violated("R3", C, where(mod, cls.methods["evaluate"]), "%s: possible domain error inside the box at %s: %s" % (tag, r["domain_error"]["box"], r["domain_error"]["error"]), key="total:" + tag,
                         facts=r["domain_error"])
        else:
            ctx.holds("R3", C, where(mod, cls.methods["evaluate"]), "%s: no possible domain error on the root box and %d visited sub-boxes" % (tag, r["boxes"]), key="total:" + tag)
        if r["violation"]:
            v = r["violation"]
            ctx.violated("R5", C, where(mod, cls.methods["evaluate"]),
                         "%s: on the sub-box %s every value lies in %s, i.e. %s than the documented optimum %r by more than %g (%s)"
                         % (tag, [[round(a, 6), round(b, 6)] for a, b in v["box"]], [round(x, 6) for x in v["enclosure"]], "lower" if sense > 0 else "higher", fstar, TOL,
                            "minimised" if sense > 0 else "maximised"), key="bound", facts=v)
        elif r["undecided"] == 0:
            ctx.holds("R5", C, where(mod, cls.methods["evaluate"]), "%s: proved f %s %r on the whole box (%d boxes, %.1fs)" % (tag, ">= f* - 1e-3 =" if sense > 0 else "<= f* + 1e-3 =", fstar - sense * TOL, r["boxes"], r["seconds"]), key="bound:" + tag)
        else:
            ctx.holds("R5", C, where(mod, cls.methods["evaluate"]), "%s: no violating sub-box found; %d boxes proved, %d undecided within the budget (not an alarm)" % (tag, r["proved"], r["undecided"]), key="bound-partial:" + tag)
    ctx.extra["branch_and_bound"] = summary
    ctx.sample({"branch_and_bound": summary[:6]})
