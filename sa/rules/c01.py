"""C01 - constrained Pareto dominance is the textbook strict partial order.

Both comparators touch cost values only through comparisons, so their result
is a function of (feasibility-marker case, the word sigma_1..sigma_m over
{<,=,>}).  The coordinate loop is solved as a finite automaton by abstract
interpretation (D-ORD): states = abstract environments at the loop head,
letters = the order symbol of the current coordinate pair, product with the
reference automaton (p-better-seen, q-better-seen).

R1  iteration domain = exactly the objective positions of both arguments.
R2  Pareto comparator: for the 25 marker pairs over {0,+-1,+-2} and every
    word, the verdict equals the reference: marker cascade first (smaller
    magnitude wins, zero wins, equal magnitude falls through), then
    1 iff p better somewhere and worse nowhere, 2 mirrored, else 0.
R3  laws (irreflexive, antisymmetric, transitive) hold for the reference and
    transfer through R2; they are additionally checked on the reference's
    summary states.
R4  epsilon comparator: same through `x / eps` (eps > 0, the same scale value
    on both sides - tracked by identity, not spelling): equal to the
    reference on every word that is not all '=', a loser (1 or 2) on the
    all-'=' word.
"""
import ast
import itertools

from ..absint import Evaluator, Interp, TOP, fin, boolean, sym, Unsupported
from ..astutil import text, access_path, func_params, range_bounds, fold, stmts_of, calls_in, is_const, const_value
from ..loader import where, AnalysisError
from ..terms import Terms

MARKERS = [0, 1, -1, 2, -2]


def is_obj_slice(node, name):
    """name[:-1] (all objectives, marker dropped) -> True; provably other slice -> False; else None"""
    if isinstance(node, ast.Subscript) and access_path(node.value) == name and isinstance(node.slice, ast.Slice):
        sl = node.slice
        try:
            lo = 0 if sl.lower is None else fold(sl.lower)
            hi = None if sl.upper is None else fold(sl.upper)
            st = 1 if sl.step is None else fold(sl.step)
        except ValueError:
            return None
        return lo == 0 and hi == -1 and st == 1
    return None


class CmpClient:
    def __init__(self, fn):
        ps = func_params(fn)
        self.selfn, self.p, self.q = ps[0], ps[1], ps[2]
        self.fn = fn
        self.loops = {}
        self.seqs = {}
        self.domain_findings = []   # (kind, node, msg)

    # ---------------- evaluator hooks
    def side_of(self, name, env):
        """'p' / 'q' if the name denotes one of the two argument vectors (directly or through an alias)"""
        if name == self.p:
            return "p"
        if name == self.q:
            return "q"
        v = env.get(name) if name else None
        if v is not None and v[0] == "vec":
            return v[1]
        return None

    def lookup(self, node, env, ev):
        if isinstance(node, ast.Name) and node.id in (self.p, self.q):
            return [("vec", "p" if node.id == self.p else "q")]
        if isinstance(node, ast.Subscript):
            base = access_path(node.value)
            sd = self.side_of(base, env)
            if sd is not None:
                idx = access_path(node.slice)
                if idx is not None and env.get(idx) == ("idx",):
                    return [sym("c", sd)]
            if base is not None and base.startswith(self.selfn + ".") and "epsilon" in base.lower():
                # an element of the (positive, by the property's assumption) epsilon list:
                # identified by the index expression and the values of its variables
                key = text(node.slice)
                return [("pos", ("eps", base, key))]
        return None

    def call(self, node, env, ev):
        nm = access_path(node.func) or ""
        if nm in ("sum", "np.sum", "numpy.sum", "math.fsum") and len(node.args) == 1 and isinstance(node.args[0], ast.Subscript):
            base = access_path(node.args[0].value)
            sd = self.side_of(base, env)
            if sd is not None and self.slice_kind(node.args[0]) is True:
                self.uses_agg = True
                return [("agg", "c", sd)]
        return None

    @staticmethod
    def slice_kind(node):
        if isinstance(node, ast.Subscript) and isinstance(node.slice, ast.Slice):
            sl = node.slice
            try:
                lo = 0 if sl.lower is None else fold(sl.lower)
                hi = None if sl.upper is None else fold(sl.upper)
                st = 1 if sl.step is None else fold(sl.step)
            except ValueError:
                return None
            return lo == 0 and hi == -1 and st == 1
        return None

    # ---------------- derived sequences (pre-scaled copies of the objective vectors)
    def assign_hook(self, stmt, env, ref, interp):
        if len(stmt.targets) != 1 or not isinstance(stmt.targets[0], ast.Name):
            return None
        name, v = stmt.targets[0].id, stmt.value
        nm = access_path(v.func) if isinstance(v, ast.Call) else None
        mentions_eps = any((access_path(n) or "").startswith(self.selfn + ".") and "epsilon" in (access_path(n) or "").lower()
                           for n in ast.walk(v) if isinstance(n, ast.Attribute))
        if nm in ("itertools.cycle", "cycle", "iter") and mentions_eps:
            e2 = dict(env)
            e2[name] = ("stream", name)      # a stateful iterator over epsilon elements
            return [(e2, ref)]
        if isinstance(v, ast.ListComp) and len(v.generators) == 1 and not v.generators[0].ifs:
            g = v.generators[0]
            src, stream, tgts = g.iter, None, None
            if isinstance(src, ast.Call) and access_path(src.func) == "zip" and len(src.args) == 2 \
                    and isinstance(g.target, ast.Tuple) and len(g.target.elts) == 2:
                src, stream = src.args
                tgts = [access_path(g.target.elts[0]), access_path(g.target.elts[1])]
            elif isinstance(g.target, ast.Name):
                tgts = [g.target.id, None]
            side = None
            for nm_, sd in ((self.p, "p"), (self.q, "q")):
                if is_obj_slice(src, nm_) is True:
                    side = sd
            if side is not None and tgts:
                if mentions_eps and stream is None and not any(isinstance(n, ast.Name) and n.id in tgts for n in ast.walk(v.elt)):
                    return None
                self.n_draws = getattr(self, "n_draws", 0) + 1
                sv = None
                if stream is not None:
                    st = env.get(access_path(stream) or "")
                    if st is not None and st[0] == "stream":
                        sv = ("pos", ("eps", "stream:" + st[1], "draw#%d" % self.n_draws))   # consumption continues: distinct positions
                    elif (access_path(stream) or "").startswith(self.selfn + ".") and "epsilon" in access_path(stream).lower():
                        sv = ("pos", ("eps", access_path(stream), "same-index"))
                    else:
                        return None
                e2 = dict(env)
                e2[name] = ("seq", name)
                self.seqs[name] = (side, v.elt, tgts, sv)
                return [(e2, ref)]
        if isinstance(v, ast.ListComp) and mentions_eps:
            e2 = dict(env)
            e2[name] = ("top",)
            return [(e2, ref)]
        return None

    # ---------------- loops
    def classify(self, node, env=None):
        env = env or {}
        self._env = env
        it = node.iter
        tgt = node.target
        if isinstance(it, ast.Call) and access_path(it.func) == "enumerate" and len(it.args) == 1 \
                and isinstance(tgt, ast.Tuple) and len(tgt.elts) == 2 and isinstance(tgt.elts[0], ast.Name):
            inner = self._zip(it.args[0], tgt.elts[1])
            if inner is not None:
                return ("zip", inner[0], inner[1], tgt.elts[0].id, inner[2])
            return None
        z = self._zip(it, tgt)
        if z is not None:
            return ("zip", z[0], z[1], None, z[2])
        if isinstance(it, ast.Call) and access_path(it.func) == "zip" and len(it.args) == 2 and isinstance(tgt, ast.Tuple) \
                and len(tgt.elts) == 2 and all(isinstance(e, ast.Name) for e in tgt.elts) \
                and all(access_path(a) in self.seqs for a in it.args):
            sa, sb = (self.seqs[access_path(a)] for a in it.args)
            if {sa[0], sb[0]} == {"p", "q"}:
                return ("seqzip", [(tgt.elts[0].id, sa), (tgt.elts[1].id, sb)], True)
        rb = range_bounds(it)
        if rb is not None and isinstance(tgt, ast.Name):
            ok = None
            s = rb[1]
            stop_t = text(s)
            good = {"len(%s) - 1" % self.p, "len(%s) - 1" % self.q, "len(%s[:-1])" % self.p, "len(%s[:-1])" % self.q}
            start_ok = rb[0] is None or text(rb[0]) == "0"
            if stop_t in good and start_ok and rb[2] is None:
                ok = True
            elif stop_t in ("len(%s)" % self.p, "len(%s)" % self.q) or not start_ok or \
                    stop_t in ("len(%s) - 2" % self.p, "len(%s) - 2" % self.q):
                ok = False
            return ("range", tgt.id, ok)
        return None

    def _zip(self, it, tgt):
        if isinstance(it, ast.Call) and access_path(it.func) == "zip" and len(it.args) == 2 \
                and isinstance(tgt, ast.Tuple) and len(tgt.elts) == 2 and all(isinstance(e, ast.Name) for e in tgt.elts):
            a, b = it.args
            sides = []
            dom = True
            for x in (a, b):
                base = access_path(x.value) if isinstance(x, ast.Subscript) else access_path(x)
                side = self.side_of(base, getattr(self, "_env", {}))
                if side is None:
                    continue
                if isinstance(x, ast.Subscript):
                    r = self.slice_kind(x)
                    if r is not None:
                        sides.append(side)
                        dom = dom and r
                else:
                    sides.append(side)
                    dom = None if dom else dom
            if len(sides) == 2 and set(sides) == {"p", "q"}:
                return ({sides[0]: tgt.elts[0].id, sides[1]: tgt.elts[1].id}, None, dom)
        return None

    def loop(self, node, env, ref):
        if not isinstance(node, ast.For):
            return None
        c = self.classify(node, env)
        if c is None:
            return None
        self.loops[node] = c
        dom = c[-1] if c[0] in ("zip", "seqzip") else c[2]
        if dom is False:
            self.domain_findings.append(("violated", node, "iteration domain %s is not the objective positions [0, len-1): an objective is skipped or the marker is compared as an objective" % text(node.iter)))
        elif dom is None:
            self.domain_findings.append(("inconclusive", node, "iteration domain %s not recognised as the objective positions" % text(node.iter)))
        if env.get("__pass__"):
            env["__secondary__"] = True
            letters = ["="]
            if ref[0]:
                letters.append("<")
            if ref[1]:
                letters.append(">")
            return ("letters", letters)
        env["__pass__"] = True
        return ("letters", ["<", "=", ">"])

    def bind(self, node, letter, env, ref):
        c = self.loops[node]
        env[("sigma", "c")] = letter
        if c[0] == "seqzip":
            for name, (side, elt, tgts, sv) in c[1]:
                e3 = dict(env)
                e3[tgts[0]] = sym("c", side)
                if tgts[1]:
                    e3[tgts[1]] = sv
                env[name] = self.ev.one(elt, e3)
        elif c[0] == "zip":
            env[c[1]["p"]] = sym("c", "p")
            env[c[1]["q"]] = sym("c", "q")
            if c[3]:
                env[c[3]] = ("idx",)
        else:
            env[c[1]] = ("idx",)
        if not env.get("__secondary__"):
            ref = (ref[0] or letter == "<", ref[1] or letter == ">")
        return env, ref


def reference(a, b, ref):
    """set of acceptable verdicts of the textbook definition (Pareto)"""
    if a != b:
        if a == 0:
            return 1
        if b == 0:
            return 2
        if abs(a) < abs(b):
            return 1
        if abs(b) < abs(a):
            return 2
    pb, qb = ref
    if pb and not qb:
        return 1
    if qb and not pb:
        return 2
    return 0


def analyse(ctx, repo, clsname, eps_mode):
    cls = repo.cls(clsname, "operators")
    mod = cls.module
    if "compare" not in cls.methods:
        raise AnalysisError("%s.compare not found" % clsname)
    fn = cls.methods["compare"]
    C = "%s.compare" % clsname
    states = transitions = 0
    n_out = 0
    bad = unsure = None
    table = {}
    dom_seen = {}
    unsupported = None
    bounded = None
    notes = set()
    has_agg = any(isinstance(c_, ast.Call) and (access_path(c_.func) or "") in ("sum", "np.sum", "numpy.sum", "math.fsum") for c_ in ast.walk(fn))
    for (a, b), aggrel in itertools.product(itertools.product(MARKERS, MARKERS), ("<", "=", ">") if has_agg else (None,)):
        client = CmpClient(fn)
        ev = Evaluator(hooks=client)
        client.ev = ev
        interp = Interp(ev, client)
        env = {"%s[-1]" % client.p: fin(a), "%s[-1]" % client.q: fin(b)}
        if aggrel is not None:
            env[("aggrel", "c")] = aggrel
        try:
            outs = interp.run(fn.body, env, (False, False))
        except Unsupported as e:
            if "state space" not in str(e):
                unsupported = str(e)
                break
            # the loop state is not finite (an integer counter of wins, a running score): the automaton does not close.
            # Objective sequences up to length 4 are still run exactly: a wrong verdict on one of them is a witness; no
            # wrong verdict among them proves nothing about longer sequences
            bounded = str(e)
            client = CmpClient(fn)
            ev = Evaluator(hooks=client)
            client.ev = ev
            interp = Interp(ev, client, max_states=400000)
            interp.max_word = 4
            try:
                outs = interp.run(fn.body, dict(env), (False, False))
            except Unsupported as e2:
                unsupported = str(e2)
                break
        states += interp.states
        notes |= ev.notes
        transitions += interp.transitions
        for k, node, msg in client.domain_findings:
            dom_seen[(k, node.lineno, msg)] = node
        # the feasibility cascade tests the markers p[-1] / q[-1] against 0; the same test on a fixed OBJECTIVE position
        # (p[1] == 0) is a slip of the index: the verdict then depends on an objective value where feasibility is meant
        for cmp_ in ast.walk(fn):
            if isinstance(cmp_, ast.Compare) and len(cmp_.ops) == 1 and isinstance(cmp_.ops[0], (ast.Eq, ast.NotEq)):
                for a_, b_ in ((cmp_.left, cmp_.comparators[0]), (cmp_.comparators[0], cmp_.left)):
                    if isinstance(a_, ast.Subscript) and access_path(a_.value) in (client.p, client.q) and not isinstance(a_.slice, ast.Slice) \
                            and is_const(b_) and const_value(b_) == 0:
                        try:
                            ix = fold(a_.slice)
                        except ValueError:
                            continue
                        if isinstance(ix, int) and ix != -1:
                            msg_ = ("the feasibility test `%s` reads position %d of a cost vector, an objective, where the constraint marker (position -1) is meant: "
                                    "which solution wins then depends on whether that objective happens to be 0" % (text(cmp_), ix))
                            dom_seen[("violated", cmp_.lineno, msg_)] = cmp_
        for o in outs:
            o.ref0 = o.ref
            if aggrel is not None and "$" in o.word:
                # floating-point sums are monotone but not strictly: p <= q coordinate-wise gives fl-sum(p) <= fl-sum(q),
                # and a strict coordinate can be absorbed.  Keep only (sum relation, word) combinations that floats can realise.
                pb, qb = o.ref
                allowed = {"="} if not (pb or qb) else ({"<", "="} if (pb and not qb) else ({">", "="} if (qb and not pb) else {"<", "=", ">"}))
                if len(o.word) == 0:
                    allowed = {"="}
                if aggrel not in allowed:
                    continue
                notes.add("the verdict depends on floating-point sums of the objectives (relation fl-sum(p) %s fl-sum(q) with this word is realisable because a small strictly better coordinate can be absorbed by a large one)" % aggrel)
            n_out += 1
            complete = "$" in o.word
            o.word = tuple(x for x in o.word if x != "$")
            want = reference(a, b, o.ref)
            if not complete and not (a != b and abs(a) != abs(b)) and not (a != b and (a == 0 or b == 0)):
                # the function returned before the objective sequence was consumed: the verdict must be right for
                # EVERY continuation of the word (the reference state must be absorbing with this verdict)
                exts = [(pb2, qb2) for pb2 in (True, False) for qb2 in (True, False) if pb2 >= o.ref[0] and qb2 >= o.ref[1]]
                if aggrel is not None:
                    def ok_agg(r2):
                        pb2, qb2 = r2
                        al = {"="} if not (pb2 or qb2) else ({"<", "="} if (pb2 and not qb2) else ({">", "="} if (qb2 and not pb2) else {"<", "=", ">"}))
                        return aggrel in al
                    exts = [r2 for r2 in exts if ok_agg(r2)]
                wants = {reference(a, b, r2) for r2 in exts}
                got0 = o.value[1] if (o.kind == "return" and o.value[0] == "fin") else None
                if len(wants) > 1 or (wants and got0 not in wants):
                    bad_ext = [r2 for r2 in exts if reference(a, b, r2) != got0]
                    if bad_ext and not (eps_mode and got0 in (1, 2) and all(r2 == (False, False) for r2 in bad_ext)):
                        # choose a concrete continuation as witness
                        r2 = bad_ext[0]
                        o.ref = r2
                        o.word = o.word + (("<",) if (r2[0] and not o.ref0[0]) else ()) + ((">",) if (r2[1] and not o.ref0[1]) else ()) \
                            + (("=",) if r2 == o.ref0 and not o.word else ())
                        want = reference(a, b, r2)
                        notes.add("an early return (before all objectives were looked at) fixes the verdict although later coordinates can still change it")
            if eps_mode and want == 0 and o.ref == (False, False) and a == b or (eps_mode and want == 0 and o.ref == (False, False) and abs(a) == abs(b)):
                acceptable = {1, 2}          # identical boxes: a loser must be named
            else:
                acceptable = {want}
            got = o.value[1] if (o.kind == "return" and o.value[0] == "fin") else None
            key = "markers(%d,%d) ref=%s" % (a, b, "".join("T" if x else "F" for x in o.ref))
            table.setdefault(key, set()).add(str(got))
            if got not in acceptable:
                rec = (a, b, o, acceptable, got)
                if got is not None and not o.tainted:
                    bad = bad or rec
                elif got is not None and o.tainted:
                    # a definite constant was returned on a path that forked on an unknown
                    # condition: the verdict is still reachable only if the fork is; be careful
                    unsure = unsure or rec
                else:
                    unsure = unsure or rec
    # zip() stops at its shortest argument: zipping the objective slices with a list whose length does not depend on the
    # number of objectives (the epsilon list as it is) silently drops the trailing objectives
    TZ = Terms(fn)
    for st_ in stmts_of(fn):
        hdr = [st_.iter] if isinstance(st_, ast.For) else ([st_] if not isinstance(st_, (ast.While, ast.If, ast.Try, ast.With)) else [])
        for h_ in hdr:
            for zc in [c_ for c_ in calls_in(h_) if access_path(c_.func) == "zip" and len(c_.args) >= 3]:
                if not any(is_obj_slice(a_, client.p) is True or is_obj_slice(a_, client.q) is True for a_ in zc.args):
                    continue
                for a_ in zc.args:
                    if is_obj_slice(a_, client.p) is True or is_obj_slice(a_, client.q) is True:
                        continue
                    ax = TZ.expand(a_, at=st_)
                    alts = [ax]
                    leaves = []
                    while alts:
                        x_ = alts.pop()
                        if isinstance(x_, ast.IfExp):
                            alts += [x_.body, x_.orelse]
                        else:
                            leaves.append(x_)
                    for lf in leaves:
                        lp_ = access_path(lf) or ""
                        if lp_.startswith(client.selfn + ".") or (isinstance(lf, ast.Name) and TZ.origin(lf.id, st_) is not None
                                                                   and (access_path(TZ.origin(lf.id, st_)) or "").startswith(client.selfn + ".")):
                            dom_seen[("violated", st_.lineno, "zip")] = st_
                            dom_seen[("violated", st_.lineno, "the objectives are zipped with %s, a list whose length is independent of the number of objectives: zip stops at the "
                                      "shorter argument, so with fewer entries than objectives the trailing objectives are never compared" % text(lf))] = st_
                            dom_seen.pop(("violated", st_.lineno, "zip"), None)
    # a tolerance between coordinates: approximately-equal is not transitive, and two vectors that differ by far more than
    # rounding error (the default relative tolerance of isclose is 1e-9, of numpy 1e-5) are treated as tied in that objective
    for c_ in ast.walk(fn):
        if isinstance(c_, ast.Call) and (access_path(c_.func) or "").split(".")[-1] in ("isclose", "allclose") and len(c_.args) >= 2:
            kw_ = {k.arg: k.value for k in c_.keywords}
            np_ = (access_path(c_.func) or "").startswith(("np.", "numpy."))
            rel = kw_.get("rel_tol", kw_.get("rtol"))
            ab = kw_.get("abs_tol", kw_.get("atol"))
            try:
                relv = fold(rel) if rel is not None else (1e-5 if np_ else 1e-9)
                absv = fold(ab) if ab is not None else (1e-8 if np_ else 0.0)
            except ValueError:
                continue
            names_ = {n_.id for a_ in c_.args[:2] for n_ in ast.walk(a_) if isinstance(n_, ast.Name)}
            if (relv > 1e-14 or absv > 0) and not ({client_name for client_name in names_} <= {"self"}):
                dom_seen[("violated", c_.lineno, "objective values are compared with a tolerance (%s, relative %g, absolute %g): two solutions whose values in that objective differ by much more than "
                          "rounding error count as tied there, so a solution that is strictly better in exactly that objective is no longer reported as dominating (and 'tied within a "
                          "tolerance' is not transitive, so neither is the relation)" % (text(c_)[:80], relv, absv))] = c_
    # the sign of a PRODUCT of two objective-magnitude quantities: a float product underflows to (-)0.0 when the factors are
    # small (|a*b| < 5e-324), so `a * b < 0` is False for a = -1e-200, b = 1e-200 although a < 0 < b: "each side is better
    # somewhere" is then missed and one side is named as dominating.  Factors that went through a comparison, a bool or
    # sign() are +-1 / 0 / 1 and cannot underflow: they are not magnitudes.
    mag = _magnitude_names(fn, (client.p, client.q))
    for c_ in ast.walk(fn):
        if isinstance(c_, ast.Compare) and len(c_.ops) == 1 and isinstance(c_.ops[0], (ast.Lt, ast.Gt, ast.LtE, ast.GtE, ast.Eq, ast.NotEq)):
            l_, r_ = c_.left, c_.comparators[0]
            for prod, other in ((l_, r_), (r_, l_)):
                if isinstance(prod, ast.BinOp) and isinstance(prod.op, ast.Mult) and is_const(other) and const_value(other) in (0, 0.0) \
                        and not isinstance(const_value(other), bool) \
                        and _is_magnitude(prod.left, mag, (client.p, client.q)) and _is_magnitude(prod.right, mag, (client.p, client.q)):
                    dom_seen[("violated", c_.lineno, "the verdict branches on the sign of a product of two objective-derived magnitudes (`%s`): the float product underflows to zero "
                              "when both factors are small (a = -1e-200, b = 1e-200 give a * b = -0.0, and -0.0 < 0.0 is False), so a pair in which each side is "
                              "strictly better in one objective by a tiny amount (word <>) is not recognised as incomparable and one side is reported as dominating; "
                              "dominance may look at objective values through comparisons only" % text(c_)[:80])] = c_
    if unsupported:
        for (k, ln, msg), node in dom_seen.items():
            if k == "violated":
                ctx.violated("R1", C, where(mod, node), msg, key="domain")
        ctx.inconclusive("R2" if not eps_mode else "R4", C, where(mod, fn), "outside the analysable fragment: %s" % unsupported, key="automaton")
        return
    for (k, ln, msg), node in dom_seen.items():
        if k == "violated":
            ctx.violated("R1", C, where(mod, node), msg, key="domain")
        else:
            ctx.inconclusive("R1", C, where(mod, node), msg, key="domain")
    if not dom_seen:
        ctx.holds("R1", C, where(mod, fn), "coordinate loops iterate exactly the objective positions of both arguments", key="domain")
    ctx.extra.setdefault("automata", {})[C] = {"states": states, "transitions": transitions, "terminal_outcomes": n_out}
    ctx.extra.setdefault("decision_tables", {})[C] = {k: sorted(v) for k, v in sorted(table.items())}
    rule = "R4" if eps_mode else "R2"
    if bad:
        a, b, o, acc, got = bad
        ctx.violated(rule, C, where(mod, o.node or fn),
                     "markers (p,q)=(%r,%r), coordinate-order word %s (p vs q per objective): returns %r, the textbook verdict is %s%s"
                     % (a, b, "".join(o.word) or "<empty>", got, sorted(acc), ("; " + "; ".join(sorted(notes))) if notes else ""), key="automaton",
                     facts={"markers": [a, b], "word": list(o.word), "returned": got, "expected": sorted(acc)})
    elif bounded and _signed_count(fn):
        lp_, acc_ = _signed_count(fn)
        ctx.violated(rule, C, where(mod, lp_), "the verdict is the sign of one signed count `%s` (-1 per objective where one side is better, +1 where the other is): a win and a loss cancel, "
                     "so with three or more objectives a pair in which one side wins twice and loses once (coordinate-order word <<>) gets a winner although the two are incomparable; "
                     "dominance needs 'no objective worse', which a sum of wins cannot express" % acc_, key="automaton",
                     facts={"markers": [0, 0], "word": ["<", "<", ">"], "expected": [0]})
    elif unsure:
        a, b, o, acc, got = unsure
        ctx.inconclusive(rule, C, where(mod, o.node or fn), "markers (%r,%r) word %s: abstract result %s (tainted=%s) vs expected %s"
                         % (a, b, "".join(o.word), o.value, o.tainted, sorted(acc)), key="automaton")
    elif bounded:
        ctx.inconclusive(rule, C, where(mod, fn), "the loop keeps an unbounded quantity (%s): no wrong verdict for objective sequences up to length 4, longer ones are not decided" % bounded, key="automaton")
    else:
        ctx.holds(rule, C, where(mod, fn),
                  "verdict equals the reference for all 25 marker pairs and all words (%d product states, %d transitions, %d terminal outcomes)%s"
                  % (states, transitions, n_out, "; all-'=' word names a loser" if eps_mode else ""), key="automaton")
    ctx.sample({"construct": C, "table_excerpt": dict(list(ctx.extra["decision_tables"][C].items())[:6])})
    return states, transitions


_MAG_PASS = {"abs", "min", "max", "sum", "float", "fabs", "absolute", "amin", "amax", "subtract", "array", "asarray", "minimum", "maximum"}


def _is_magnitude(e, mag, roots):
    """Is `e` a float quantity whose size follows the objective values (an element of p / q, or sums, differences, products,
    quotients, abs / min / max of such)?  Anything that went through a comparison, floor / round / int / sign is not."""
    if isinstance(e, ast.Name):
        return e.id in mag
    if isinstance(e, ast.Subscript):
        return access_path(e.value) in roots or _is_magnitude(e.value, mag, roots)
    if isinstance(e, ast.BinOp) and isinstance(e.op, (ast.Add, ast.Sub, ast.Mult, ast.Div)):
        return _is_magnitude(e.left, mag, roots) or _is_magnitude(e.right, mag, roots)
    if isinstance(e, ast.UnaryOp) and isinstance(e.op, (ast.USub, ast.UAdd)):
        return _is_magnitude(e.operand, mag, roots)
    if isinstance(e, ast.IfExp):
        return _is_magnitude(e.body, mag, roots) or _is_magnitude(e.orelse, mag, roots)
    if isinstance(e, ast.Call) and (access_path(e.func) or "").split(".")[-1] in _MAG_PASS:
        return any(_is_magnitude(a, mag, roots) for a in e.args)
    return False


def _magnitude_names(fn, roots):
    """Local names that are bound, somewhere in fn, to an objective magnitude (flow-insensitive least fixpoint)."""
    mag = set()
    changed = True
    while changed:
        changed = False
        for st in ast.walk(fn):
            pairs = []
            if isinstance(st, ast.Assign):
                pairs = [(t, st.value) for t in st.targets]
            elif isinstance(st, ast.AugAssign) and isinstance(st.op, (ast.Add, ast.Sub, ast.Mult, ast.Div)):
                pairs = [(st.target, st.value)]
            elif isinstance(st, (ast.For, ast.comprehension)):
                it = st.iter
                srcs = [it]
                if isinstance(it, ast.Call) and access_path(it.func) in ("zip", "enumerate"):
                    srcs = list(it.args)
                elems = [ast.Subscript(value=s, slice=ast.Constant(0), ctx=ast.Load()) for s in srcs
                         if access_path(s) in roots or (isinstance(s, ast.Subscript) and access_path(s.value) in roots)]
                if elems:
                    tg = st.target
                    names = [n for n in ast.walk(tg) if isinstance(n, ast.Name)]
                    if isinstance(it, ast.Call) and access_path(it.func) == "enumerate" and isinstance(tg, ast.Tuple) and len(tg.elts) == 2:
                        names = [n for n in ast.walk(tg.elts[1]) if isinstance(n, ast.Name)]
                    for n in names:
                        if n.id not in mag:
                            mag.add(n.id)
                            changed = True
                continue
            for t, v in pairs:
                if isinstance(t, ast.Name) and t.id not in mag and _is_magnitude(v, mag, roots):
                    mag.add(t.id)
                    changed = True
    return mag


def _signed_count(fn):
    """(loop, name) when a coordinate loop adds to one accumulator where p is better and subtracts from it where q is
    better, and the verdict is returned under comparisons of that accumulator with 0"""
    for lp in [n for n in ast.walk(fn) if isinstance(n, ast.For)]:
        tg = {n.id for n in ast.walk(lp.target) if isinstance(n, ast.Name)}
        if len(tg) < 2:
            continue
        for st in [n for n in ast.walk(lp) if isinstance(n, ast.If)]:
            if not (isinstance(st.test, ast.Compare) and len(st.test.ops) == 1 and isinstance(st.test.ops[0], (ast.Lt, ast.Gt))
                    and {n.id for n in ast.walk(st.test) if isinstance(n, ast.Name)} <= tg and len(st.orelse) == 1 and isinstance(st.orelse[0], ast.If)):
                continue
            a1 = [x for x in st.body if isinstance(x, ast.AugAssign) and isinstance(x.target, ast.Name) and isinstance(x.op, (ast.Add, ast.Sub)) and is_const(x.value)]
            a2 = [x for x in st.orelse[0].body if isinstance(x, ast.AugAssign) and isinstance(x.target, ast.Name) and isinstance(x.op, (ast.Add, ast.Sub)) and is_const(x.value)]
            if len(a1) == 1 and len(a2) == 1 and a1[0].target.id == a2[0].target.id and type(a1[0].op) is not type(a2[0].op) \
                    and const_value(a1[0].value) == const_value(a2[0].value) and len(st.body) == 1 and len(st.orelse[0].body) == 1:
                acc = a1[0].target.id
                signs = [c for c in ast.walk(fn) if isinstance(c, ast.If) and isinstance(c.test, ast.Compare) and len(c.test.ops) == 1 and access_path(c.test.left) == acc
                         and isinstance(c.test.ops[0], (ast.Lt, ast.Gt)) and is_const(c.test.comparators[0]) and const_value(c.test.comparators[0]) == 0
                         and any(isinstance(r, ast.Return) for r in c.body)]
                if signs:
                    return lp, acc
    return None


def laws(ctx):
    """the reference relation on summary states is a strict partial order (sanity of the oracle)"""
    # summary of a pair = (marker a, marker b, p_better_seen, q_better_seen); derive from per-coordinate triples
    syms = "<=>"
    cons = [(x, y, z) for x in syms for y in syms for z in syms
            if not (x == "<" and y in "<=" and z != "<") and not (x == "=" and y != z and False)]
    # consistent triples (x: p?q, y: q?r, z: p?r) for totally ordered values
    cons = []
    for x in syms:
        for y in syms:
            for z in syms:
                vals = None
                for p_, q_, r_ in itertools.product(range(3), repeat=3):
                    def o(u, v):
                        return "<" if u < v else (">" if u > v else "=")
                    if o(p_, q_) == x and o(q_, r_) == y and o(p_, r_) == z:
                        vals = True
                if vals:
                    cons.append((x, y, z))
    assert len(cons) == 13
    # words up to length 2 over consistent triples x marker triples
    n = 0
    for ma, mb, mc in itertools.product([0, 1, 2], repeat=3):
        for w in itertools.chain(itertools.product(cons, repeat=1), itertools.product(cons, repeat=2)):
            def ref_of(i):
                return (any(t[i] == "<" for t in w), any(t[i] == ">" for t in w))
            pq = reference(ma, mb, ref_of(0))
            qr = reference(mb, mc, ref_of(1))
            pr = reference(ma, mc, ref_of(2))
            n += 1
            if pq == 1 and qr == 1 and pr != 1:
                return False, n
    return True, n


def run(ctx):
    for rid, doc in (("R1", "iteration domain = objective positions of both arguments"),
                     ("R2", "Pareto comparator = reference (marker cascade, then textbook dominance) on the product automaton"),
                     ("R3", "irreflexive / antisymmetric / transitive: laws of the reference, transferred by R2/R4"),
                     ("R4", "epsilon comparator = reference on words that are not all '='; names a loser on the all-'=' word")):
        ctx.rule(rid, doc)
    ctx.assume("finite floats (no NaN); positive epsilons; division by the same positive value preserves order up to rounding (as the property grants)")
    tot_s = tot_t = 0
    # this rule interprets comprehensions itself (shared iterators matter): keep them as written
    from ..loader import Repo
    repo = Repo(ctx.repo.root, comp=False)
    for clsname, eps in (("ParetoDominance", False), ("EpsilonDominance", True)):
        r = analyse(ctx, repo, clsname, eps)
        if r:
            tot_s += r[0]
            tot_t += r[1]
    ok, n = laws(ctx)
    ctx.check(ok, "R3", "reference-order", "", "transitivity of the reference verdict checked on %d (marker triple, word of consistent order triples) cases; irreflexivity and antisymmetry are immediate from its definition" % n)
    ctx.count("comparators", 2)
    ctx.extra["states"] = max(1, tot_s)
    ctx.extra["transitions"] = max(1, tot_t)
    ctx.extra["traces_validated_against_impl"] = 0
    ctx.extra["explanation"] = ("finite automata extracted from the source of both compare() bodies by abstract interpretation in the order-symbol "
                                "domain; product with the reference automaton explored exhaustively; no trace is executed against the implementation "
                                "(static analysis), hence traces_validated_against_impl = 0")
    ctx.extra["exhaustive"] = True
