"""C11 - a crash at any moment leaves the SQLite store readable and consistent.

R1  Job.evaluate: on every success path the store call follows the final
    writes of costs, signed costs and state, and nothing of the individual's
    persistent fields is written between the store call and the return.
R2  sync_individual: every non-exceptional path in a write mode executes the
    single upsert statement exactly once and commits on the same connection
    before returning; an OperationalError is retried or re-raised, never
    swallowed.
R3  thread-safe conn(): the connection is created in the call (nothing cached
    on self), opened with an exclusive isolation level in write mode, and the
    journal_mode pragma is not OFF / MEMORY (a rollback journal exists).
R4  _create_structure commits after the DDL and after the problem rows; the
    constructor calls it before returning in the creating modes.
R5  The row written is the serialisation of the individual at the moment of
    the call, and the serialisation takes 'vector' from the individual's
    vector and 'costs' from its costs (the field table of C10 R1, re-derived
    here for the two fields the property names): costs stored under another
    attribute's value do not match the stored vector.
"""
import ast
import re

from ..astutil import text, access_path, calls_in, func_params, stmts_of, is_const, const_value, method_call, store_targets
from ..jobmodel import JobModel
from ..loader import where, AnalysisError
from ..paths import Enumerator
from ..terms import Terms, PathEnv

PERSISTENT = ("costs", "costs_signed", "state", "vector", "population_id", "custom")


def r1_job(ctx, jm):
    C = "Job.evaluate"
    ind = jm.ind
    succ = jm.success_paths()
    bad = None
    unknown = None
    for p, last in succ:
        sync = [i for i, e in enumerate(p.events) if i > last and jm.is_sync(e)]
        costs = [i for i, e in enumerate(p.events) if i >= last and jm.is_costs_assign(e)]
        calc = [i for i, e in enumerate(p.events) if i > last and jm.is_calc(e)]
        evald = [i for i, e in enumerate(p.events) if i > last and jm.state_written(e) == "EVALUATED"]
        if not sync:
            switched = [e for e in p.events if e.kind == "guard" and not e.val and access_path(e.node) in getattr(jm, "extra_params", ())]
            if switched:
                # the caller switched the store write off through an optional parameter: whether the design is persisted
                # is then decided by the callers (C07 looks at the parallel dispatcher), not by this function
                unknown = unknown or (p, "the store write is skipped when the optional parameter `%s` is false: persistence is left to the caller" % access_path(switched[0].node))
                continue
            bad = bad or (p, None, "a successful evaluation returns without writing the design to the store")
            continue
        s0 = sync[0]
        # the store written to is the one attached to the problem NOW (a handle captured earlier goes stale when the
        # store is attached or replaced after the Job was built)
        for i_ in sync:
            for c_ in calls_in(p.events[i_].node):
                if (access_path(c_.func) or "").endswith(".sync_individual"):
                    recv = access_path(PathEnv(jm.fn, p.events).expand_at(c_.func.value, i_)) or ""
                    if recv == "%s.problem.data_store" % jm.selfn:
                        continue
                    init = jm.cls.methods.get("__init__")
                    captured = None
                    if init is not None and recv.startswith(jm.selfn + ".") and recv.count(".") == 1:
                        me = func_params(init)[0]
                        for st_ in stmts_of(init):
                            if isinstance(st_, ast.Assign) and any(access_path(t_) == me + recv[len(jm.selfn):] for t_ in st_.targets) \
                                    and (access_path(st_.value) or "").endswith("problem.data_store"):
                                captured = st_
                    if captured is not None:
                        bad = bad or (p, p.events[i_].node, "the design is written through %s, a handle captured when the Job was constructed (%s): a store attached to the problem "
                                      "afterwards never receives the per-design writes, so a crash loses designs whose evaluation had already returned" % (recv, text(captured).strip()))
                    else:
                        unknown = unknown or (p, "the store handle %s is not the problem's data_store read at evaluation time" % recv)
        for name, idx in (("costs", costs), ("signed costs", calc), ("EVALUATED state", evald)):
            if idx and idx[-1] > s0:
                bad = bad or (p, p.events[idx[-1]].node, "the design is written to the store before its %s are final: a crash after the store call leaves a row that does not match the evaluated design" % name)
        for e in p.events[sync[-1] + 1:]:
            if e.kind == "stmt":
                for t in store_targets(e.node):
                    tp = access_path(t) or ""
                    if any(tp == "%s.%s" % (ind, f) or tp.startswith("%s.%s[" % (ind, f)) for f in PERSISTENT):
                        bad = bad or (p, e.node, "%s is modified after the design was stored and before the function returns" % tp)
    if bad:
        ctx.violated("R1", C, jm.where(bad[1]), bad[2] + " (path [%s])" % bad[0].describe(6), key="store-after-final-writes")
    elif unknown:
        ctx.inconclusive("R1", C, jm.where(), unknown[1], key="store-after-final-writes")
    elif not succ:
        ctx.inconclusive("R1", C, jm.where(), "no success path", key="store-after-final-writes")
    else:
        ctx.holds("R1", C, jm.where(), "on all %d success paths: costs, signed costs, EVALUATED, then the store call, then return" % len(succ), key="store-after-final-writes")


def sql_of(cls, node):
    """string constant behind self.<attr> / a literal"""
    if isinstance(node, ast.Constant) and isinstance(node.value, str):
        return node.value
    p = access_path(node)
    if p and "." in p:
        attr = p.split(".")[-1]
        v = cls.class_attrs.get(attr)
        if isinstance(v, ast.Constant) and isinstance(v.value, str):
            return v.value
    return None


WRITE_MODES = {"write", "rewrite"}
ALL_MODES = ("write", "rewrite", "read", "<any other>")


def feasible_modes(p, selfn):
    """the store modes for which every test of <self>.mode on the path has the recorded outcome;
    None when a mode test is not a comparison with string literals"""
    ok = set(ALL_MODES)
    mp = selfn + ".mode"
    for e in p.events:
        if e.kind != "guard" or mp not in text(e.node):
            continue
        g = e.node
        if not (isinstance(g, ast.Compare) and len(g.ops) == 1):
            return None
        a, b, op = g.left, g.comparators[0], g.ops[0]
        if access_path(b) == mp and isinstance(op, (ast.Eq, ast.NotEq)):
            a, b = b, a
        if access_path(a) != mp:
            return None
        if isinstance(op, (ast.Eq, ast.NotEq)) and isinstance(b, ast.Constant) and isinstance(b.value, str):
            sat = {m for m in ALL_MODES if (m == b.value)}
            if isinstance(op, ast.NotEq):
                sat = set(ALL_MODES) - sat
        elif isinstance(op, (ast.In, ast.NotIn)) and isinstance(b, (ast.Tuple, ast.List, ast.Set)) \
                and all(isinstance(x, ast.Constant) and isinstance(x.value, str) for x in b.elts):
            vals = {x.value for x in b.elts}
            sat = {m for m in ALL_MODES if m in vals}
            if isinstance(op, ast.NotIn):
                sat = set(ALL_MODES) - sat
        else:
            return None
        ok &= sat if e.val else (set(ALL_MODES) - sat)
    return ok


def r2_sync(ctx, repo, cls):
    mod = cls.module
    fn = cls.methods.get("sync_individual")
    if fn is None:
        raise AnalysisError("SqliteDataStore.sync_individual not found")
    C = "SqliteDataStore.sync_individual"
    selfn, ind = func_params(fn)[:2]
    en = Enumerator(loop_counts=(0, 1), can_raise=lambda s: any(isinstance(c.func, ast.Attribute) and c.func.attr in ("execute", "commit", "executemany") for c in calls_in(s)))
    paths = en.function_paths(fn)
    bad = None
    unknown = None
    n_write = 0
    for p in paths:
        if p.outcome == "raise":
            continue
        modes = feasible_modes(p, selfn)
        if modes is None:
            unknown = unknown or (p, "a test of the store mode on the path [%s] is not a comparison with literals" % p.describe(4))
            continue
        if not modes:
            continue        # infeasible combination of mode tests
        write_mode = modes <= WRITE_MODES
        mixed = bool(modes & WRITE_MODES) and not write_mode
        caught = [e for e in p.events if e.kind == "catch"]
        conn_var = None
        cur_conn = {}
        execs, commits = [], []
        retried = False
        for i, e in enumerate(p.events):
            if e.kind not in ("stmt", "return"):
                continue
            s = e.node
            if isinstance(s, ast.Assign) and isinstance(s.value, ast.Call):
                nm = access_path(s.value.func) or ""
                if nm == selfn + ".conn":
                    conn_var = access_path(s.targets[0])
                elif nm.endswith(".cursor") and access_path(s.value.func.value) == conn_var:
                    cur_conn[access_path(s.targets[0])] = conn_var
            for c in calls_in(s):
                mc = method_call(c)
                if not mc:
                    continue
                recv = access_path(mc[0])
                if mc[1] == "execute" and (recv in cur_conn or recv == conn_var):
                    execs.append((i, c))
                elif mc[1] == "commit":
                    commits.append((i, recv))
                elif mc[1] == "sync_individual" and recv == selfn:
                    retried = True
        if caught:
            h = caught[-1].node
            names = Enumerator.handler_names(h)
            committed_later = any(ci > p.events.index(caught[-1]) for ci, _r in commits) and any(ei > p.events.index(caught[-1]) for ei, _c in execs)
            if not retried and not committed_later:
                bad = bad or (p, h, "an exception (%s) during the write is swallowed: sync_individual returns although nothing was committed" % ", ".join(str(n) for n in names))
            continue
        if not write_mode:
            if execs:
                bad = bad or (p, fn, "writes in a non-write mode (%s)" % sorted(modes - WRITE_MODES))
                continue
            if not mixed:
                continue
            # the same path is taken in a write mode and in a read mode and writes nothing: handled below as a write path
        n_write += 1
        if len(execs) == 0:
            bad = bad or (p, fn, "sync_individual can return in a write mode without having written the individual (e.g. after a bounded number of retries): the design is silently missing from the store")
            continue
        if len(execs) != 1:
            bad = bad or (p, fn, "%d SQL statements are executed for one individual (expected the single upsert): a crash between them leaves a partial row" % len(execs))
            continue
        sql = sql_of(cls, execs[0][1].args[0]) if execs[0][1].args else None
        if sql is None or not re.search(r"insert|replace", sql, re.I):
            bad = bad or (p, execs[0][1], "the executed statement is not the individuals upsert")
        ok_commit = [ci for ci, recv in commits if ci > execs[0][0] and recv == conn_var]
        if not ok_commit:
            bad = bad or (p, fn, "no commit on the writing connection after the upsert: the row is lost (rolled back) if the process dies, although sync_individual has returned")
    if bad:
        ctx.violated("R2", C, where(mod, bad[1]), bad[2] + " (path [%s])" % bad[0].describe(6), key="upsert-then-commit")
    elif unknown:
        ctx.inconclusive("R2", C, where(mod, fn), unknown[1], key="upsert-then-commit")
    elif n_write == 0:
        ctx.inconclusive("R2", C, where(mod, fn), "no write-mode path found", key="upsert-then-commit")
    else:
        ctx.holds("R2", C, where(mod, fn), "single upsert then commit on the same connection on all %d normal write paths; OperationalError is retried" % n_write, key="upsert-then-commit")


def r3_conn(ctx, repo, cls):
    mod = cls.module
    fn = cls.methods.get("conn")
    if fn is None:
        raise AnalysisError("SqliteDataStore.conn not found")
    C = "SqliteDataStore.conn"
    selfn = func_params(fn)[0]
    bad = None
    n = 0
    journals = set()
    for p in Enumerator(loop_counts=(0, 1), can_raise=lambda s: False).function_paths(fn):
        ts = wm = None
        for e in p.events:
            if e.kind == "guard":
                t = text(e.node)
                if t == selfn + ".thread_safe":
                    ts = e.val
                elif "mode" in t and "'write'" in t and isinstance(e.node, ast.Compare) and isinstance(e.node.ops[0], ast.Eq):
                    wm = e.val
        if not ts:
            continue
        n += 1
        created = None
        for e in p.events:
            if e.kind == "stmt":
                s = e.node
                for t in store_targets(s):
                    tp = access_path(t) or ""
                    if tp.startswith(selfn + "."):
                        bad = bad or (s, "in thread-safe mode conn() stores %s on the shared store object: worker threads would share one connection" % tp)
                if isinstance(s, ast.Assign) and isinstance(s.value, ast.Call) and (access_path(s.value.func) or "").endswith("sqlite3.connect"):
                    created = access_path(s.targets[0])
                    if wm:
                        iso = [k.value for k in s.value.keywords if k.arg == "isolation_level"]
                        if not iso or not is_const(iso[0]) or str(const_value(iso[0])).upper() != "EXCLUSIVE":
                            bad = bad or (s, "the write connection is not opened with isolation_level='Exclusive'")
                for c in calls_in(s):
                    if isinstance(c.func, ast.Attribute) and c.func.attr == "execute" and c.args and isinstance(c.args[0], ast.Constant) and isinstance(c.args[0].value, str):
                        m = re.match(r"\s*PRAGMA\s+journal_mode\s*=\s*(\w+)", c.args[0].value, re.I)
                        if m:
                            journals.add(m.group(1).upper())
                            if m.group(1).upper() in ("OFF", "MEMORY"):
                                bad = bad or (c, "thread-safe write connections run with journal_mode=%s: without a rollback journal a crash inside a transaction corrupts the file" % m.group(1).upper())
            if e.kind == "return":
                if access_path(e.node.value) != created or created is None:
                    bad = bad or (e.node, "thread-safe conn() returns %s, not a connection created in this call" % text(e.node.value))
    # a connection that cannot write cannot roll back the hot journal a crashed writer left behind:
    # the view of a store must be opened read-write capable (plain path / mode=rw), never mode=ro / immutable
    TC = Terms(fn)
    for s_ in stmts_of(fn):
        if isinstance(s_, (ast.For, ast.While, ast.If, ast.Try, ast.With)):
            continue
        for c in calls_in(s_):
            if (access_path(c.func) or "").endswith("sqlite3.connect") and c.args:
                a0 = TC.expand(c.args[0], at=s_)
                lits = [n_.value for n_ in ast.walk(a0) if isinstance(n_, ast.Constant) and isinstance(n_.value, str)]
                uri = any(k.arg == "uri" and not (is_const(k.value) and const_value(k.value) is False) for k in c.keywords)
                if uri and any(("mode=ro" in l_ or "immutable=1" in l_) for l_ in lits):
                    bad = bad or (c, "the store is opened through a read-only URI (%s): such a connection cannot roll back the rollback journal of a writer that died inside "
                                  "a transaction, so the store left by a crash cannot be read (sqlite3.OperationalError) although every committed design is in it" % text(a0)[:120])
    if bad:
        ctx.violated("R3", C, where(mod, bad[0]), bad[1], key="thread-safe-connection")
    elif n == 0:
        ctx.inconclusive("R3", C, where(mod, fn), "no thread-safe path found", key="thread-safe-connection")
    else:
        ctx.holds("R3", C, where(mod, fn), "thread-safe: fresh exclusive connection per call, nothing cached on self, journal_mode in %s (not OFF/MEMORY)" % (sorted(journals) or ["<default DELETE>"]), key="thread-safe-connection")
    # default of thread_safe in the constructor
    init = cls.methods.get("__init__")
    if init is not None:
        a = init.args
        names = [x.arg for x in a.args]
        defaults = dict(zip(names[len(names) - len(a.defaults):], a.defaults))
        d = defaults.get("thread_safe")
        ctx.check(d is not None and is_const(d) and const_value(d) is True, "R3", "SqliteDataStore.__init__", where(mod, init),
                  "thread_safe defaults to True (the crash-consistency claim is for the default mode)", key="default-mode")


def r4_structure(ctx, repo, cls):
    mod = cls.module
    fn = cls.methods.get("_create_structure")
    if fn is None:
        raise AnalysisError("SqliteDataStore._create_structure not found")
    C = "SqliteDataStore._create_structure"
    bad = None
    n = 0
    for p in Enumerator(loop_counts=(0, 1, 2), can_raise=lambda s: False).function_paths(fn):
        if p.outcome == "raise":
            continue
        n += 1
        last_exec = last_commit = -1
        ddl_commit = False
        seen_ddl = 0
        for i, e in enumerate(p.events):
            if e.kind != "stmt":
                continue
            for c in calls_in(e.node):
                if isinstance(c.func, ast.Attribute) and c.func.attr == "execute":
                    last_exec = i
                    sql = sql_of(cls, c.args[0]) if c.args else None
                    if sql and sql.strip().upper().startswith("CREATE"):
                        seen_ddl += 1
                elif isinstance(c.func, ast.Attribute) and c.func.attr == "commit":
                    last_commit = i
        if last_commit < last_exec:
            bad = bad or (p, "statements after the last commit: the problem definition is not durable when the constructor returns")
        if seen_ddl < 4:
            bad = bad or (p, "only %d of the 4 tables are created" % seen_ddl)
    if bad:
        ctx.violated("R4", C, where(mod, fn), bad[1] + " (path [%s])" % bad[0].describe(4), key="structure-commit")
    else:
        ctx.holds("R4", C, where(mod, fn), "four tables created, every execute is followed by a commit (%d paths)" % n, key="structure-commit")
    init = cls.methods.get("__init__")
    selfn = func_params(init)[0]
    badi = None
    for p in Enumerator(loop_counts=(0, 1)).function_paths(init):
        if p.outcome == "raise":
            continue
        modes = feasible_modes(p, selfn)
        called = any((access_path(c.func) or "") in (selfn + "._create_structure", selfn + ".read_from_datastore") for e in p.events if e.kind == "stmt" for c in calls_in(e.node))
        # a path taken ONLY in write modes must have built (or read) the structure
        if modes and modes <= WRITE_MODES and not called:
            badi = badi or p
    if badi:
        ctx.violated("R4", "SqliteDataStore.__init__", where(mod, init), "in mode write/rewrite the constructor can return without creating or reading the structure (path [%s])" % badi.describe(5), key="constructor")
    else:
        ctx.holds("R4", "SqliteDataStore.__init__", where(mod, init), "write/rewrite modes create (or read) the structure before the constructor returns", key="constructor")


def run(ctx):
    for rid, doc in (("R1", "store call after the final writes, nothing persistent written after it"), ("R2", "single upsert then commit on the same connection; errors not swallowed"),
                     ("R3", "thread-safe connection: fresh, exclusive, journalled"), ("R4", "structure committed before the constructor returns"),
                     ("R5", "the stored row takes 'vector' from the vector and 'costs' from the costs of the same individual")):
        ctx.rule(rid, doc)
    ctx.axiom("SQLite: a committed transaction survives process death; an uncommitted one is rolled back on next open when a rollback journal exists; one INSERT..ON CONFLICT DO UPDATE statement is atomic")
    ctx.assume("process death only (no OS crash / power loss: synchronous=0 is outside the property's fault model)")
    jm = JobModel(ctx.repo)
    cls = ctx.repo.cls("SqliteDataStore", "datastore")
    r1_job(ctx, jm)
    r2_sync(ctx, ctx.repo, cls)
    r3_conn(ctx, ctx.repo, cls)
    r4_structure(ctx, ctx.repo, cls)
    from .c10 import r1_fields
    r1_fields(ctx, ctx.repo, rid="R5", fields=("vector", "costs"), helper_rule=False)
